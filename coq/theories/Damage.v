(* Damage.v -- the acceptance logic of py7zr's reader as a chain of checks
   (property C04: damage is detected, no success with different content).

   Mirrors, quirks included:
     helpers.calculate_crc32                       (py7zr/helpers.py 42-53)
     SevenZipFile._check_7zfile, SignatureHeader._read   (py7zr.py 777-784, archiveinfo.py 1109-1122)
     SevenZipFile._real_get_contents, next-header CRC    (py7zr.py 430-438)
     Header._read, shape of the encoded-header path      (archiveinfo.py 919-962)
     Worker.extract / extract_single / _extract_single / _check / decompress (py7zr.py 1273-1510)
     SevenZipFile.test / testzip                         (py7zr.py 1177-1207)
   Decoders and the header parser are arbitrary functions (Section variables).
   State of the code mirrored (repo HEAD f12575e): the folder-level CRC is compared when the
   whole folder has been delivered (decompressor.is_complete()); a member whose CRC is stored at
   folder level carries it as its own digest as well; py7zr's writer stores the CRC of the plain
   header in an encoded/encrypted header and Header._read verifies it when present; testzip()
   calls reset() first and reports a folder-level CrcError with a marker string that is neither
   None nor a member name (commit 065e810; before it, it returned args[2] = None, i.e. "good");
   the symbolic-link branch of _extract_single compares the CRC of the decoded target text
   (commit c33fe91: [symcheck] = true is the code as it is, [symcheck] = false the code before
   that commit, kept for the regression example).
   stdlib only; no axioms. *)
From P7 Require Import Prelude Crc32.
From Coq Require Import NArith ZArith List Bool Lia ZifyBool.
Import ListNotations.
Open Scope Z_scope.

(* ------------------------------------------------------------------ *)
(** * Byte-string helpers (Z-indexed: no unary numbers for file offsets) *)
(* ------------------------------------------------------------------ *)

Fixpoint takeZ (n : Z) (l : bytes) : bytes :=
  match l with
  | [] => []
  | x :: r => if n <=? 0 then [] else x :: takeZ (n - 1) r
  end.

Fixpoint dropZ (n : Z) (l : bytes) : bytes :=
  match l with
  | [] => []
  | x :: r => if n <=? 0 then l else dropZ (n - 1) r
  end.

(* data[a : a + n] *)
Definition sliceZ (a n : Z) (l : bytes) : bytes := takeZ n (dropZ a l).

Definition zlen (l : bytes) : Z := Z.of_nat (length l).

(* struct.unpack("<L"/"<Q") *)
Fixpoint le_value (bs : bytes) : Z :=
  match bs with
  | [] => 0
  | b :: r => b + 256 * le_value r
  end.

Fixpoint bytes_eqb (a b : bytes) : bool :=
  match a, b with
  | [], [] => true
  | x :: a', y :: b' => (x =? y) && bytes_eqb a' b'
  | _, _ => false
  end.

(* ------------------------------------------------------------------ *)
(** * helpers.calculate_crc32(data, value, blocksize)                    *)
(* ------------------------------------------------------------------ *)

(* the while loop: one zlib.crc32 call per block *)
Fixpoint calc_go (fuel : nat) (bs : Z) (data : bytes) (v : Z) : Z :=
  match fuel with
  | O => v
  | S f =>
      match data with
      | [] => v
      | _ => calc_go f bs (dropZ bs data) (crc32_update v (takeZ bs data))
      end
  end.

(* blocksize >= 1 (the default, 1 MiB, is the only value the library passes) *)
Definition calculate_crc32 (data : bytes) (v : Z) (blocksize : Z) : Z :=
  if zlen data <=? blocksize then crc32_update v data
  else calc_go (length data) blocksize data v.

(* CRC over the chunks a decoder hands out: Worker.decompress,
   `crc32 = calculate_crc32(tmp, crc32)` per chunk *)
Fixpoint crc_chunks (v : Z) (chunks : list bytes) : Z :=
  match chunks with
  | [] => v
  | c :: r => crc_chunks (crc32_update v c) r
  end.

(* ------------------------------------------------------------------ *)
(** * Start header: _check_7zfile + SignatureHeader._read               *)
(* ------------------------------------------------------------------ *)

Definition magic7z : bytes := [55; 122; 188; 175; 39; 28].

Record sighdr := mkSig { sh_ofs : Z; sh_size : Z; sh_crc : Z }.

(* the 20 bytes the start header CRC covers, and the stored CRC *)
Definition start_fields (img : bytes) : bytes := sliceZ 12 20 img.
Definition start_crc (img : bytes) : Z := le_value (sliceZ 8 4 img).

(* read_real_uint64, read_real_uint64, read_uint32 over the 20 bytes *)
Definition fields_sig (F : bytes) : sighdr :=
  mkSig (le_value (takeZ 8 F)) (le_value (takeZ 8 (dropZ 8 F))) (le_value (takeZ 4 (dropZ 8 (dropZ 8 F)))).

(* crc = calculate_crc32(data); crc = calculate_crc32(data, crc); crc = calculate_crc32(data, crc) *)
Definition fields_crc (F : bytes) : Z :=
  crc32_update (crc32_update (crc32_update 0 (takeZ 8 F)) (takeZ 8 (dropZ 8 F))) (takeZ 4 (dropZ 8 (dropZ 8 F))).

(* bytes 0-5 magic, 6-7 version (read, never looked at), 8-11 start header CRC,
   12-19 next header offset, 20-27 next header size, 28-31 next header CRC.
   A short read makes struct.unpack raise struct.error (EOther). *)
Definition sig_read (img : bytes) : res sighdr :=
  if negb (bytes_eqb (takeZ 6 img) magic7z) then Err EBad7z        (* "not a 7z file" *)
  else if zlen img <? 32 then Err EOther
  else
    let F := start_fields img in
    if fields_crc F =? start_crc img then Ok (fields_sig F)
    else Err EBad7z.                                                (* "invalid header data" *)

(* ------------------------------------------------------------------ *)
(** * Next header: seek(ofs, SEEK_CUR); read(size); CRC                 *)
(* ------------------------------------------------------------------ *)

(* [body] is the file from offset 32 on; a read past the end is short *)
Definition hdr_bytes (body : bytes) (s : sighdr) : bytes :=
  sliceZ (sh_ofs s) (sh_size s) body.

Definition hdr_read (body : bytes) (s : sighdr) : res bytes :=
  let h := hdr_bytes body s in
  if crc32 h =? sh_crc s then Ok h else Err EBad7z.                 (* "invalid header data" *)

(* ------------------------------------------------------------------ *)
(** * Members, decoders, exceptions                                     *)
(* ------------------------------------------------------------------ *)

(* what Worker.target_filepath holds for a member: nothing, a MemIO (factory),
   or a path *)
Inductive tkind := TNone | TMem | TPath.

Record mfile := mkFile {
  f_id : Z;
  f_name : list Z;
  f_empty : bool;            (* emptystream *)
  f_crc : option Z;          (* ArchiveFile.crc32: the stored digest when defined *)
  f_symlink : bool;
  f_tgt : tkind
}.

(* what one call of Worker.decompress for a member does: hands out chunks and
   returns, or the decoder raises (this includes Bad7zFile "unexpected end of compressed
   stream" when the decoder stalls before the declared size, commit 2499498), or the
   folder-level check (packed stream consumed and the whole folder delivered) raises
   CrcError(crc, digest, None) *)
Inductive dres := DOk (chunks : list bytes) | DErr (e : err) | DFolderCrc.

(* CrcError(expected, actual, filename) -- filename None for the folder level *)
Inductive exn := XCrc (who : option Z) | XErr (e : err).

Inductive outcome := Done (out : list (mfile * bytes)) | Raised (x : exn).

Definition tnone (t : tkind) : bool := match t with TNone => true | _ => false end.
Definition tpath (t : tkind) : bool := match t with TPath => true | _ => false end.

(* `f.crc32 is not None and crc32 != f.crc32` *)
Definition crc_bad (stored : option Z) (computed : Z) : bool :=
  match stored with
  | Some c => negb (computed =? c)
  | None => false
  end.

Section Flow.
  (* does the symbolic-link branch of _extract_single compare the CRC?
     true = the code as it is (commit c33fe91); false = the code before it *)
  Variable symcheck : bool.
  (* is_path_valid / utf-8 decoding of a link target *)
  Variable link_ok : bytes -> bool.
  (* the decoder, by member id *)
  Variable dec : Z -> dres.

  (* is the member's CRC compared when it is delivered? *)
  Definition checked (f : mfile) : bool :=
    symcheck || negb (f_symlink f && tpath (f_tgt f)).

  (* Worker._check: decode into NullIO, compare *)
  Fixpoint check (l : list mfile) : option exn :=
    match l with
    | [] => None
    | f :: r =>
        match dec (f_id f) with
        | DErr e => Some (XErr e)
        | DFolderCrc => Some (XCrc None)
        | DOk ch =>
            if crc_bad (f_crc f) (crc_chunks 0 ch) then Some (XCrc (Some (f_id f)))
            else check r
        end
    end.

  (* Worker._extract_single: the loop over the files of one folder *)
  Fixpoint extract_go (skip : bool) (files just : list mfile) (acc : list (mfile * bytes)) : outcome :=
    match files with
    | [] =>
        if skip then Done acc
        else match check just with Some x => Raised x | None => Done acc end
    | f :: r =>
        if tnone (f_tgt f) then
          if f_empty f then extract_go skip r just acc
          else extract_go skip r (just ++ [f]) acc
        else
          match check just with
          | Some x => Raised x
          | None =>
              if f_empty f then extract_go skip r [] (acc ++ [(f, [])])
              else
                match dec (f_id f) with
                | DErr e => Raised (XErr e)
                | DFolderCrc => Raised (XCrc None)
                | DOk ch =>
                    let d := concat ch in
                    if f_symlink f && tpath (f_tgt f) then
                      (* symbolic link created from the decoded bytes *)
                      if symcheck && crc_bad (f_crc f) (crc_chunks 0 ch) then Raised (XCrc (Some (f_id f)))
                      else if link_ok d then extract_go skip r [] (acc ++ [(f, d)])
                      else Raised (XErr EBad7z)
                    else if crc_bad (f_crc f) (crc_chunks 0 ch) then Raised (XCrc (Some (f_id f)))
                    else extract_go skip r [] (acc ++ [(f, d)])
                end
          end
    end.

  Definition extract_single (skip : bool) (files : list mfile) (acc : list (mfile * bytes)) : outcome :=
    extract_go skip files [] acc.

  (* Worker.extract, sequential: the calls of extract_single it makes *)
  Inductive shape :=
  | NoStreams (files : list mfile)
  | OneFolder (files : list mfile)
  | ManyFolders (files : list mfile) (folders : list (list mfile)).

  Definition has_target (l : list mfile) : bool := existsb (fun f => negb (tnone (f_tgt f))) l.

  (* (skip_notarget, files) per call *)
  Definition calls (skip : bool) (s : shape) : list (bool * list mfile) :=
    match s with
    | NoStreams files => [(true, filter f_empty files)]
    | OneFolder files => [(skip, files)]
    | ManyFolders files folders =>
        (true, filter f_empty files)
        :: map (fun l => (skip, l)) (filter (fun l => negb skip || has_target l) folders)
    end.

  Fixpoint run_calls (cs : list (bool * list mfile)) (acc : list (mfile * bytes)) : outcome :=
    match cs with
    | [] => Done acc
    | (sk, l) :: r =>
        match extract_single sk l acc with
        | Done acc' => run_calls r acc'
        | Raised x => Raised x
        end
    end.

  Definition worker_extract (skip : bool) (s : shape) : outcome := run_calls (calls skip s) [].

  (* the members whose bytes are decoded, in decoding order *)
  Definition nonempty (f : mfile) : bool := negb (f_empty f).
  Definition all_data (s : shape) : list mfile :=
    match s with
    | NoStreams _ => []
    | OneFolder files => filter nonempty files
    | ManyFolders _ folders => concat (map (filter nonempty) folders)
    end.
End Flow.

(* testzip(): every target None, skip_notarget=False, `except CrcError as crce:
   return crce.args[2]` *)
Definition clear_f (f : mfile) : mfile :=
  mkFile (f_id f) (f_name f) (f_empty f) (f_crc f) (f_symlink f) TNone.

Definition clear_shape (s : shape) : shape :=
  match s with
  | NoStreams files => NoStreams (map clear_f files)
  | OneFolder files => OneFolder (map clear_f files)
  | ManyFolders files folders => ManyFolders (map clear_f files) (map (map clear_f) folders)
  end.

(* TZ r: returns r (None = "no bad file"); TZFlag: returns "(folder checksum)", which is not
   None and not a member name.  [tzfolder] = true is the code as it is (commit 065e810);
   [tzfolder] = false is the code before that commit, kept for the regression example. *)
Inductive tzres := TZ (r : option Z) | TZFlag | TZRaise (e : err).

Definition testzip (tzfolder : bool) (dec : Z -> dres) (s : shape) : tzres :=
  match worker_extract false (fun _ => true) dec false (clear_shape s) with
  | Done _ => TZ None
  | Raised (XCrc (Some i)) => TZ (Some i)
  | Raised (XCrc None) => if tzfolder then TZFlag else TZ None
  | Raised (XErr e) => TZRaise e
  end.

(* Worker.extract as it is *)
Definition extract_impl (link_ok : bytes -> bool) (dec : Z -> dres) (skip : bool) (s : shape) : outcome :=
  worker_extract true link_ok dec skip s.

(* SevenZipFile.testzip as it is *)
Definition testzip_impl (dec : Z -> dres) (s : shape) : tzres := testzip true dec s.

(* test(): packed-stream CRCs.  [body] from offset 32.  Since commit 8623e75 PackInfo.crcs holds one
   entry per packed stream (0 where no CRC is defined) and test() reads crcs[i] for stream i. *)
Fixpoint test_go (defs : list bool) (sizes crcs : list Z) (pos : Z) (body : bytes) : res bool :=
  match defs with
  | [] => Ok true
  | d :: ds =>
      match sizes with
      | [] => Err EOther                                   (* IndexError *)
      | sz :: ss =>
          if d then
            match crcs with
            | [] => Err EOther                             (* IndexError *)
            | c :: cs =>
                if crc32 (sliceZ pos sz body) =? c then test_go ds ss cs (pos + sz) body
                else Ok false
            end
          else test_go ds ss (tl crcs) (pos + sz) body
      end
  end.

Definition test_model (packpos : Z) (defs : list bool) (sizes crcs : list Z) (body : bytes) : res (option bool) :=
  match crcs with
  | [] => Ok None                                          (* "the archive don't have a CRC record" *)
  | _ => do b <- test_go defs sizes crcs packpos body; Ok (Some b)
  end.

(* ------------------------------------------------------------------ *)
(** * The reader as a chain of checks over an abstract header            *)
(* ------------------------------------------------------------------ *)

Section Reader.
  Variable symcheck : bool.
  Variable link_ok : bytes -> bool.
  Variable hmeta : Type.
  Variable empty_meta : hmeta.                        (* next header of size 0: empty archive *)
  Variable parse_plain : bytes -> res hmeta.          (* Header._extract_header_info *)
  Variable enc_crc : bytes -> option Z.               (* folder CRC in the encoded-header descriptor, when defined *)
  Variable enc_decode : bytes -> bytes -> res bytes.  (* descriptor, body -> the decoded header stream *)
  Variable shape_of : hmeta -> shape.                 (* members with the targets the call registered *)
  Variable decoder : hmeta -> bytes -> Z -> dres.     (* decoding member id out of body *)

  (* Header._read: empty / kHeader / kEncodedHeader *)
  Definition header_plain (h body : bytes) : res (option bytes) :=
    match h with
    | [] => Ok None
    | pid :: _ =>
        if pid =? 1 then Ok (Some h)
        else if pid =? 23 then
          do d <- enc_decode h body;
          match enc_crc h with
          | Some c => if crc32 d =? c then Ok (Some d) else Err EBad7z     (* "invalid block data" *)
          | None => Ok (Some d)
          end
        else Err EOther                                                    (* TypeError "Unknown field" *)
    end.

  Definition load_meta (h body : bytes) : res hmeta :=
    do p <- header_plain h body;
    match p with None => Ok empty_meta | Some b => parse_plain b end.

  Definition open_archive (img : bytes) : res (hmeta * bytes) :=
    do s <- sig_read img;
    let body := dropZ 32 img in
    do h <- hdr_read body s;
    do m <- load_meta h body;
    Ok (m, body).

  (* open + extract: the members delivered, or an exception *)
  Definition read_archive (img : bytes) : outcome :=
    match open_archive img with
    | Err e => Raised (XErr e)
    | Ok (m, body) => worker_extract symcheck link_ok (decoder m body) true (shape_of m)
    end.

  (* the next header bytes of an image whose start header is accepted *)
  Definition next_header (img : bytes) : bytes :=
    match sig_read img with Ok s => hdr_bytes (dropZ 32 img) s | Err _ => [] end.

  Definition plain_header (img : bytes) : option bytes :=
    match header_plain (next_header img) (dropZ 32 img) with Ok p => p | Err _ => None end.

  (* is the header's content covered by a checksum? raw header: by the next-header
     CRC; encoded header: only when its folder CRC is stored *)
  Definition header_protected (h : bytes) : bool :=
    match h with
    | [] => true
    | pid :: _ => (pid =? 1) || ((pid =? 23) && match enc_crc h with Some _ => true | None => false end)
    end.
End Reader.

(* ------------------------------------------------------------------ *)
(** * Tree protocol                                                     *)
(* ------------------------------------------------------------------ *)

Definition of_tkind (t : tree) : tkind :=
  let z := of_TI t in if z =? 1 then TMem else if z =? 2 then TPath else TNone.

(* file = (id empty (crc)? symlink tgt) *)
Definition of_mfile (t : tree) : mfile :=
  mkFile (of_TI (tnth t 0)) [] (of_bool (tnth t 1)) (of_opt of_TI (tnth t 2)) (of_bool (tnth t 3)) (of_tkind (tnth t 4)).

(* shape = (kind files folders) *)
Definition of_shape (t : tree) : shape :=
  let files := map of_mfile (of_TL (tnth t 1)) in
  let folders := map (fun l => map of_mfile (of_TL l)) (of_TL (tnth t 2)) in
  let k := of_TI (tnth t 0) in
  if k =? 0 then NoStreams files else if k =? 1 then OneFolder files else ManyFolders files folders.

Definition of_err (z : Z) : err :=
  if z =? 1 then EBad7z else if z =? 2 then ECrc else if z =? 3 then EPassword else if z =? 4 then EUnsupported
  else if z =? 5 then EEof else if z =? 7 then EFuel else EOther.

(* decs = ((id tag payload) ...): tag 0 chunks, 1 error code, 2 folder-level CRC error *)
Fixpoint of_decs (l : list tree) (i : Z) : dres :=
  match l with
  | [] => DErr EOther
  | t :: r =>
      if of_TI (tnth t 0) =? i then
        let tag := of_TI (tnth t 1) in
        if tag =? 0 then DOk (map of_bytes (of_TL (tnth t 2)))
        else if tag =? 2 then DFolderCrc
        else DErr (of_err (of_TI (tnth t 2)))
      else of_decs r i
  end.

Definition t_exn (x : exn) : tree :=
  match x with
  | XCrc (Some i) => TL [TI 1; TL [TI i]]
  | XCrc None => TL [TI 1; TL []]
  | XErr e => TL [TI 2; t_err e]
  end.

Definition t_outcome (o : outcome) : tree :=
  match o with
  | Done out => TL [TI 0; TL (map (fun '(f, d) => TL [TI (f_id f); t_bytes d]) out)]
  | Raised x => t_exn x
  end.

Definition t_tzres (r : tzres) : tree :=
  match r with
  | TZ None => TL [TI 0; TL []]
  | TZ (Some i) => TL [TI 0; TL [TI i]]
  | TZFlag => TL [TI 3]
  | TZRaise e => TL [TI 2; t_err e]
  end.

Definition damage_dispatch (fn : Z) (a : tree) : tree :=
  match fn with
  (* FN 400 dmg_calculate_crc32 : (data value blocksize) -> int *)
  | 400 => TI (calculate_crc32 (of_bytes (tnth a 0)) (of_TI (tnth a 1)) (of_TI (tnth a 2)))
  (* FN 401 dmg_sig_read : image -> res (ofs size crc) *)
  | 401 => t_res (fun s => TL [TI (sh_ofs s); TI (sh_size s); TI (sh_crc s)]) (sig_read (of_bytes a))
  (* FN 402 dmg_hdr_read : (body ofs size crc) -> res bytes *)
  | 402 => t_res t_bytes (hdr_read (of_bytes (tnth a 0))
                            (mkSig (of_TI (tnth a 1)) (of_TI (tnth a 2)) (of_TI (tnth a 3))))
  (* FN 403 dmg_extract : (symcheck skip shape decs) -> outcome *)
  | 403 => t_outcome (worker_extract (of_bool (tnth a 0)) (fun _ => true) (of_decs (of_TL (tnth a 3)))
                        (of_bool (tnth a 1)) (of_shape (tnth a 2)))
  (* FN 404 dmg_testzip : (tzfolder shape decs) -> tzres *)
  | 404 => t_tzres (testzip (of_bool (tnth a 0)) (of_decs (of_TL (tnth a 2))) (of_shape (tnth a 1)))
  (* FN 405 dmg_test : (packpos defs sizes crcs body) -> res (() | (bool)) *)
  | 405 => t_res (t_opt t_bool) (test_model (of_TI (tnth a 0)) (map of_bool (of_TL (tnth a 1)))
                                   (map of_TI (of_TL (tnth a 2))) (map of_TI (of_TL (tnth a 3))) (of_bytes (tnth a 4)))
  | _ => TL [TI (-2)]
  end.

(* ------------------------------------------------------------------ *)
(** * Proofs: byte-string helpers                                        *)
(* ------------------------------------------------------------------ *)

Lemma zlen_cons x l : zlen (x :: l) = zlen l + 1.
Proof. unfold zlen. cbn [length]. lia. Qed.

Lemma zlen_nonneg l : 0 <= zlen l.
Proof. unfold zlen. lia. Qed.

Lemma zlen_app a b : zlen (a ++ b) = zlen a + zlen b.
Proof. unfold zlen. rewrite app_length. lia. Qed.

Lemma takeZ_nonpos n l : n <= 0 -> takeZ n l = [].
Proof. intros Hn. destruct l as [| x r]; [reflexivity |]. cbn [takeZ]. destruct (n <=? 0) eqn:E; [reflexivity | lia]. Qed.

Lemma dropZ_nonpos n l : n <= 0 -> dropZ n l = l.
Proof. intros Hn. destruct l as [| x r]; [reflexivity |]. cbn [dropZ]. destruct (n <=? 0) eqn:E; [reflexivity | lia]. Qed.

Lemma takeZ_app_len a b : takeZ (zlen a) (a ++ b) = a.
Proof.
  induction a as [| x r IH].
  - cbn [app]. apply takeZ_nonpos. unfold zlen. cbn. lia.
  - cbn [app takeZ]. rewrite zlen_cons. pose proof (zlen_nonneg r) as Hr.
    destruct (zlen r + 1 <=? 0) eqn:E; [lia |].
    replace (zlen r + 1 - 1) with (zlen r) by lia. rewrite IH. reflexivity.
Qed.

Lemma takeZ_app_le n a b : n <= zlen a -> takeZ n (a ++ b) = takeZ n a.
Proof.
  revert n. induction a as [| x r IH]; intros n Hn.
  - unfold zlen in Hn. cbn in Hn. rewrite !takeZ_nonpos by lia. reflexivity.
  - cbn [app takeZ]. rewrite zlen_cons in Hn. destruct (n <=? 0) eqn:E; [reflexivity |].
    rewrite IH by lia. reflexivity.
Qed.

Lemma dropZ_app_plus a b k : 0 <= k -> dropZ (zlen a + k) (a ++ b) = dropZ k b.
Proof.
  intros Hk. induction a as [| x r IH].
  - cbn [app]. unfold zlen. cbn [length Z.of_nat]. f_equal.
  - cbn [app dropZ]. rewrite zlen_cons. pose proof (zlen_nonneg r) as Hr.
    destruct (zlen r + 1 + k <=? 0) eqn:E; [lia |].
    replace (zlen r + 1 + k - 1) with (zlen r + k) by lia. exact IH.
Qed.

Lemma dropZ_app_len a b : dropZ (zlen a) (a ++ b) = b.
Proof.
  replace (zlen a) with (zlen a + 0) by lia. rewrite dropZ_app_plus by lia.
  apply dropZ_nonpos. lia.
Qed.

Lemma takeZ_all n l : zlen l <= n -> takeZ n l = l.
Proof.
  revert n. induction l as [| x r IH]; intros n Hn; [reflexivity |].
  cbn [takeZ]. rewrite zlen_cons in Hn. pose proof (zlen_nonneg r) as Hr.
  destruct (n <=? 0) eqn:E; [lia |]. rewrite IH by lia. reflexivity.
Qed.

Lemma take_drop_Z n l : takeZ n l ++ dropZ n l = l.
Proof.
  revert n. induction l as [| x r IH]; intros n; [reflexivity |].
  cbn [takeZ dropZ]. destruct (n <=? 0) eqn:E; [reflexivity |].
  cbn [app]. rewrite IH. reflexivity.
Qed.

Lemma zlen_takeZ_le n l : 0 <= n -> zlen (takeZ n l) <= n.
Proof.
  revert n. induction l as [| x r IH]; intros n Hn; [unfold zlen; cbn; lia |].
  cbn [takeZ]. destruct (n <=? 0) eqn:E; [unfold zlen; cbn; lia |].
  rewrite zlen_cons. specialize (IH (n - 1)). lia.
Qed.

Lemma zlen_dropZ_le n l : 0 <= n -> zlen (dropZ n l) <= Z.max 0 (zlen l - n).
Proof.
  revert n. induction l as [| x r IH]; intros n Hn; [unfold zlen; cbn; lia |].
  cbn [dropZ]. destruct (n <=? 0) eqn:E; [lia |].
  rewrite zlen_cons. specialize (IH (n - 1)). lia.
Qed.

Lemma dropZ_shorter n x r : 1 <= n -> (length (dropZ n (x :: r)) <= length r)%nat.
Proof.
  intros Hn. pose proof (zlen_dropZ_le n (x :: r)) as H. rewrite zlen_cons in H. unfold zlen in H. lia.
Qed.

Lemma sliceZ_mid pre m post : sliceZ (zlen pre) (zlen m) (pre ++ m ++ post) = m.
Proof. unfold sliceZ. rewrite dropZ_app_len, takeZ_app_len. reflexivity. Qed.

Lemma bytes_eqb_eq a b : bytes_eqb a b = true <-> a = b.
Proof.
  revert b. induction a as [| x r IH]; intros [| y s]; cbn [bytes_eqb]; split; intros H;
    try reflexivity; try discriminate.
  - apply andb_prop in H. destruct H as [Hxy Hr]. apply Z.eqb_eq in Hxy. apply IH in Hr. subst. reflexivity.
  - injection H as -> ->. rewrite Z.eqb_refl. cbn. apply IH. reflexivity.
Qed.

Lemma le_value_inj a b :
  wf_bytes a = true -> wf_bytes b = true -> length a = length b -> le_value a = le_value b -> a = b.
Proof.
  revert b. induction a as [| x r IH]; intros [| y s] Ha Hb Hl Hv; try reflexivity; try discriminate.
  unfold wf_bytes in Ha, Hb. cbn [forallb] in Ha, Hb.
  apply andb_prop in Ha. destruct Ha as [Hx Hr]. apply andb_prop in Hb. destruct Hb as [Hy Hs].
  unfold is_byte in Hx, Hy. cbn [le_value] in Hv. cbn [length] in Hl.
  assert (x = y) by lia. assert (le_value r = le_value s) by lia.
  subst y. f_equal. apply IH; [exact Hr | exact Hs | lia | assumption].
Qed.

Lemma bytes_eq_dec (a b : bytes) : {a = b} + {a <> b}.
Proof. apply list_eq_dec, Z.eq_dec. Qed.

(* ------------------------------------------------------------------ *)
(** * Proofs: CRC chaining                                               *)
(* ------------------------------------------------------------------ *)

Lemma crc32_update_app' v a b : crc32_update v (a ++ b) = crc32_update (crc32_update v a) b.
Proof. unfold crc32_update. rewrite crc_raw_app, N2Z.id, lxor_twice_r. reflexivity. Qed.

Lemma crc_chunks_concat chunks v :
  0 <= v < 2 ^ 32 -> crc_chunks v chunks = crc32_update v (concat chunks).
Proof.
  revert v. induction chunks as [| c r IH]; intros v Hv.
  - cbn [crc_chunks concat]. symmetry. apply crc32_update_nil. exact Hv.
  - cbn [crc_chunks concat]. rewrite crc32_update_app'. apply IH. apply crc32_update_range. exact Hv.
Qed.

(* Worker.decompress: the CRC accumulated over the chunks is the CRC of the bytes written *)
Lemma crc_chunks_0 chunks : crc_chunks 0 chunks = crc32 (concat chunks).
Proof. unfold crc32. apply crc_chunks_concat. change (2 ^ 32) with 4294967296. lia. Qed.

Lemma calc_go_eq bs : 1 <= bs -> forall fuel data v,
  0 <= v < 2 ^ 32 -> (length data <= fuel)%nat -> calc_go fuel bs data v = crc32_update v data.
Proof.
  intros Hbs. induction fuel as [| f IH]; intros data v Hv Hlen.
  - destruct data; [| cbn in Hlen; lia]. cbn [calc_go]. symmetry. apply crc32_update_nil. exact Hv.
  - cbn [calc_go]. destruct data as [| x r].
    + symmetry. apply crc32_update_nil. exact Hv.
    + rewrite IH.
      * rewrite <- crc32_update_app', take_drop_Z. reflexivity.
      * apply crc32_update_range. exact Hv.
      * pose proof (dropZ_shorter bs x r Hbs). cbn [length] in Hlen. lia.
Qed.

(* helpers.calculate_crc32: block-wise chaining computes the CRC of the whole *)
Theorem calculate_crc32_eq : forall data v bs,
  1 <= bs -> 0 <= v < 2 ^ 32 -> calculate_crc32 data v bs = crc32_update v data.
Proof.
  intros data v bs Hbs Hv. unfold calculate_crc32.
  destruct (zlen data <=? bs); [reflexivity |]. apply calc_go_eq; [exact Hbs | exact Hv | lia].
Qed.

(* ------------------------------------------------------------------ *)
(** * Proofs: start header                                               *)
(* ------------------------------------------------------------------ *)

Lemma fields_crc_eq F : zlen F <= 20 -> fields_crc F = crc32 F.
Proof.
  intros HF. unfold fields_crc, crc32.
  rewrite <- !crc32_update_app'. f_equal.
  pose proof (zlen_dropZ_le 8 F) as H1. pose proof (zlen_dropZ_le 8 (dropZ 8 F)) as H2.
  rewrite (takeZ_all 4 (dropZ 8 (dropZ 8 F))) by lia.
  rewrite (take_drop_Z 8 (dropZ 8 F)), (take_drop_Z 8 F). reflexivity.
Qed.

Lemma start_fields_len img : zlen (start_fields img) <= 20.
Proof. unfold start_fields, sliceZ. apply zlen_takeZ_le. lia. Qed.

(* what acceptance of the start header means *)
Lemma sig_read_ok img s :
  sig_read img = Ok s ->
  takeZ 6 img = magic7z /\ crc32 (start_fields img) = start_crc img /\ s = fields_sig (start_fields img).
Proof.
  unfold sig_read. intros H.
  destruct (bytes_eqb (takeZ 6 img) magic7z) eqn:Em; cbn [negb] in H; [| discriminate].
  destruct (zlen img <? 32) eqn:El; [discriminate |].
  destruct (fields_crc (start_fields img) =? start_crc img) eqn:Ec; [| discriminate].
  injection H as <-. apply bytes_eqb_eq in Em. apply Z.eqb_eq in Ec.
  rewrite fields_crc_eq in Ec by apply start_fields_len. auto.
Qed.

Lemma sig_read_split pre c F body :
  zlen pre = 8 -> zlen c = 4 -> zlen F = 20 ->
  sig_read (pre ++ c ++ F ++ body) =
    if negb (bytes_eqb (takeZ 6 pre) magic7z) then Err EBad7z
    else if crc32 F =? le_value c then Ok (fields_sig F) else Err EBad7z.
Proof.
  intros Hp Hc HF. unfold sig_read.
  rewrite takeZ_app_le by lia.
  destruct (negb (bytes_eqb (takeZ 6 pre) magic7z)); [reflexivity |].
  assert (Hlen : zlen (pre ++ c ++ F ++ body) <? 32 = false).
  { rewrite !zlen_app. pose proof (zlen_nonneg body). lia. }
  rewrite Hlen.
  assert (HFs : start_fields (pre ++ c ++ F ++ body) = F).
  { unfold start_fields. rewrite (app_assoc pre c).
    replace 12 with (zlen (pre ++ c)) by (rewrite zlen_app; lia).
    replace 20 with (zlen F) by lia. apply sliceZ_mid. }
  assert (Hcs : start_crc (pre ++ c ++ F ++ body) = le_value c).
  { unfold start_crc. replace 8 with (zlen pre) by lia. replace 4 with (zlen c) by lia.
    rewrite sliceZ_mid. reflexivity. }
  rewrite HFs, Hcs, fields_crc_eq by lia. reflexivity.
Qed.

(* a <= 32-bit burst between two byte strings of equal length *)
Definition burst (a b : bytes) : Prop :=
  length a = length b /\
  exists (e k : N), N.lxor (le_bits a) (le_bits b) = N.shiftl e k /\ (0 < e < 2 ^ 32)%N.

Lemma burst_crc a b : burst a b -> crc32 a <> crc32 b.
Proof. intros [Hl [e [k [Hx He]]]]. unfold crc32. exact (crc32_burst32 0 a b e k Hl Hx He). Qed.

(* any alteration of the 20 start-header bytes confined to <= 32 consecutive bits is rejected *)
Theorem burst_detected_start_header : forall pre c F F' body s,
  zlen pre = 8 -> zlen c = 4 -> zlen F = 20 ->
  sig_read (pre ++ c ++ F ++ body) = Ok s ->
  burst F F' ->
  sig_read (pre ++ c ++ F' ++ body) = Err EBad7z.
Proof.
  intros pre c F F' body s Hp Hc HF Hok Hb.
  assert (HF' : zlen F' = 20) by (destruct Hb as [Hl _]; unfold zlen in *; lia).
  rewrite sig_read_split in Hok by assumption. rewrite sig_read_split by assumption.
  destruct (negb (bytes_eqb (takeZ 6 pre) magic7z)); [reflexivity |].
  destruct (crc32 F =? le_value c) eqn:E; [| discriminate]. apply Z.eqb_eq in E.
  destruct (crc32 F' =? le_value c) eqn:E'; [| reflexivity]. apply Z.eqb_eq in E'.
  exfalso. apply (burst_crc F F' Hb). lia.
Qed.

(* any alteration of the stored start-header CRC alone is rejected *)
Theorem start_crc_alteration_rejected : forall pre c c' F body s,
  zlen pre = 8 -> zlen c = 4 -> zlen c' = 4 -> zlen F = 20 ->
  wf_bytes c = true -> wf_bytes c' = true -> c <> c' ->
  sig_read (pre ++ c ++ F ++ body) = Ok s ->
  sig_read (pre ++ c' ++ F ++ body) = Err EBad7z.
Proof.
  intros pre c c' F body s Hp Hc Hc' HF Hw Hw' Hne Hok.
  rewrite sig_read_split in Hok by assumption. rewrite sig_read_split by assumption.
  destruct (negb (bytes_eqb (takeZ 6 pre) magic7z)); [reflexivity |].
  destruct (crc32 F =? le_value c) eqn:E; [| discriminate]. apply Z.eqb_eq in E.
  destruct (crc32 F =? le_value c') eqn:E'; [| reflexivity]. apply Z.eqb_eq in E'.
  exfalso. apply Hne. apply le_value_inj; [assumption | assumption | unfold zlen in *; lia | lia].
Qed.

(* any alteration of the magic is rejected *)
Theorem magic_alteration_rejected : forall m rest,
  zlen m = 6 -> m <> magic7z -> sig_read (m ++ rest) = Err EBad7z.
Proof.
  intros m rest Hm Hne. unfold sig_read.
  replace 6 with (zlen m) by lia. rewrite takeZ_app_len.
  destruct (bytes_eqb m magic7z) eqn:E; [apply bytes_eqb_eq in E; contradiction | reflexivity].
Qed.

(* ------------------------------------------------------------------ *)
(** * Proofs: next header                                                *)
(* ------------------------------------------------------------------ *)

Lemma hdr_read_ok body s h : hdr_read body s = Ok h -> h = hdr_bytes body s /\ crc32 h = sh_crc s.
Proof.
  unfold hdr_read. intros H. destruct (crc32 (hdr_bytes body s) =? sh_crc s) eqn:E; [| discriminate].
  injection H as <-. apply Z.eqb_eq in E. auto.
Qed.

Theorem burst_detected_header : forall pre h h' post s,
  zlen pre = sh_ofs s -> zlen h = sh_size s ->
  hdr_read (pre ++ h ++ post) s = Ok h ->
  burst h h' ->
  hdr_read (pre ++ h' ++ post) s = Err EBad7z.
Proof.
  intros pre h h' post s Hp Hh Hok Hb.
  assert (Hh' : zlen h' = sh_size s) by (destruct Hb as [Hl _]; unfold zlen in *; lia).
  apply hdr_read_ok in Hok. destruct Hok as [_ Hc].
  unfold hdr_read, hdr_bytes. rewrite <- Hp, <- Hh', sliceZ_mid.
  destruct (crc32 h' =? sh_crc s) eqn:E; [| reflexivity]. apply Z.eqb_eq in E.
  exfalso. apply (burst_crc h h' Hb). lia.
Qed.

(* ------------------------------------------------------------------ *)
(** * Proofs: the control flow of extraction ("delivered => checked")    *)
(* ------------------------------------------------------------------ *)

Section FlowProofs.
  Variable symcheck : bool.
  Variable link_ok : bytes -> bool.
  Variable dec : Z -> dres.

  Notation check := (check dec).
  Notation extract_go := (extract_go symcheck link_ok dec).
  Notation checked := (checked symcheck).

  (* the member was decoded without error and its CRC compared equal (or none is stored) *)
  Definition passes (f : mfile) : Prop :=
    exists ch, dec (f_id f) = DOk ch /\ crc_bad (f_crc f) (crc_chunks 0 ch) = false.

  (* what is known about a delivered pair *)
  Definition delivered_ok (f : mfile) (d : bytes) : Prop :=
    (f_empty f = true /\ d = []) \/
    (f_empty f = false /\ exists ch, dec (f_id f) = DOk ch /\ d = concat ch /\
       (checked f = true -> crc_bad (f_crc f) (crc_chunks 0 ch) = false)).

  Lemma check_app a b : check (a ++ b) = match check a with Some x => Some x | None => check b end.
  Proof.
    induction a as [| f r IH]; [reflexivity |].
    cbn [app check]. destruct (dec (f_id f)) as [ch | e |]; try reflexivity.
    destruct (crc_bad (f_crc f) (crc_chunks 0 ch)); [reflexivity | exact IH].
  Qed.

  Lemma check_none_passes l : check l = None -> forall f, In f l -> passes f.
  Proof.
    induction l as [| g r IH]; intros H f Hin; [contradiction |].
    cbn [check] in H. destruct (dec (f_id g)) as [ch | e |] eqn:Ed; try discriminate.
    destruct (crc_bad (f_crc g) (crc_chunks 0 ch)) eqn:Ec; [discriminate |].
    destruct Hin as [<- | Hin]; [exists ch; auto | apply IH; assumption].
  Qed.

  Lemma passes_check_none l : (forall f, In f l -> passes f) -> check l = None.
  Proof.
    induction l as [| g r IH]; intros H; [reflexivity |].
    cbn [check]. destruct (H g (or_introl eq_refl)) as [ch [Ed Ec]]. rewrite Ed, Ec.
    apply IH. intros f Hf. apply H. right. exact Hf.
  Qed.

  Lemma check_foldercrc l : check l = Some (XCrc None) -> exists f, In f l /\ dec (f_id f) = DFolderCrc.
  Proof.
    induction l as [| g r IH]; intros H; [discriminate |].
    cbn [check] in H. destruct (dec (f_id g)) as [ch | e |] eqn:Ed.
    - destruct (crc_bad (f_crc g) (crc_chunks 0 ch)); [discriminate |].
      destruct (IH H) as [f [Hin Hf]]. exists f. split; [right; exact Hin | exact Hf].
    - discriminate.
    - exists g. split; [left; reflexivity | exact Ed].
  Qed.

  (* soundness: whatever is delivered was decoded and, unless it is an unchecked link, compared *)
  Lemma go_sound : forall files skip just acc out,
    extract_go skip files just acc = Done out ->
    forall p, In p out ->
      In p acc \/ (In (fst p) files /\ tnone (f_tgt (fst p)) = false /\ delivered_ok (fst p) (snd p)).
  Proof.
    induction files as [| f r IH]; intros skip just acc out H p Hp.
    - cbn [extract_go] in H. destruct skip.
      + injection H as <-. left. exact Hp.
      + destruct (check just); [discriminate |]. injection H as <-. left. exact Hp.
    - cbn [extract_go] in H.
      assert (Hlift : forall d, extract_go skip r [] (acc ++ [(f, d)]) = Done out ->
                tnone (f_tgt f) = false -> delivered_ok f d ->
                In p acc \/ (In (fst p) (f :: r) /\ tnone (f_tgt (fst p)) = false /\ delivered_ok (fst p) (snd p))).
      { intros d Hgo Ht Hd. destruct (IH _ _ _ _ Hgo p Hp) as [Hin | [Hin Hrest]].
        - apply in_app_or in Hin. destruct Hin as [Hin | [<- | []]]; [left; exact Hin |].
          right. cbn [fst snd]. split; [left; reflexivity | split; assumption].
        - right. split; [right; exact Hin | exact Hrest]. }
      destruct (tnone (f_tgt f)) eqn:Et.
      + assert (Hrec : forall j, extract_go skip r j acc = Done out ->
                  In p acc \/ (In (fst p) (f :: r) /\ tnone (f_tgt (fst p)) = false /\ delivered_ok (fst p) (snd p))).
        { intros j Hgo. destruct (IH _ _ _ _ Hgo p Hp) as [Hin | [Hin Hrest]]; [left; exact Hin |].
          right. split; [right; exact Hin | exact Hrest]. }
        destruct (f_empty f); eapply Hrec; exact H.
      + destruct (check just); [discriminate |].
        destruct (f_empty f) eqn:Ee.
        * apply (Hlift [] H eq_refl). left. auto.
        * destruct (dec (f_id f)) as [ch | e |] eqn:Ed; try discriminate.
          destruct (f_symlink f && tpath (f_tgt f)) eqn:Es.
          -- destruct (symcheck && crc_bad (f_crc f) (crc_chunks 0 ch)) eqn:Ec; [discriminate |].
             destruct (link_ok (concat ch)); [| discriminate].
             apply (Hlift (concat ch) H eq_refl). right. split; [exact Ee |].
             exists ch. split; [exact Ed | split; [reflexivity |]].
             unfold checked. rewrite Es. cbn [negb]. rewrite orb_false_r. intros ->.
             cbn [andb] in Ec. exact Ec.
          -- destruct (crc_bad (f_crc f) (crc_chunks 0 ch)) eqn:Ec; [discriminate |].
             apply (Hlift (concat ch) H eq_refl). right. split; [exact Ee |].
             exists ch. split; [exact Ed | split; [reflexivity | intros _; exact Ec]].
  Qed.

  (* completeness: a successful call delivers every member that has a target, and keeps what was delivered *)
  Lemma go_complete : forall files skip just acc out,
    extract_go skip files just acc = Done out ->
    (forall p, In p acc -> In p out) /\
    (forall f, In f files -> tnone (f_tgt f) = false -> exists d, In (f, d) out).
  Proof.
    induction files as [| f r IH]; intros skip just acc out H.
    - cbn [extract_go] in H. split; [| intros f []].
      destruct skip; [injection H as <-; auto |].
      destruct (check just); [discriminate |]. injection H as <-. auto.
    - cbn [extract_go] in H.
      assert (Hlift : forall d, extract_go skip r [] (acc ++ [(f, d)]) = Done out ->
                (forall p, In p acc -> In p out) /\
                (forall g, In g (f :: r) -> tnone (f_tgt g) = false -> exists d, In (g, d) out)).
      { intros d Hgo. destruct (IH _ _ _ _ Hgo) as [Hacc Hall]. split.
        - intros p Hp. apply Hacc. apply in_or_app. left. exact Hp.
        - intros g [<- | Hg] Ht; [| apply Hall; assumption].
          exists d. apply Hacc. apply in_or_app. right. left. reflexivity. }
      destruct (tnone (f_tgt f)) eqn:Et.
      + assert (Hrec : forall j, extract_go skip r j acc = Done out ->
                  (forall p, In p acc -> In p out) /\
                  (forall g, In g (f :: r) -> tnone (f_tgt g) = false -> exists d, In (g, d) out)).
        { intros j Hgo. destruct (IH _ _ _ _ Hgo) as [Hacc Hall]. split; [exact Hacc |].
          intros g [<- | Hg] Ht; [congruence | apply Hall; assumption]. }
        destruct (f_empty f); eapply Hrec; exact H.
      + destruct (check just); [discriminate |].
        destruct (f_empty f); [apply (Hlift [] H) |].
        destruct (dec (f_id f)) as [ch | e |]; try discriminate.
        destruct (f_symlink f && tpath (f_tgt f)).
        * destruct (symcheck && crc_bad (f_crc f) (crc_chunks 0 ch)); [discriminate |].
          destruct (link_ok (concat ch)); [| discriminate]. apply (Hlift _ H).
        * destruct (crc_bad (f_crc f) (crc_chunks 0 ch)); [discriminate |]. apply (Hlift _ H).
  Qed.

  (* with every target None (testzip) a call is one run of _check over the folder's data members *)
  Lemma go_all_none : forall files just acc,
    (forall f, In f files -> tnone (f_tgt f) = true) ->
    extract_go false files just acc =
      match check (just ++ filter nonempty files) with Some x => Raised x | None => Done acc end.
  Proof.
    induction files as [| f r IH]; intros just acc Hn.
    - cbn [extract_go filter]. rewrite app_nil_r. reflexivity.
    - cbn [extract_go filter]. rewrite (Hn f (or_introl eq_refl)). unfold nonempty at 1.
      assert (Hr : forall g, In g r -> tnone (f_tgt g) = true) by (intros g Hg; apply Hn; right; exact Hg).
      destruct (f_empty f); cbn [negb].
      + apply IH. exact Hr.
      + rewrite IH by exact Hr. rewrite <- app_assoc. reflexivity.
  Qed.

  Lemma go_all_empty : forall files skip acc,
    (forall f, In f files -> tnone (f_tgt f) = true) -> (forall f, In f files -> f_empty f = true) ->
    extract_go skip files [] acc = Done acc.
  Proof.
    induction files as [| f r IH]; intros skip acc Hn He.
    - cbn [extract_go]. destruct skip; reflexivity.
    - cbn [extract_go]. rewrite (Hn f (or_introl eq_refl)), (He f (or_introl eq_refl)).
      apply IH; intros g Hg; [apply Hn | apply He]; right; exact Hg.
  Qed.

  (* ---- the sequence of calls ---- *)
  Notation run_calls := (run_calls symcheck link_ok dec).

  Lemma run_sound : forall cs acc out,
    run_calls cs acc = Done out ->
    forall p, In p out ->
      In p acc \/ (exists sk l, In (sk, l) cs /\ In (fst p) l /\ tnone (f_tgt (fst p)) = false /\
                                delivered_ok (fst p) (snd p)).
  Proof.
    induction cs as [| [sk l] r IH]; intros acc out H p Hp.
    - injection H as <-. left. exact Hp.
    - cbn [run_calls] in H. unfold extract_single in H.
      destruct (extract_go sk l [] acc) as [acc' | x] eqn:Eg; [| discriminate].
      destruct (IH _ _ H p Hp) as [Hin | [sk' [l' [Hc Hrest]]]].
      + destruct (go_sound _ _ _ _ _ Eg p Hin) as [Ha | Hb]; [left; exact Ha |].
        right. exists sk, l. split; [left; reflexivity | exact Hb].
      + right. exists sk', l'. split; [right; exact Hc | exact Hrest].
  Qed.

  Lemma run_complete : forall cs acc out,
    run_calls cs acc = Done out ->
    (forall p, In p acc -> In p out) /\
    (forall sk l f, In (sk, l) cs -> In f l -> tnone (f_tgt f) = false -> exists d, In (f, d) out).
  Proof.
    induction cs as [| [sk l] r IH]; intros acc out H.
    - injection H as <-. split; [auto | intros sk l f []].
    - cbn [run_calls] in H. unfold extract_single in H.
      destruct (extract_go sk l [] acc) as [acc' | x] eqn:Eg; [| discriminate].
      destruct (IH _ _ H) as [Hacc Hall]. destruct (go_complete _ _ _ _ _ Eg) as [Ha Hf]. split.
      + intros p Hp. apply Hacc, Ha, Hp.
      + intros sk' l' f [Hc | Hc] Hin Ht.
        * injection Hc as <- <-. destruct (Hf f Hin Ht) as [d Hd]. exists d. apply Hacc, Hd.
        * eapply Hall; eassumption.
  Qed.
End FlowProofs.

(* "delivered => checked": every member a successful extraction hands out was decoded by the
   decoder and -- unless it is a symbolic link created on disk by the unrepaired code -- its
   CRC-32 equals the stored one *)
Theorem delivered_implies_checked : forall symcheck link_ok dec skip s out f d c,
  worker_extract symcheck link_ok dec skip s = Done out ->
  In (f, d) out -> checked symcheck f = true -> f_crc f = Some c -> f_empty f = false ->
  crc32 d = c.
Proof.
  intros symcheck link_ok dec skip s out f d c H Hin Hck Hc He.
  unfold worker_extract in H.
  destruct (run_sound _ _ _ _ _ _ H (f, d) Hin) as [[] | [sk [l [_ [_ [_ Hd]]]]]].
  cbn [fst snd] in Hd. destruct Hd as [[He' _] | [_ [ch [_ [-> Hcrc]]]]]; [congruence |].
  specialize (Hcrc Hck). rewrite Hc in Hcrc. cbn [crc_bad] in Hcrc.
  rewrite crc_chunks_0 in Hcrc. lia.
Qed.

Definition crc_collision (a b : bytes) : Prop := a <> b /\ crc32 a = crc32 b.

(* ... hence the original bytes, or an explicit CRC-32 collision *)
Corollary delivered_intact_or_collision : forall symcheck link_ok dec skip s out f d d',
  worker_extract symcheck link_ok dec skip s = Done out ->
  In (f, d') out -> checked symcheck f = true -> f_empty f = false ->
  f_crc f = Some (crc32 d) ->                 (* the stored CRC is that of the original content d *)
  d' = d \/ crc_collision d d'.
Proof.
  intros symcheck link_ok dec skip s out f d d' H Hin Hck He Hc.
  pose proof (delivered_implies_checked _ _ _ _ _ _ _ _ _ H Hin Hck Hc He) as Hcrc.
  destruct (bytes_eq_dec d' d) as [-> | Hne]; [left; reflexivity |].
  right. split; [congruence | congruence].
Qed.

(* under the Copy coder the decoded member is a slice of the packed bytes: every <= 32-bit burst
   inside it makes the extraction fail *)
Theorem copy_burst_detected : forall symcheck link_ok dec skip s f pre d d' post chunks,
  (exists sk l, In (sk, l) (calls skip s) /\ In f l) ->
  tnone (f_tgt f) = false -> f_empty f = false -> checked symcheck f = true ->
  f_crc f = Some (crc32 d) ->
  burst d d' ->
  dec (f_id f) = DOk chunks ->
  concat chunks = sliceZ (zlen pre) (zlen d') (pre ++ d' ++ post) ->    (* Copy: bytes of the damaged body *)
  forall out, worker_extract symcheck link_ok dec skip s <> Done out.
Proof.
  intros symcheck link_ok dec skip s f pre d d' post chunks [sk [l [Hc Hl]]] Ht He Hck Hcrc Hb Hd Hcopy out H.
  rewrite sliceZ_mid in Hcopy.
  unfold worker_extract in H.
  destruct (run_complete _ _ _ _ _ _ H) as [_ Hall].
  destruct (Hall sk l f Hc Hl Ht) as [x Hx].
  destruct (run_sound _ _ _ _ _ _ H (f, x) Hx) as [[] | [sk' [l' [_ [_ [_ Hdel]]]]]].
  cbn [fst snd] in Hdel. destruct Hdel as [[He' _] | [_ [ch [Hd' [-> Hok]]]]]; [congruence |].
  rewrite Hd in Hd'. injection Hd' as <-. specialize (Hok Hck). rewrite Hcrc in Hok.
  cbn [crc_bad] in Hok. rewrite crc_chunks_0, Hcopy in Hok.
  apply (burst_crc d d' Hb). lia.
Qed.

(* ---- the code as it is (symcheck = true): every delivered member is compared ---- *)

Lemma checked_true f : checked true f = true.
Proof. reflexivity. Qed.

Theorem delivered_implies_checked_impl : forall link_ok dec skip s out f d c,
  extract_impl link_ok dec skip s = Done out ->
  In (f, d) out -> f_crc f = Some c -> f_empty f = false ->
  crc32 d = c.
Proof.
  intros link_ok dec skip s out f d c H Hin Hc He.
  exact (delivered_implies_checked true link_ok dec skip s out f d c H Hin (checked_true f) Hc He).
Qed.

Corollary delivered_intact_or_collision_impl : forall link_ok dec skip s out f d d',
  extract_impl link_ok dec skip s = Done out ->
  In (f, d') out -> f_empty f = false -> f_crc f = Some (crc32 d) ->
  d' = d \/ crc_collision d d'.
Proof.
  intros link_ok dec skip s out f d d' H Hin He Hc.
  exact (delivered_intact_or_collision true link_ok dec skip s out f d d' H Hin (checked_true f) He Hc).
Qed.

Theorem copy_burst_detected_impl : forall link_ok dec skip s f pre d d' post chunks,
  (exists sk l, In (sk, l) (calls skip s) /\ In f l) ->
  tnone (f_tgt f) = false -> f_empty f = false ->
  f_crc f = Some (crc32 d) ->
  burst d d' ->
  dec (f_id f) = DOk chunks ->
  concat chunks = sliceZ (zlen pre) (zlen d') (pre ++ d' ++ post) ->
  forall out, extract_impl link_ok dec skip s <> Done out.
Proof.
  intros link_ok dec skip s f pre d d' post chunks Hc Ht He Hcrc Hb Hd Hcopy.
  exact (copy_burst_detected true link_ok dec skip s f pre d d' post chunks Hc Ht He (checked_true f) Hcrc Hb Hd Hcopy).
Qed.

(* ------------------------------------------------------------------ *)
(** * Proofs: testzip()                                                  *)
(* ------------------------------------------------------------------ *)

Lemma check_clear dec l : check dec (map clear_f l) = check dec l.
Proof.
  induction l as [| f r IH]; [reflexivity |]. cbn [map check clear_f f_id f_crc]. rewrite IH. reflexivity.
Qed.

Lemma filter_nonempty_clear l : filter nonempty (map clear_f l) = map clear_f (filter nonempty l).
Proof.
  induction l as [| f r IH]; [reflexivity |]. cbn [map filter].
  replace (nonempty (clear_f f)) with (nonempty f) by reflexivity.
  destruct (nonempty f); cbn [map]; rewrite IH; reflexivity.
Qed.

Lemma filter_all_true {A} (l : list A) : filter (fun _ => true) l = l.
Proof. induction l as [| x r IH]; [reflexivity |]. cbn [filter]. rewrite IH. reflexivity. Qed.

Lemma clear_all_none l : forall f, In f (map clear_f l) -> tnone (f_tgt f) = true.
Proof. intros f Hin. apply in_map_iff in Hin. destruct Hin as [g [<- _]]. reflexivity. Qed.

Lemma run_folders_none symcheck link_ok dec : forall folders acc,
  (forall l, In l folders -> forall f, In f l -> tnone (f_tgt f) = true) ->
  run_calls symcheck link_ok dec (map (fun l => (false, l)) folders) acc =
    match check dec (concat (map (filter nonempty) folders)) with Some x => Raised x | None => Done acc end.
Proof.
  induction folders as [| l r IH]; intros acc Hn; [reflexivity |].
  cbn [map run_calls concat]. unfold extract_single.
  rewrite go_all_none by (apply Hn; left; reflexivity). cbn [app].
  rewrite check_app. destruct (check dec (filter nonempty l)); [reflexivity |].
  apply IH. intros l' Hl'. apply Hn. right. exact Hl'.
Qed.

Lemma all_data_clear s : all_data (clear_shape s) = map clear_f (all_data s).
Proof.
  destruct s as [files | files | files folders]; cbn [clear_shape all_data map]; [reflexivity | apply filter_nonempty_clear |].
  induction folders as [| l r IH]; [reflexivity |].
  cbn [map concat]. rewrite map_app, filter_nonempty_clear, IH. reflexivity.
Qed.

(* testzip() is one pass of _check over every data member, in decoding order *)
Lemma worker_extract_cleared symcheck link_ok dec s :
  worker_extract symcheck link_ok dec false (clear_shape s) =
    match check dec (all_data s) with Some x => Raised x | None => Done [] end.
Proof.
  rewrite <- (check_clear dec (all_data s)), <- all_data_clear.
  unfold worker_extract. destruct s as [files | files | files folders]; cbn [clear_shape calls all_data].
  - cbn [run_calls]. unfold extract_single. rewrite go_all_empty; [reflexivity | |].
    + intros f Hf. apply filter_In in Hf. destruct Hf as [Hf _]. eapply clear_all_none; exact Hf.
    + intros f Hf. apply filter_In in Hf. destruct Hf as [_ Hf]. exact Hf.
  - cbn [run_calls]. unfold extract_single. rewrite go_all_none by apply clear_all_none. cbn [app].
    destruct (check dec (filter nonempty (map clear_f files))); reflexivity.
  - cbn [run_calls]. unfold extract_single. rewrite go_all_empty.
    + cbn [negb orb]. rewrite filter_all_true. apply run_folders_none.
      intros l Hl. apply in_map_iff in Hl. destruct Hl as [l0 [<- _]]. apply clear_all_none.
    + intros f Hf. apply filter_In in Hf. destruct Hf as [Hf _]. eapply clear_all_none; exact Hf.
    + intros f Hf. apply filter_In in Hf. destruct Hf as [_ Hf]. exact Hf.
Qed.

Lemma testzip_char tzf dec s :
  testzip tzf dec s =
    match check dec (all_data s) with
    | None => TZ None
    | Some (XCrc (Some i)) => TZ (Some i)
    | Some (XCrc None) => if tzf then TZFlag else TZ None
    | Some (XErr e) => TZRaise e
    end.
Proof.
  unfold testzip. rewrite worker_extract_cleared.
  destruct (check dec (all_data s)) as [[[i |] | e] |]; reflexivity.
Qed.

(* on an intact archive testzip() reports no damage *)
Theorem testzip_intact : forall tzf dec s,
  (forall f, In f (all_data s) -> passes dec f) -> testzip tzf dec s = TZ None.
Proof. intros tzf dec s H. rewrite testzip_char, (passes_check_none dec _ H). reflexivity. Qed.

(* testzip() = None means every data member was decoded and compared -- provided no folder-level
   CRC error can occur (no folder CRC stored), or in the repaired variant *)
Theorem testzip_sound_partial : forall tzf dec s,
  tzf = true \/ (forall f, In f (all_data s) -> dec (f_id f) <> DFolderCrc) ->
  testzip tzf dec s = TZ None ->
  forall f, In f (all_data s) -> passes dec f.
Proof.
  intros tzf dec s Hcase H. rewrite testzip_char in H.
  destruct (check dec (all_data s)) as [[[i |] | e] |] eqn:Ec; try discriminate.
  - destruct Hcase as [-> | Hno]; [discriminate |].
    destruct (check_foldercrc dec _ Ec) as [f [Hin Hf]]. exfalso. exact (Hno f Hin Hf).
  - apply check_none_passes. exact Ec.
Qed.

(* testzip() = None  =>  every data member was decoded and its CRC-32 matched the stored one *)
Theorem testzip_sound : forall dec s,
  testzip_impl dec s = TZ None -> forall f, In f (all_data s) -> passes dec f.
Proof. intros dec s. apply testzip_sound_partial. left. reflexivity. Qed.

(* the members of the shape, list by list *)
Definition shape_lists (s : shape) : list (list mfile) :=
  match s with
  | NoStreams files => [files]
  | OneFolder files => [files]
  | ManyFolders files folders => files :: folders
  end.

Section ExtractOk.
  Variable symcheck : bool.
  Variable link_ok : bytes -> bool.
  Variable dec : Z -> dres.

  Lemma go_ok : forall files skip just acc,
    (forall f, In f just -> passes dec f) ->
    (forall f, In f files -> f_empty f = false -> passes dec f) ->
    (forall f, In f files -> f_symlink f && tpath (f_tgt f) = false) ->
    exists out, extract_go symcheck link_ok dec skip files just acc = Done out.
  Proof.
    induction files as [| f r IH]; intros skip just acc Hj Hf Hs.
    - cbn [extract_go]. destruct skip; [eexists; reflexivity |].
      rewrite (passes_check_none dec _ Hj). eexists; reflexivity.
    - cbn [extract_go].
      assert (Hr : forall g, In g r -> f_empty g = false -> passes dec g) by (intros g Hg; apply Hf; right; exact Hg).
      assert (Hsr : forall g, In g r -> f_symlink g && tpath (f_tgt g) = false) by (intros g Hg; apply Hs; right; exact Hg).
      destruct (tnone (f_tgt f)).
      + destruct (f_empty f) eqn:Ee; [apply IH; assumption |].
        apply IH; [| assumption | assumption].
        intros g Hg. apply in_app_or in Hg. destruct Hg as [Hg | [<- | []]]; [apply Hj; exact Hg |].
        apply Hf; [left; reflexivity | exact Ee].
      + rewrite (passes_check_none dec _ Hj).
        destruct (f_empty f) eqn:Ee; [apply IH; [intros g [] | assumption | assumption] |].
        destruct (Hf f (or_introl eq_refl) Ee) as [ch [Ed Ec]]. rewrite Ed, Ec.
        rewrite (Hs f (or_introl eq_refl)). apply IH; [intros g [] | assumption | assumption].
  Qed.

  Lemma run_ok : forall cs acc,
    (forall sk l, In (sk, l) cs -> (forall f, In f l -> f_empty f = false -> passes dec f) /\
                                   (forall f, In f l -> f_symlink f && tpath (f_tgt f) = false)) ->
    exists out, run_calls symcheck link_ok dec cs acc = Done out.
  Proof.
    induction cs as [| [sk l] r IH]; intros acc H; [eexists; reflexivity |].
    cbn [run_calls]. unfold extract_single.
    destruct (H sk l (or_introl eq_refl)) as [Hp Hs].
    destruct (go_ok l sk [] acc (fun g (Hg : In g []) => match Hg with end) Hp Hs) as [out Ho]. rewrite Ho.
    apply IH. intros sk' l' Hin. apply (H sk' l'). right. exact Hin.
  Qed.
End ExtractOk.

(* "never certifies as good an archive whose members would not extract": when testzip() returns
   None, extraction of the same image (any choice of targets) succeeds -- again unless a
   folder-level CRC error is what testzip() swallowed *)
Theorem testzip_none_extract_ok : forall tzf symcheck link_ok dec s skip,
  tzf = true \/ (forall f, In f (all_data s) -> dec (f_id f) <> DFolderCrc) ->
  (forall l, In l (shape_lists s) -> forall f, In f l -> f_symlink f && tpath (f_tgt f) = false) ->
  testzip tzf dec s = TZ None ->
  exists out, worker_extract symcheck link_ok dec skip s = Done out.
Proof.
  intros tzf symcheck link_ok dec s skip Hcase Hsym Htz.
  pose proof (testzip_sound_partial tzf dec s Hcase Htz) as Hp.
  unfold worker_extract. apply (run_ok symcheck link_ok dec (calls skip s) []). intros sk l Hin.
  destruct s as [files | files | files folders]; cbn [calls] in Hin; cbn [shape_lists all_data] in *.
  - destruct Hin as [Hin | []]. injection Hin as <- <-. split.
    + intros f Hf He. apply filter_In in Hf. destruct Hf as [_ Hf]. congruence.
    + intros f Hf. apply filter_In in Hf. destruct Hf as [Hf _]. apply (Hsym files); [left; reflexivity | exact Hf].
  - destruct Hin as [Hin | []]. injection Hin as <- <-. split.
    + intros f Hf He. apply Hp. apply filter_In. split; [exact Hf |]. unfold nonempty. rewrite He. reflexivity.
    + intros f Hf. apply (Hsym files); [left; reflexivity | exact Hf].
  - destruct Hin as [Hin | Hin].
    + injection Hin as <- <-. split.
      * intros f Hf He. apply filter_In in Hf. destruct Hf as [_ Hf]. congruence.
      * intros f Hf. apply filter_In in Hf. destruct Hf as [Hf _]. apply (Hsym files); [left; reflexivity | exact Hf].
    + apply in_map_iff in Hin. destruct Hin as [l0 [Heq Hl0]]. injection Heq as <- <-.
      apply filter_In in Hl0. destruct Hl0 as [Hl0 _]. split.
      * intros f Hf He. apply Hp. apply in_concat. exists (filter nonempty l0). split.
        -- apply in_map. exact Hl0.
        -- apply filter_In. split; [exact Hf |]. unfold nonempty. rewrite He. reflexivity.
      * intros f Hf. apply (Hsym l0); [right; exact Hl0 | exact Hf].
Qed.

Theorem testzip_impl_none_extract_ok : forall symcheck link_ok dec s skip,
  (forall l, In l (shape_lists s) -> forall f, In f l -> f_symlink f && tpath (f_tgt f) = false) ->
  testzip_impl dec s = TZ None ->
  exists out, worker_extract symcheck link_ok dec skip s = Done out.
Proof. intros symcheck link_ok dec s skip. apply testzip_none_extract_ok. left. reflexivity. Qed.

(* ------------------------------------------------------------------ *)
(** * Proofs: test()                                                     *)
(* ------------------------------------------------------------------ *)

(* every packed stream whose CRC is stored has that CRC *)
Fixpoint streams_match (defs : list bool) (sizes crcs : list Z) (pos : Z) (body : bytes) : Prop :=
  match defs with
  | [] => True
  | d :: ds =>
      match sizes with
      | [] => False
      | sz :: ss =>
          if d then
            match crcs with
            | [] => False
            | c :: cs => crc32 (sliceZ pos sz body) = c /\ streams_match ds ss cs (pos + sz) body
            end
          else streams_match ds ss (tl crcs) (pos + sz) body
      end
  end.

Lemma test_go_true_iff : forall defs sizes crcs pos body,
  test_go defs sizes crcs pos body = Ok true <-> streams_match defs sizes crcs pos body.
Proof.
  induction defs as [| d ds IH]; intros sizes crcs pos body; cbn [test_go streams_match]; [tauto |].
  destruct sizes as [| sz ss]; [split; [discriminate | tauto] |].
  destruct d; [| apply IH].
  destruct crcs as [| c cs]; [split; [discriminate | tauto] |].
  destruct (crc32 (sliceZ pos sz body) =? c) eqn:E.
  - apply Z.eqb_eq in E. rewrite IH. tauto.
  - apply Z.eqb_neq in E. split; [discriminate | tauto].
Qed.

(* on an intact archive test() reports no damage: True, or None when no packed CRC is stored
   (py7zr's writer stores packed CRCs only for encrypted archives) *)
Theorem test_intact : forall packpos defs sizes crcs body,
  streams_match defs sizes crcs packpos body ->
  test_model packpos defs sizes crcs body = Ok (if match crcs with [] => true | _ => false end then None else Some true).
Proof.
  intros packpos defs sizes crcs body H. unfold test_model.
  destruct crcs as [| c cs]; [reflexivity |].
  rewrite (proj2 (test_go_true_iff _ _ _ _ _) H). reflexivity.
Qed.

Theorem test_none_iff : forall packpos defs sizes crcs body,
  test_model packpos defs sizes crcs body = Ok None <-> crcs = [].
Proof.
  intros. unfold test_model. destruct crcs as [| c cs]; [tauto |].
  split; [| discriminate]. destruct (test_go defs sizes (c :: cs) packpos body); cbn [bind]; discriminate.
Qed.

Theorem test_true_sound : forall packpos defs sizes crcs body,
  test_model packpos defs sizes crcs body = Ok (Some true) -> streams_match defs sizes crcs packpos body.
Proof.
  intros packpos defs sizes crcs body H. unfold test_model in H. destruct crcs as [| c cs]; [discriminate |].
  destruct (test_go defs sizes (c :: cs) packpos body) as [b | e] eqn:E; cbn [bind] in H; [| discriminate].
  injection H as ->. apply test_go_true_iff. exact E.
Qed.

(* a <= 32-bit burst inside a packed stream whose CRC is stored makes test() return False *)
Theorem test_burst_detected : forall ds sz ss c cs pre p p' post,
  zlen p = sz -> crc32 p = c -> burst p p' ->
  test_model (zlen pre) (true :: ds) (sz :: ss) (c :: cs) (pre ++ p' ++ post) = Ok (Some false).
Proof.
  intros ds sz ss c cs pre p p' post Hsz Hc Hb. unfold test_model. cbn [test_go].
  assert (Hsz' : zlen p' = sz) by (destruct Hb as [Hl _]; unfold zlen in *; lia).
  rewrite <- Hsz', sliceZ_mid.
  destruct (crc32 p' =? c) eqn:E; [| reflexivity]. apply Z.eqb_eq in E.
  exfalso. apply (burst_crc p p' Hb). lia.
Qed.

(* ------------------------------------------------------------------ *)
(** * Proofs: the whole chain                                            *)
(* ------------------------------------------------------------------ *)

Lemma list_forall_or_exists {A} (P Q : A -> Prop) (l : list A) :
  (forall x, In x l -> P x \/ Q x) -> (forall x, In x l -> P x) \/ (exists x, In x l /\ Q x).
Proof.
  induction l as [| a r IH]; intros H; [left; intros x [] |].
  destruct (H a (or_introl eq_refl)) as [Pa | Qa]; [| right; exists a; split; [left; reflexivity | exact Qa]].
  destruct IH as [Hall | [x [Hin Hq]]].
  - intros x Hx. apply H. right. exact Hx.
  - left. intros x [<- | Hx]; [exact Pa | apply Hall; exact Hx].
  - right. exists x. split; [right; exact Hin | exact Hq].
Qed.

Section ReaderProofs.
  Variable symcheck : bool.
  Variable link_ok : bytes -> bool.
  Variable hmeta : Type.
  Variable empty_meta : hmeta.
  Variable parse_plain : bytes -> res hmeta.
  Variable enc_crc : bytes -> option Z.
  Variable enc_decode : bytes -> bytes -> res bytes.
  Variable shape_of : hmeta -> shape.
  Variable decoder : hmeta -> bytes -> Z -> dres.

  Notation read_archive := (read_archive symcheck link_ok hmeta empty_meta parse_plain enc_crc enc_decode shape_of decoder).
  Notation open_archive := (open_archive hmeta empty_meta parse_plain enc_crc enc_decode).
  Notation load_meta := (load_meta hmeta empty_meta parse_plain enc_crc enc_decode).
  Notation header_plain := (header_plain enc_crc enc_decode).
  Notation plain_header := (plain_header enc_crc enc_decode).
  Notation header_protected := (header_protected enc_crc).

  Lemma open_ok img m body :
    open_archive img = Ok (m, body) ->
    exists s h, sig_read img = Ok s /\ body = dropZ 32 img /\ hdr_read body s = Ok h /\ load_meta h body = Ok m.
  Proof.
    unfold open_archive. intros H.
    destruct (sig_read img) as [s | e] eqn:Es; cbn [bind] in H; [| discriminate].
    destruct (hdr_read (dropZ 32 img) s) as [h | e] eqn:Eh; cbn [bind] in H; [| discriminate].
    destruct (load_meta h (dropZ 32 img)) as [m0 | e] eqn:Em; cbn [bind] in H; [| discriminate].
    injection H as <- <-. exists s, h. auto.
  Qed.

  (* same protected header bytes => same metadata, or the two decoded header streams collide *)
  Lemma load_meta_same h body body' m m' :
    header_protected h = true ->
    load_meta h body = Ok m -> load_meta h body' = Ok m' ->
    m = m' \/ exists p p', header_plain h body = Ok (Some p) /\ header_plain h body' = Ok (Some p') /\ crc_collision p p'.
  Proof.
    unfold load_meta, header_plain, header_protected. intros Hp H H'.
    destruct h as [| pid t].
    - cbn [bind] in H, H'. left. congruence.
    - destruct (pid =? 1).
      + cbn [bind] in H, H'. left. congruence.
      + destruct (pid =? 23); [| discriminate]. cbn [orb andb] in Hp.
        destruct (enc_crc (pid :: t)) as [c |]; [| discriminate].
        destruct (enc_decode (pid :: t) body) as [d | e]; cbn [bind] in H |- *; [| discriminate].
        destruct (enc_decode (pid :: t) body') as [d' | e]; cbn [bind] in H' |- *; [| discriminate].
        destruct (crc32 d =? c) eqn:E; cbn [bind] in H |- *; [| discriminate].
        destruct (crc32 d' =? c) eqn:E'; cbn [bind] in H' |- *; [| discriminate].
        destruct (bytes_eq_dec d d') as [<- | Hne]; [left; congruence |].
        right. exists d, d'. split; [reflexivity | split; [reflexivity |]]. split; [exact Hne | lia].
  Qed.

  (* C04, the reading side.  If the reader accepts an altered image img' of an accepted image img
     whose header content is covered by a checksum, then every member it delivers that is compared on
     delivery and has a stored CRC is a member the original delivers, same name, same bytes -- or
     the pair (img, img') exhibits a CRC-32 collision at one named link of the chain, or the start
     header was rewritten together with its own checksum (which no damage of <= 32 bits does:
     burst_detected_start_header, start_crc_alteration_rejected). *)
  Theorem accept_implies_intact_or_collision : forall img img' out out',
    read_archive img = Done out ->
    read_archive img' = Done out' ->
    header_protected (next_header img) = true ->
    (forall f d', In (f, d') out' -> checked symcheck f = true -> f_crc f <> None -> In (f, d') out)
    \/ (start_crc img <> start_crc img' /\ start_fields img <> start_fields img')
    \/ crc_collision (start_fields img) (start_fields img')
    \/ crc_collision (next_header img) (next_header img')
    \/ (exists p p', plain_header img = Some p /\ plain_header img' = Some p' /\ crc_collision p p')
    \/ (exists f d d', In (f, d) out /\ In (f, d') out' /\ crc_collision d d').
  Proof.
    intros img img' out out' H H' Hprot.
    unfold read_archive in H, H'.
    destruct (open_archive img) as [[m body] | e] eqn:Eo; [| discriminate].
    destruct (open_archive img') as [[m' body'] | e] eqn:Eo'; [| discriminate].
    destruct (open_ok _ _ _ Eo) as [s [h [Hs [Hb [Hh Hm]]]]].
    destruct (open_ok _ _ _ Eo') as [s' [h' [Hs' [Hb' [Hh' Hm']]]]].
    destruct (sig_read_ok _ _ Hs) as [_ [Hc Hsf]]. destruct (sig_read_ok _ _ Hs') as [_ [Hc' Hsf']].
    (* start header *)
    destruct (bytes_eq_dec (start_fields img) (start_fields img')) as [HF | HF].
    2:{ destruct (Z.eq_dec (start_crc img) (start_crc img')) as [Hcc | Hcc].
        - right. right. left. split; [exact HF | congruence].
        - right. left. split; assumption. }
    assert (Hss : s' = s) by (rewrite Hsf, Hsf', HF; reflexivity). clear Hsf Hsf'. subst s'.
    (* next header *)
    destruct (hdr_read_ok _ _ _ Hh) as [Hhb Hhc]. destruct (hdr_read_ok _ _ _ Hh') as [Hhb' Hhc'].
    assert (Hnh : next_header img = h) by (unfold next_header; rewrite Hs, <- Hb; symmetry; exact Hhb).
    assert (Hnh' : next_header img' = h') by (unfold next_header; rewrite Hs', <- Hb'; symmetry; exact Hhb').
    destruct (bytes_eq_dec h h') as [Hhh | Hhh].
    2:{ right. right. right. left. rewrite Hnh, Hnh'. split; [exact Hhh | congruence]. }
    rewrite <- Hhh in *. clear Hhh Hhb Hhb'. rewrite Hnh in Hprot.
    (* header content *)
    destruct (load_meta_same h body body' m m' Hprot Hm Hm') as [Hmm | [p [p' [Hp [Hp' Hcol]]]]].
    2:{ right. right. right. right. left. exists p, p'. unfold plain_header.
        rewrite Hnh, Hnh', <- Hb, <- Hb', Hp, Hp'. auto. }
    subst m'.
    (* members *)
    set (dec := decoder m body) in *. set (dec' := decoder m body') in *.
    unfold worker_extract in H, H'.
    assert (Hmem : forall x, In x out' ->
              (checked symcheck (fst x) = true -> f_crc (fst x) <> None -> In x out) \/
              (exists d, In (fst x, d) out /\ crc_collision d (snd x))).
    { intros [f d'] Hin. cbn [fst snd].
      destruct (checked symcheck f) eqn:Eck; [| left; discriminate].
      destruct (f_crc f) as [c |] eqn:Ecrc; [| left; intros _ Hn; contradiction].
      destruct (run_sound _ _ _ _ _ _ H' (f, d') Hin) as [[] | [sk [l [Hcl [Hfl [Ht Hd']]]]]].
      cbn [fst snd] in Hfl, Ht, Hd'.
      destruct (run_complete _ _ _ _ _ _ H) as [_ Hall].
      destruct (Hall sk l f Hcl Hfl Ht) as [d Hd].
      destruct (run_sound _ _ _ _ _ _ H (f, d) Hd) as [[] | [sk0 [l0 [_ [_ [_ Hdo]]]]]].
      cbn [fst snd] in Hdo.
      destruct Hd' as [[He ->] | [He [ch' [_ [-> Hok']]]]]; destruct Hdo as [[He0 ->] | [He0 [ch [_ [-> Hok]]]]];
        try congruence.
      - left. intros _ _. exact Hd.
      - specialize (Hok' Eck). specialize (Hok Eck). rewrite Ecrc in Hok, Hok'.
        cbn [crc_bad] in Hok, Hok'. rewrite crc_chunks_0 in Hok, Hok'.
        destruct (bytes_eq_dec (concat ch) (concat ch')) as [Heq | Hne].
        + left. intros _ _. rewrite <- Heq. exact Hd.
        + right. exists (concat ch). split; [exact Hd |]. split; [exact Hne | lia]. }
    destruct (list_forall_or_exists _ _ _ Hmem) as [Hall | [[f d'] [Hin [d [Hd Hcol]]]]].
    - left. intros f d' Hin. exact (Hall (f, d') Hin).
    - right. right. right. right. right. exists f, d, d'. cbn [fst snd] in *. auto.
  Qed.

  (* the two version bytes are neither checked nor used: altering them changes nothing *)
  Theorem version_alteration_harmless : forall m v v' rest,
    zlen m = 6 -> zlen v = 2 -> zlen v' = 2 ->
    read_archive (m ++ v' ++ rest) = read_archive (m ++ v ++ rest).
  Proof.
    intros m v v' rest Hm Hv Hv'.
    assert (Hd : forall w k, zlen w = 2 -> 0 <= k -> dropZ (8 + k) (m ++ w ++ rest) = dropZ k rest).
    { intros w k Hw Hk. rewrite app_assoc. replace (8 + k) with (zlen (m ++ w) + k) by (rewrite zlen_app; lia).
      apply dropZ_app_plus. exact Hk. }
    assert (Hsig : forall w, zlen w = 2 ->
              sig_read (m ++ w ++ rest) =
                if negb (bytes_eqb m magic7z) then Err EBad7z
                else if 8 + zlen rest <? 32 then Err EOther
                else if fields_crc (takeZ 20 (dropZ 4 rest)) =? le_value (takeZ 4 rest)
                     then Ok (fields_sig (takeZ 20 (dropZ 4 rest))) else Err EBad7z).
    { intros w Hw. unfold sig_read, start_fields, start_crc, sliceZ.
      replace 6 with (zlen m) by lia. rewrite takeZ_app_len.
      rewrite !zlen_app. replace (zlen m + (zlen w + zlen rest)) with (8 + zlen rest) by lia.
      change 12 with (8 + 4). rewrite (Hd w 4 Hw) by lia.
      replace (dropZ 8 (m ++ w ++ rest)) with (dropZ (8 + 0) (m ++ w ++ rest)) by reflexivity.
      rewrite (Hd w 0 Hw) by lia. rewrite (dropZ_nonpos 0 rest) by lia. reflexivity. }
    unfold read_archive, open_archive.
    rewrite (Hsig v Hv), (Hsig v' Hv').
    change 32 with (8 + 24). rewrite (Hd v 24 Hv), (Hd v' 24 Hv') by lia. reflexivity.
  Qed.
End ReaderProofs.

(* the chain for the code as it is: no side condition on how a member is delivered *)
Theorem accept_implies_intact_or_collision_impl :
  forall (link_ok : bytes -> bool) (hmeta : Type) (empty_meta : hmeta)
         (parse_plain : bytes -> res hmeta) (enc_crc : bytes -> option Z)
         (enc_decode : bytes -> bytes -> res bytes) (shape_of : hmeta -> shape)
         (decoder : hmeta -> bytes -> Z -> dres) (img img' : bytes) (out out' : list (mfile * bytes)),
    read_archive true link_ok hmeta empty_meta parse_plain enc_crc enc_decode shape_of decoder img = Done out ->
    read_archive true link_ok hmeta empty_meta parse_plain enc_crc enc_decode shape_of decoder img' = Done out' ->
    header_protected enc_crc (next_header img) = true ->
    (forall f d', In (f, d') out' -> f_crc f <> None -> In (f, d') out)
    \/ (start_crc img <> start_crc img' /\ start_fields img <> start_fields img')
    \/ crc_collision (start_fields img) (start_fields img')
    \/ crc_collision (next_header img) (next_header img')
    \/ (exists p p', plain_header enc_crc enc_decode img = Some p /\
                     plain_header enc_crc enc_decode img' = Some p' /\ crc_collision p p')
    \/ (exists f d d', In (f, d) out /\ In (f, d') out' /\ crc_collision d d').
Proof.
  intros link_ok hmeta empty_meta parse_plain enc_crc enc_decode shape_of decoder img img' out out' H H' Hp.
  destruct (accept_implies_intact_or_collision true link_ok hmeta empty_meta parse_plain enc_crc enc_decode
              shape_of decoder img img' out out' H H' Hp) as [Hall | Hrest]; [| right; exact Hrest].
  left. intros f d' Hin Hc. exact (Hall f d' Hin (checked_true f) Hc).
Qed.

(* ------------------------------------------------------------------ *)
(** * A concrete instance, refutation witnesses, non-vacuity examples    *)
(* ------------------------------------------------------------------ *)

Module Toy.
  Fixpoint le_bytes (n : nat) (v : Z) : bytes :=
    match n with O => [] | S k => v mod 256 :: le_bytes k (v / 256) end.

  (* plain header: kHeader, the member's CRC, its name; the member is the first two bytes of the
     body, stored under the Copy coder *)
  Definition parse_plain (p : bytes) : res (list mfile) :=
    match p with
    | 1 :: c0 :: c1 :: c2 :: c3 :: name =>
        Ok [mkFile 0 name false (Some (le_value [c0; c1; c2; c3])) false TMem]
    | _ => Err EBad7z
    end.
  (* encoded-header descriptor: kEncodedHeader, offset, length of a Copy-coded header stream,
     optionally followed by its CRC *)
  Definition enc_crc (h : bytes) : option Z :=
    match h with
    | [_; _; _; c0; c1; c2; c3] => Some (le_value [c0; c1; c2; c3])
    | _ => None
    end.
  Definition enc_decode (h body : bytes) : res bytes :=
    match h with
    | _ :: ofs :: len :: _ => Ok (sliceZ ofs len body)
    | _ => Err EBad7z
    end.
  Definition shape_of (m : list mfile) : shape := OneFolder m.
  Definition decoder (m : list mfile) (body : bytes) (id : Z) : dres := DOk [takeZ 2 body].

  Definition read (symcheck : bool) : bytes -> outcome :=
    read_archive symcheck (fun _ => true) (list mfile) [] parse_plain enc_crc enc_decode shape_of decoder.

  (* a writer for this instance: start header with correct checksums *)
  Definition image (body h : bytes) : bytes :=
    let F := le_bytes 8 (zlen body) ++ le_bytes 8 (zlen h) ++ le_bytes 4 (crc32 h) in
    magic7z ++ [0; 4] ++ le_bytes 4 (crc32 F) ++ F ++ body ++ h.

  Definition data : bytes := [104; 105].
  Definition plain (name : bytes) : bytes := 1 :: le_bytes 4 (crc32 data) ++ name.

  (* raw header *)
  Definition img_raw : bytes := image data (plain [97; 46; 116]).
  (* encoded header, no CRC of the header stored (what py7zr's writer produced before f12575e) *)
  Definition img_enc (name : bytes) : bytes := image (data ++ plain name) [23; 2; zlen (plain name)].
  (* encoded header with the CRC of the header stored (what 7-Zip and the current py7zr produce) *)
  Definition img_enc_crc (name : bytes) : bytes :=
    image (data ++ plain name) ([23; 2; zlen (plain name)] ++ le_bytes 4 (crc32 (plain name))).

  Definition member (name : bytes) : mfile := mkFile 0 name false (Some (crc32 data)) false TMem.
End Toy.

(* the instance reads what its writer wrote, in all three header modes *)
Example toy_reads_raw : Toy.read false Toy.img_raw = Done [(Toy.member [97; 46; 116], Toy.data)].
Proof. vm_compute. reflexivity. Qed.

Example toy_reads_encoded : Toy.read false (Toy.img_enc [97; 46; 116]) = Done [(Toy.member [97; 46; 116], Toy.data)].
Proof. vm_compute. reflexivity. Qed.

Example toy_reads_encoded_crc :
  Toy.read false (Toy.img_enc_crc [97; 46; 116]) = Done [(Toy.member [97; 46; 116], Toy.data)].
Proof. vm_compute. reflexivity. Qed.

(* hypotheses of accept_implies_intact_or_collision are met: an image and an altered image (bytes
   appended, a version byte changed) that are both accepted, header protected *)
Example accept_hypotheses_met :
  let img := Toy.img_enc_crc [97; 46; 116] in
  let img' := takeZ 6 img ++ [9; 9] ++ dropZ 8 img ++ [0; 255] in
  img <> img' /\
  Toy.read false img = Done [(Toy.member [97; 46; 116], Toy.data)] /\
  Toy.read false img' = Done [(Toy.member [97; 46; 116], Toy.data)] /\
  header_protected Toy.enc_crc (next_header img) = true.
Proof. vm_compute. repeat split; try reflexivity. intros H. discriminate H. Qed.

(* damage in the member, the next header, the start header fields, the stored CRCs: rejected *)
Example toy_damage_rejected :
  let img := Toy.img_raw in
  let flip (i : nat) := firstn i img ++ [Z.lxor (nth i img 0) 4] ++ skipn (S i) img in
  Toy.read false (flip 3%nat) = Raised (XErr EBad7z) /\       (* magic *)
  Toy.read false (flip 9%nat) = Raised (XErr EBad7z) /\       (* start header CRC *)
  Toy.read false (flip 13%nat) = Raised (XErr EBad7z) /\      (* next header offset *)
  Toy.read false (flip 30%nat) = Raised (XErr EBad7z) /\      (* next header CRC *)
  Toy.read false (flip 32%nat) = Raised (XCrc (Some 0)) /\    (* member data *)
  Toy.read false (flip 36%nat) = Raised (XErr EBad7z) /\      (* header: stored member CRC *)
  Toy.read false (flip 40%nat) = Raised (XErr EBad7z) /\      (* header: name *)
  Toy.read false (flip 7%nat) = Toy.read false img.           (* version *)
Proof. vm_compute. repeat split; reflexivity. Qed.

(* REFUTED without header protection: an encoded header whose CRC is not stored (archives written
   by py7zr before commit f12575e "store the CRC of the plain header in an encoded header", or by
   any writer that omits it; the reader has to accept them).  One flipped bit in the packed header
   stream; start header, next header, member data identical; both images accepted; the member is
   delivered under a name the original does not have; no CRC collision is involved. *)
Theorem accept_implies_intact_or_collision_refuted_unprotected_header :
  exists img img' out out' f d,
    Toy.read true img = Done out /\ Toy.read true img' = Done out' /\
    start_crc img = start_crc img' /\ start_fields img = start_fields img' /\
    next_header img = next_header img' /\
    header_protected Toy.enc_crc (next_header img) = false /\
    In (f, d) out' /\ checked true f = true /\ f_crc f <> None /\ ~ In (f, d) out /\
    (forall g e, In (g, e) out -> f_name g <> f_name f) /\
    (exists p p', plain_header Toy.enc_crc Toy.enc_decode img = Some p /\
                  plain_header Toy.enc_crc Toy.enc_decode img' = Some p' /\ crc32 p <> crc32 p') /\
    (forall g e e', In (g, e) out -> In (g, e') out' -> e = e').
Proof.
  exists (Toy.img_enc [97; 46; 116]), (Toy.img_enc [96; 46; 116]),
         [(Toy.member [97; 46; 116], Toy.data)], [(Toy.member [96; 46; 116], Toy.data)],
         (Toy.member [96; 46; 116]), Toy.data.
  split; [vm_compute; reflexivity |]. split; [vm_compute; reflexivity |].
  split; [vm_compute; reflexivity |]. split; [vm_compute; reflexivity |].
  split; [vm_compute; reflexivity |]. split; [vm_compute; reflexivity |].
  split; [left; reflexivity |]. split; [reflexivity |]. split; [discriminate |].
  split; [intros [H | []]; discriminate H |].
  split; [intros g e [H | []]; injection H as <- _; discriminate |].
  split.
  - exists (Toy.plain [97; 46; 116]), (Toy.plain [96; 46; 116]).
    split; [vm_compute; reflexivity |]. split; [vm_compute; reflexivity |]. vm_compute. discriminate.
  - intros g e e' [H | []] [H' | []]. congruence.
Qed.

(* the same damage is caught when the header CRC is stored *)
Example encoded_header_crc_catches :
  let img := Toy.img_enc_crc [97; 46; 116] in
  let img' := firstn 39%nat img ++ [96] ++ skipn 40%nat img in
  nth 39%nat img 0 = 97 /\ Toy.read true img' = Raised (XErr EBad7z).
Proof. vm_compute. split; reflexivity. Qed.

(* Regression example: for the code before commit c33fe91 (symcheck = false) a symbolic link
   extracted to a path was created from bytes whose CRC differs from the stored one, and the
   call succeeded *)
Theorem delivered_implies_checked_refuted_symlink :
  exists dec s out f d c,
    worker_extract false (fun _ => true) dec true s = Done out /\
    In (f, d) out /\ f_crc f = Some c /\ f_empty f = false /\ crc32 d <> c /\
    (* ... although the same bytes are flagged by testzip() and rejected by extraction through a factory *)
    testzip false dec s = TZ (Some (f_id f)).
Proof.
  set (f := mkFile 7 [108] false (Some (crc32 [116; 97])) true TPath).
  exists (fun _ => DOk [[116; 98]]), (OneFolder [f]), [(f, [116; 98])], f, [116; 98], (crc32 [116; 97]).
  split; [vm_compute; reflexivity |]. split; [left; reflexivity |]. split; [reflexivity |].
  split; [reflexivity |]. split; [vm_compute; discriminate | vm_compute; reflexivity].
Qed.

(* the code as it is rejects the same input *)
Example symlink_checked_when_repaired :
  let f := mkFile 7 [108] false (Some (crc32 [116; 97])) true TPath in
  extract_impl (fun _ => true) (fun _ => DOk [[116; 98]]) true (OneFolder [f]) = Raised (XCrc (Some 7)).
Proof. vm_compute. reflexivity. Qed.

(* Regression example: for the code before commit 065e810 ([tzfolder] = false) testzip() = None did
   not mean that every member's CRC matched.  A folder-level CRC mismatch raises
   CrcError(crc, digest, None); testzip returned args[2] = None. *)
Theorem testzip_sound_refuted :
  exists dec s f,
    testzip false dec s = TZ None /\ In f (all_data s) /\ ~ passes dec f /\
    worker_extract false (fun _ => true) dec true s = Raised (XCrc None).
Proof.
  set (f := mkFile 0 [97] false None false TMem).
  exists (fun _ => DFolderCrc), (OneFolder [f]), f.
  split; [vm_compute; reflexivity |]. split; [left; reflexivity |].
  split; [intros [ch [H _]]; discriminate H | vm_compute; reflexivity].
Qed.

Theorem testzip_unrepaired_regression_example :
  exists dec s f,
    testzip false dec s = TZ None /\ In f (all_data s) /\ ~ passes dec f /\
    worker_extract false (fun _ => true) dec true s = Raised (XCrc None) /\
    testzip_impl dec s = TZFlag.
Proof.
  destruct testzip_sound_refuted as [dec [s [f [H1 [H2 [H3 H4]]]]]].
  exists dec, s, f. repeat split; try assumption.
  unfold testzip_impl. rewrite testzip_char. rewrite testzip_char in H1.
  destruct (check dec (all_data s)) as [[[i |] | e] |] eqn:E; try discriminate H1; try reflexivity.
  exfalso. apply H3. exact (check_none_passes dec _ E f H2).
Qed.

(* the same input with the code as it is: reported *)
Example testzip_impl_reports_folder_crc :
  testzip_impl (fun _ => DFolderCrc) (OneFolder [mkFile 0 [97] false None false TMem]) = TZFlag.
Proof. vm_compute. reflexivity. Qed.

(* hypotheses of the flow theorems are met by a non-trivial state: a folder whose second member
   is skipped (decoded only to be checked), third delivered, fourth (trailing, skipped) not decoded *)
Example flow_example :
  let f (i : Z) (t : tkind) (d : bytes) := mkFile i [i] false (Some (crc32 d)) false t in
  let files := [f 1 TMem [1]; f 2 TNone [2; 2]; f 3 TMem [3]; f 4 TNone [4]] in
  let dec (i : Z) := if i =? 4 then DErr EEof else DOk [[i]; if i =? 2 then [2] else []] in
  worker_extract false (fun _ => true) dec true (OneFolder files) = Done [(f 1 TMem [1], [1]); (f 3 TMem [3], [3])] /\
  (* the skipped member is checked: damage in it fails the call *)
  worker_extract false (fun _ => true) (fun i => if i =? 2 then DOk [[2; 3]] else dec i) true (OneFolder files)
    = Raised (XCrc (Some 2)) /\
  testzip false dec (OneFolder files) = TZRaise EEof.
Proof. vm_compute. repeat split; reflexivity. Qed.

Example burst_example : burst [1; 2; 3; 4; 5; 6] [1; 2; 3; 255; 250; 6].
Proof. split; [reflexivity |]. exists 65531%N, 24%N. vm_compute. repeat split; reflexivity. Qed.

Example test_example :
  test_model 1 [true; false; true] [2; 1; 3] [crc32 [5; 6]; 0; crc32 [8; 9; 10]] [0; 5; 6; 7; 8; 9; 10] = Ok (Some true) /\
  test_model 1 [true; false; true] [2; 1; 3] [crc32 [5; 6]; 0; crc32 [8; 9; 10]] [0; 5; 6; 7; 8; 9; 11] = Ok (Some false) /\
  test_model 1 [] [2; 1; 3] [] [0; 5; 6; 7; 8; 9; 10] = Ok None.
Proof. vm_compute. repeat split; reflexivity. Qed.

Print Assumptions calculate_crc32_eq.
Print Assumptions burst_detected_start_header.
Print Assumptions burst_detected_header.
Print Assumptions delivered_implies_checked.
Print Assumptions delivered_implies_checked_impl.
Print Assumptions accept_implies_intact_or_collision_impl.
Print Assumptions copy_burst_detected.
Print Assumptions accept_implies_intact_or_collision.
Print Assumptions version_alteration_harmless.
Print Assumptions testzip_sound_partial.
Print Assumptions testzip_sound.
Print Assumptions testzip_none_extract_ok.
Print Assumptions testzip_sound_refuted.
Print Assumptions accept_implies_intact_or_collision_refuted_unprotected_header.
Print Assumptions delivered_implies_checked_refuted_symlink.
