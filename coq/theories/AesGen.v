(* AesGen.v -- the AES residue-buffer methods generated from py7zr/compressor.py (gen/AesBuf.v, produced by
   tools/translate.py from the current source: AESCompressor.compress / flush, AESDecompressor.decompress,
   abstracted over the cipher object: state C, operations enc / dec that may raise) are the hand model of Aes.v,
   both with pycryptodome's ValueError made explicit (the _chk variants) and without; and the chunking theorems of
   Aes.v restated over the generated definitions.  Object state = (bytes of self.buf's view, cipher state). *)
From P7 Require Import Prelude PyPrims PyStr Aes.
From P7gen Require AesBuf.
From Coq Require Import ZifyBool.
Open Scope Z_scope.

(* ---------------------------------------------------------------- the primitives on both sides *)
Lemma gen_slice_to (l : bytes) k : PyPrims.py_slice l None (Some k) = Aes.py_slice_to l k.
Proof.
  unfold PyPrims.py_slice, Aes.py_slice_to, py_clamp, Aes.py_index, py_len, blen.
  set (n := Z.of_nat (length l)).
  assert (Hb : (if k <? 0 then Z.max 0 (k + n) else Z.min k n) = (if k <? 0 then Z.max (k + n) 0 else Z.min k n))
    by (destruct (k <? 0); lia).
  rewrite Hb. set (b := if k <? 0 then Z.max (k + n) 0 else Z.min k n).
  destruct (b <=? 0) eqn:E.
  - replace (Z.to_nat b) with O by lia. reflexivity.
  - rewrite Z.sub_0_r. reflexivity.
Qed.

Lemma gen_slice_from (l : bytes) k : PyPrims.py_slice l (Some k) None = Aes.py_slice_from l k.
Proof.
  unfold PyPrims.py_slice, Aes.py_slice_from, py_clamp, Aes.py_index, py_len, blen.
  set (n := Z.of_nat (length l)).
  assert (Hb : (if k <? 0 then Z.max 0 (k + n) else Z.min k n) = (if k <? 0 then Z.max (k + n) 0 else Z.min k n))
    by (destruct (k <? 0); lia).
  rewrite Hb. set (a := if k <? 0 then Z.max (k + n) 0 else Z.min k n).
  assert (Ha : 0 <= a <= n) by (subst a n; destruct (k <? 0) eqn:?; lia).
  destruct (n <=? a) eqn:E.
  - symmetry. apply skipn_all2. subst n. lia.
  - apply firstn_all2. rewrite skipn_length. subst n. lia.
Qed.

Lemma gen_zeros n : py_zeros (Z.land (- n) 15) = Ok (zeros (Z.land (- n) 15)).
Proof.
  unfold py_zeros, zeros. assert (0 <= Z.land (- n) 15) by (apply Z.land_nonneg; right; lia).
  destruct (Z.land (- n) 15 <? 0) eqn:E; [lia | reflexivity].
Qed.

(* (new state, result) of the model -> (result, (buf, cipher)) of the generated code *)
Definition c_ret (r : cstate * bytes) : bytes * (bytes * cst) := (snd r, (cbuf (fst r), ccst (fst r))).
Definition d_ret (r : dstate * bytes) : bytes * (bytes * cst) := (snd r, (dbuf (fst r), dcst (fst r))).

Ltac gen_unfold :=
  cbv zeta; rewrite ?gen_slice_to, ?gen_slice_from, ?gen_zeros;
  unfold buf_len, buf_add, buf_view, buf_reset, buf_set, py_len, blen, c_ret, d_ret; cbn [cbuf ccst dbuf dcst bind].
Ltac gen_cases :=
  repeat (cbn [bind fst snd cbuf ccst dbuf dcst];
          match goal with
          | |- context[if ?c then _ else _] => destruct c
          | |- context[bind ?x _] =>
              lazymatch x with Ok _ => fail | Err _ => fail | _ => destruct x as [[? ?]|?] end
          | |- context[let (_, _) := ?x in _] => destruct x as [? ?]
          end);
  cbn [bind fst snd cbuf ccst dbuf dcst]; try reflexivity.

Section Gen.
Variable Eb Db : bytes -> bytes.

(* the cipher operations handed to the generated code *)
Definition enc_chk : cst -> bytes -> res (cst * bytes) := cipher_encrypt_chk Eb.     (* ValueError when unaligned *)
Definition dec_chk : cst -> bytes -> res (cst * bytes) := cipher_decrypt_chk Db.
Definition enc_tot (c : cst) (d : bytes) : res (cst * bytes) := Ok (cipher_encrypt Eb c d).
Definition dec_tot (c : cst) (d : bytes) : res (cst * bytes) := Ok (cipher_decrypt Db c d).

(* ---------------------------------------------------------------- one call *)
Theorem gen_compress_chk st d :
  AesBuf.AESCompressor_compress cst enc_chk (cbuf st) (ccst st) d = do r <- aes_compress_chk Eb st d; Ok (c_ret r).
Proof.
  destruct st as [buf c]. unfold AesBuf.AESCompressor_compress, aes_compress_chk, enc_chk. gen_unfold. gen_cases.
Qed.

Theorem gen_compress st d :
  AesBuf.AESCompressor_compress cst enc_tot (cbuf st) (ccst st) d = Ok (c_ret (aes_compress Eb st d)).
Proof.
  destruct st as [buf c]. unfold AesBuf.AESCompressor_compress, aes_compress, enc_tot. gen_unfold. gen_cases.
Qed.

Theorem gen_flush_chk st :
  AesBuf.AESCompressor_flush cst enc_chk (cbuf st) (ccst st) = do r <- aes_flush_chk Eb st; Ok (c_ret r).
Proof.
  destruct st as [buf c]. unfold AesBuf.AESCompressor_flush, aes_flush_chk, enc_chk. gen_unfold. gen_cases.
Qed.

Theorem gen_flush st :
  AesBuf.AESCompressor_flush cst enc_tot (cbuf st) (ccst st) = Ok (c_ret (aes_flush Eb st)).
Proof.
  destruct st as [buf c]. unfold AesBuf.AESCompressor_flush, aes_flush, enc_tot. gen_unfold. gen_cases.
Qed.

Theorem gen_decompress_chk st d ml :
  AesBuf.AESDecompressor_decompress cst dec_chk (dbuf st) (dcst st) d ml = do r <- aes_decompress_chk Db st d; Ok (d_ret r).
Proof.
  destruct st as [buf c]. unfold AesBuf.AESDecompressor_decompress, aes_decompress_chk, dec_chk. gen_unfold. gen_cases.
Qed.

Theorem gen_decompress st d ml :
  AesBuf.AESDecompressor_decompress cst dec_tot (dbuf st) (dcst st) d ml = Ok (d_ret (aes_decompress Db st d)).
Proof.
  destruct st as [buf c]. unfold AesBuf.AESDecompressor_decompress, aes_decompress, dec_tot. gen_unfold. gen_cases.
Qed.
End Gen.

(* ---------------------------------------------------------------- sessions over the generated methods *)
(* all compress() calls of a session, outputs concatenated, the object state threaded *)
Fixpoint gen_compress_all (C : Type) (enc : C -> bytes -> res (C * bytes)) (buf : bytes) (c : C)
    (chunks : list bytes) : res (bytes * (bytes * C)) :=
  match chunks with
  | [] => Ok ([], (buf, c))
  | d :: rest =>
      do r1 <- AesBuf.AESCompressor_compress C enc buf c d;
      do r2 <- gen_compress_all C enc (fst (snd r1)) (snd (snd r1)) rest;
      Ok (fst r1 ++ fst r2, snd r2)
  end.
(* ... then flush(): what a fresh AESCompressor (empty buffer, cipher state c) emits for the chunks *)
Definition gen_compress_stream (C : Type) (enc : C -> bytes -> res (C * bytes)) (c : C) (chunks : list bytes) : res bytes :=
  do r <- gen_compress_all C enc [] c chunks;
  do t <- AesBuf.AESCompressor_flush C enc (fst (snd r)) (snd (snd r));
  Ok (fst r ++ fst t).

Fixpoint gen_decompress_all (C : Type) (dec : C -> bytes -> res (C * bytes)) (buf : bytes) (c : C)
    (chunks : list bytes) : res (bytes * (bytes * C)) :=
  match chunks with
  | [] => Ok ([], (buf, c))
  | d :: rest =>
      do r1 <- AesBuf.AESDecompressor_decompress C dec buf c d (-1);
      do r2 <- gen_decompress_all C dec (fst (snd r1)) (snd (snd r1)) rest;
      Ok (fst r1 ++ fst r2, snd r2)
  end.
(* ... then the final decompress(b"") *)
Definition gen_decompress_stream (C : Type) (dec : C -> bytes -> res (C * bytes)) (c : C) (chunks : list bytes) : res bytes :=
  do r <- gen_decompress_all C dec [] c chunks;
  do t <- AesBuf.AESDecompressor_decompress C dec (fst (snd r)) (snd (snd r)) [] (-1);
  Ok (fst r ++ fst t).

Section Runs.
Variable Eb Db : bytes -> bytes.

Lemma gen_compress_all_chk : forall (chunks : list bytes) (st : cstate) (Hb : blen (cbuf st) < 16),
  gen_compress_all cst (enc_chk Eb) (cbuf st) (ccst st) chunks = Ok (c_ret (compress_all Eb st chunks)).
Proof.
  induction chunks as [|d rest IH]; intros st Hb; [reflexivity|].
  cbn [gen_compress_all compress_all].
  rewrite gen_compress_chk, (aes_compress_chk_ok Eb st d Hb). cbn [bind].
  pose proof (aes_compress_residue Eb st d Hb) as [H1 _].
  destruct (aes_compress Eb st d) as [st1 o1]. cbn [fst] in H1. unfold c_ret at 1 2 3. cbn [fst snd].
  rewrite (IH st1 H1). cbn [bind]. destruct (compress_all Eb st1 rest) as [st2 o2]. reflexivity.
Qed.

(* Aes.aes_compress_chunking over the code as generated, with the cipher that raises on unaligned input: a session
   never raises, and what it emits is the CBC encryption of the zero-padded concatenation, however it is chunked *)
Theorem gen_aes_compress_chunking (iv : bytes) (chunks : list bytes) :
  gen_compress_stream cst (enc_chk Eb) iv chunks = Ok (fst (cbc_enc Eb iv (pad16 (concat chunks)))).
Proof.
  unfold gen_compress_stream.
  pose proof (gen_compress_all_chk chunks (cinit iv)) as H. cbn [cinit cbuf ccst] in H.
  rewrite H by reflexivity. cbn [bind].
  pose proof (aes_compress_chunking Eb iv chunks) as Hc.
  destruct (compress_all Eb (cinit iv) chunks) as [st out]. unfold c_ret. cbn [fst snd].
  rewrite gen_flush_chk, aes_flush_chk_ok. cbn [bind].
  destruct (aes_flush Eb st) as [st' tail]. unfold c_ret. cbn [fst snd]. now rewrite Hc.
Qed.

Lemma gen_decompress_all_chk : forall (chunks : list bytes) (st : dstate),
  gen_decompress_all cst (dec_chk Db) (dbuf st) (dcst st) chunks = do r <- decompress_all_chk Db st chunks; Ok (d_ret r).
Proof.
  induction chunks as [|d rest IH]; intros st; [reflexivity|].
  cbn [gen_decompress_all decompress_all_chk]. rewrite gen_decompress_chk.
  destruct (aes_decompress_chk Db st d) as [[st1 o1]|e]; [|reflexivity]. cbn [bind]. unfold d_ret at 1 2 3. cbn [fst snd].
  rewrite (IH st1). destruct (decompress_all_chk Db st1 rest) as [[st2 o2]|e]; reflexivity.
Qed.

(* Aes.aes_decompress_chunking over the generated code: on a schedule where a chunk arrives on a non-empty residue only
   if it completes a block, the session never raises and emits the CBC decryption of the padded concatenation *)
Theorem gen_aes_decompress_chunking (iv : bytes) (chunks : list bytes) (Hok : dec_chunks_ok 0 chunks = true) :
  gen_decompress_stream cst (dec_chk Db) iv chunks = Ok (fst (cbc_dec Db iv (pad16 (concat chunks)))).
Proof.
  unfold gen_decompress_stream.
  pose proof (gen_decompress_all_chk chunks (dinit iv)) as H. cbn [dinit dbuf dcst] in H. rewrite H.
  rewrite (decompress_all_chk_ok Db chunks (dinit iv)) by (cbn [dinit dbuf]; first [reflexivity | exact Hok]). cbn [bind].
  pose proof (aes_decompress_chunking Db iv chunks Hok) as Hc.
  destruct (decompress_all Db (dinit iv) chunks) as [st out]. unfold d_ret. cbn [fst snd].
  rewrite gen_decompress_chk, aes_decompress_chk_final. cbn [bind].
  destruct (aes_decompress Db st []) as [st' tail]. unfold d_ret. cbn [fst snd]. now rewrite Hc.
Qed.

(* the repaired behaviour (Aes.aes_decompress_short_buffered), over the generated code: a short chunk on a
   non-empty residue is kept for the next call -- the cipher is not called and nothing is returned *)
Theorem gen_decompress_short_buffers (buf : bytes) (c : cst) (d : bytes) (ml : Z) :
  0 < blen d -> blen buf + blen d < 16 ->
  AesBuf.AESDecompressor_decompress cst (dec_chk Db) buf c d ml = Ok ([], (buf ++ d, c)).
Proof.
  intros H2 H3. pose proof (gen_decompress_chk Db {| dbuf := buf; dcst := c |} d ml) as H. cbn [dbuf dcst] in H.
  rewrite H. destruct (aes_decompress_short_buffered Db {| dbuf := buf; dcst := c |} d H2 H3) as [-> _]. reflexivity.
Qed.

(* hence every chunking into non-empty chunks decrypts correctly, whatever the chunk sizes *)
Theorem gen_aes_decompress_chunking_nonempty (iv : bytes) (chunks : list bytes)
  (Hall : Forall (fun d => 0 < blen d) chunks) :
  gen_decompress_stream cst (dec_chk Db) iv chunks = Ok (fst (cbc_dec Db iv (pad16 (concat chunks)))).
Proof. apply gen_aes_decompress_chunking. apply dec_chunks_ok_nonempty. exact Hall. Qed.
End Runs.

(* ---------------------------------------------------------------- non-vacuity: a toy block cipher (x -> x + 1 mod 256 per byte) *)
Definition toy_E (b : bytes) : bytes := map (fun x => (x + 1) mod 256) b.
Definition toy_D (b : bytes) : bytes := map (fun x => (x - 1) mod 256) b.
Example ex_gen_aes_session :
  let iv := repeatZ 7 16 in
  let chunks := [[1; 2; 3]; repeatZ 9 20; []; [4]] in
  gen_compress_stream cst (enc_chk toy_E) iv chunks = Ok (fst (cbc_enc toy_E iv (pad16 (concat chunks))))
  /\ (exists out, gen_compress_stream cst (enc_chk toy_E) iv chunks = Ok out /\ length out = 32%nat)
  /\ dec_chunks_ok 0 [repeatZ 1 17; repeatZ 2 15] = true.
Proof. split; [apply gen_aes_compress_chunking | split; [eexists; split; [vm_compute; reflexivity | reflexivity] | reflexivity]]. Qed.
