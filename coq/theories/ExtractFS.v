(* ExtractFS.v -- SevenZipFile._extract + Worker.extract + Worker._extract_single + the post-pass of
   py7zr/py7zr.py as a program over the filesystem model FS.v (the part of extraction that touches
   the filesystem; decompression is taken as delivering each member's bytes).

   mirrored line by line from py7zr.py 529-656 (registration, duplicate renaming, directory
   pre-pass, post-pass) and 1273-1449 (order of members, per-member dispatch). *)
From P7 Require Import Prelude FS.
Open Scope Z_scope.

(* one archive member as extraction sees it *)
Record entry := mkE {
  e_name : str;        (* f.filename *)
  e_kind : Z;          (* 0 regular file, 1 directory (f.is_directory), 2 symbolic link (f.is_symlink) *)
  e_data : str;        (* content; for a link the UTF-8 decoded target text *)
  e_empty : bool;      (* f.emptystream *)
  e_mtime : Z;         (* properties.get("lastwritetime"): 1 = a time stamp (os.utime in the post-pass); anything else =
                          no such key, or None as the reader leaves it for an undefined entry of the time vector:
                          skipped *)
  e_chmod : bool       (* posix_mode present (or read-only attribute): chmod in the post-pass *)
}.

(* "_%d" % n *)
Fixpoint dec_digits (fuel : nat) (n : Z) (acc : str) : str :=
  match fuel with
  | O => acc
  | S f => let acc' := (48 + n mod 10) :: acc in
           if n / 10 =? 0 then acc' else dec_digits f (n / 10) acc'
  end.
Definition dec (n : Z) : str := dec_digits 30 n [].

Fixpoint count_of (names : list (str * Z)) (n : str) : option Z :=
  match names with
  | [] => None
  | (m, k) :: r => if str_eqb m n then Some k else count_of r n
  end.
Fixpoint set_count (names : list (str * Z)) (n : str) (k : Z) : list (str * Z) :=
  match names with
  | [] => []
  | (m, j) :: r => if str_eqb m n then (m, k) :: r else (m, j) :: set_count r n k
  end.

(* while outname in fnames: outname = filename + "_%d" % fnames[filename]; fnames[filename] += 1
   -- the keys do not change during the loop, so it ends within (number of keys + 1) rounds *)
Fixpoint rename_go (fuel : nat) (names : list (str * Z)) (n : str) (k : Z) : str * Z :=
  let cand := n ++ [95] ++ dec k in
  match fuel with
  | O => (cand, k + 1)
  | S fuel' =>
    match count_of names cand with
    | None => (cand, k + 1)
    | Some _ => rename_go fuel' names n (k + 1)
    end
  end.

(* the name a member is written under, and the dictionary afterwards: py7zr.py, "outname = f.filename;
   while outname in fnames: ...; fnames[outname] = 0" *)
Definition outname (names : list (str * Z)) (n : str) : str * list (str * Z) :=
  match count_of names n with
  | None => (n, (n, 0) :: names)
  | Some k =>
    let '(o, k') := rename_go (length names) names n k in
    (o, (o, 0) :: set_count names n k')
  end.

Section Extract.
Variable cwd : rpath.
Variable dest : option ppath.        (* the `path` argument as a path object, None = cwd *)

(* the path handed to the sanitiser: py7zr.py 584-587 *)
Definition sanitize_base : option ppath :=
  match dest with
  | None => None
  | Some p => Some (if p_is_abs p then p else pjoinp (mkP 1 cwd) p)
  end.

Record reg := mkR {
  r_out : list (entry * option ppath);   (* worker.register_filelike: None = not registered (directories) *)
  r_files : list (ppath * entry);        (* target_files, newest first *)
  r_dirs : list ppath                    (* target_dirs, newest first *)
}.

(* the registration loop: py7zr.py 564-607; a name the sanitiser refuses aborts with Bad7zFile *)
Fixpoint register (es : list entry) (names : list (str * Z)) (r : reg) : M reg :=
  match es with
  | [] => ret r
  | e :: es' =>
    let '(nm, names') := outname names (e_name e) in
    match get_sanitized_output_path nm cwd sanitize_base with
    | None => raise XBad7z
    | Some o =>
      if e_kind e =? 1 then
        let* ex := path_exists cwd o in
        if ex then register es' names' (mkR ((e, None) :: r_out r) (r_files r) (r_dirs r))
        else register es' names' (mkR ((e, None) :: r_out r) ((o, e) :: r_files r) (o :: r_dirs r))
      else if e_kind e =? 2 then
        register es' names' (mkR ((e, Some o) :: r_out r) (r_files r) (r_dirs r))
      else
        register es' names' (mkR ((e, Some o) :: r_out r) ((o, e) :: r_files r) (r_dirs r))
    end
  end.

(* the real place of the destination, taken once before anything is written: os.path.realpath(path or
   os.getcwd()); root = None stands for the unrepaired code, which has none of the real-path checks *)
Definition dest_path : ppath := match dest with Some p => p | None => mkP 1 cwd end.
Definition real_root : M rpath :=
  fun s => match py_realpath (s_fs s) cwd dest_path with Some q => Ret q s | None => Exc XLoop s end.
Definition guard (root : option rpath) (p : ppath) : M unit :=
  match root with Some r => check_inside cwd r p | None => ret tt end.

(* py7zr.py: the directory pre-pass *)
Fixpoint make_dirs (root : option rpath) (ds : list ppath) : M unit :=
  match ds with
  | [] => ret tt
  | d :: ds' =>
    let* _ := guard root (pparent d) in
    let* _ := catch (path_mkdir cwd (mkdir_fuel d) d true false) (fun x =>
      match x with
      | XExist => let* isd := path_is_dir cwd d in if isd then ret tt else raise XDecomp
      | _ => raise x
      end) in
    make_dirs root ds'
  end.

(* one member in Worker._extract_single: py7zr.py 1395-1444 *)
Definition extract_one (root : option rpath) (eo : entry * option ppath) : M unit :=
  let '(e, o) := eo in
  match o with
  | None => ret tt
  | Some fileish =>
    let* _ := guard root (pparent fileish) in
    let* _ := path_mkdir cwd (mkdir_fuel (pparent fileish)) (pparent fileish) true true in
    if e_empty e then (let* _ := guard root fileish in path_touch cwd fileish)
    else if e_kind e =? 2 then
      if is_path_valid (pjoin (pparent fileish) (e_data e)) cwd dest then
        let* ex := path_exists cwd fileish in
        let* _ := (if ex then sys_unlink cwd fileish else ret tt) in
        sys_symlink cwd (pparse (e_data e)) fileish
      else raise XBad7z
    else (let* _ := guard root fileish in sys_open_wb cwd fileish (e_data e))
  end.

Fixpoint extract_each (root : option rpath) (l : list (entry * option ppath)) : M unit :=
  match l with
  | [] => ret tt
  | eo :: l' => let* _ := extract_one root eo in extract_each root l'
  end.

(* py7zr.py 638-655 *)
Fixpoint post_pass (root : option rpath) (l : list (ppath * entry)) : M unit :=
  match l with
  | [] => ret tt
  | (o, e) :: l' =>
    let* _ := guard root o in
    let* _ := (if e_mtime e =? 1 then sys_utime cwd o else ret tt) in
    let* _ := (if e_chmod e then sys_chmod cwd o else ret tt) in
    post_pass root l'
  end.

(* mode 0: one folder (or none): archive order.  mode 1: several folders, sequential: members with an
   empty stream first, then the others folder by folder = archive order (py7zr.py 1291-1306) *)
Definition worker_order (mode : Z) (l : list (entry * option ppath)) : list (entry * option ppath) :=
  if mode =? 0 then l
  else filter (fun eo => e_empty (fst eo)) l ++ filter (fun eo => negb (e_empty (fst eo))) l.

(* py7zr.py 546-558 *)
Definition prepare_dest : M unit :=
  match dest with
  | None => ret tt
  | Some p =>
    let* ex := path_exists cwd p in
    if ex then ret tt
    else catch (path_mkdir cwd (mkdir_fuel p) p true false) (fun x =>
      match x with
      | XExist => let* isd := path_is_dir cwd p in if isd then ret tt else raise x
      | _ => raise x
      end)
  end.

(* repaired = true: the code as it is; false: the code before the real-path checks (kept for the regression
   witness) *)
Definition extract_gen (repaired : bool) (es : list entry) (mode : Z) : M unit :=
  let* _ := prepare_dest in
  let* root := (if repaired then (let* q := real_root in ret (Some q)) else ret None) in
  let* r := register es [] (mkR [] [] []) in
  let* _ := make_dirs root (sort_paths (rev (r_dirs r))) in
  let* _ := extract_each root (worker_order mode (rev (r_out r))) in
  post_pass root (rev (r_files r)).
Definition extract := extract_gen true.

End Extract.

Definition extract_fs (f : fs) (cwd : rpath) (dest : option ppath) (es : list entry) (mode : Z) : out unit :=
  extract cwd dest es mode (mkSt f []).
Definition extract_fs_unrepaired (f : fs) (cwd : rpath) (dest : option ppath) (es : list entry) (mode : Z) : out unit :=
  extract_gen cwd dest false es mode (mkSt f []).

(* ------------------------------------------------------------------ dispatcher (FN 120-159) *)
Definition of_entry (t : tree) : entry :=
  mkE (of_str (tnth t 0)) (of_TI (tnth t 1)) (of_str (tnth t 2)) (of_bool (tnth t 3))
      (of_TI (tnth t 4)) (of_bool (tnth t 5)).
Definition t_out (o : out unit) : tree :=
  match o with
  | Ret _ s => TL [TL [TI 0]; t_effects (s_eff s); t_fs (s_fs s)]
  | Exc x s => TL [TL [TI 1; TI (exn_code x)]; t_effects (s_eff s); t_fs (s_fs s)]
  end.

Definition fs_dispatch (fn : Z) (a : tree) : tree :=
  match fn with
  (* FN 120 fs_extract : (fs cwd dest? entries mode) -> (result effects fs) *)
  | 120 => t_out (extract_fs (of_fs (tnth a 0)) (of_rpath (tnth a 1)) (of_opt of_ppath (tnth a 2))
                             (map of_entry (of_TL (tnth a 3))) (of_TI (tnth a 4)))
  (* FN 121 fs_sanitize : (name cwd dest?) -> () | (ppath) *)
  | 121 => t_opt t_ppath (get_sanitized_output_path (of_str (tnth a 0)) (of_rpath (tnth a 1))
                                                     (of_opt of_ppath (tnth a 2)))
  (* FN 122 fs_is_path_valid : (target cwd parent?) -> bool *)
  | 122 => t_bool (is_path_valid (of_ppath (tnth a 0)) (of_rpath (tnth a 1)) (of_opt of_ppath (tnth a 2)))
  (* FN 123 fs_pparse : str -> ppath *)
  | 123 => t_ppath (pparse (of_str a))
  (* FN 124 fs_canonical : ppath -> ppath *)
  | 124 => t_ppath (canonical_path (of_ppath a))
  (* FN 125 fs_ops : (fs cwd ops) -> (codes effects fs) *)
  | 125 => let '(codes, s) := run_ops (of_rpath (tnth a 1)) (map of_fsop (of_TL (tnth a 2)))
                                      (mkSt (of_fs (tnth a 0)) []) in
           TL [TL (map TI codes); t_effects (s_eff s); t_fs (s_fs s)]
  (* FN 126 fs_sort : (ppath...) -> (ppath...) *)
  | 126 => TL (map t_ppath (sort_paths (map of_ppath (of_TL a))))
  (* FN 127 fs_joinstr : (ppath str) -> ppath *)
  | 127 => t_ppath (pjoin (of_ppath (tnth a 0)) (of_str (tnth a 1)))
  (* FN 128 fs_realpath : (fs cwd ppath) -> () | (rpath) *)
  | 128 => t_opt t_rpath (py_realpath (of_fs (tnth a 0)) (of_rpath (tnth a 1)) (of_ppath (tnth a 2)))
  (* FN 129 fs_extract_unrepaired : (fs cwd dest? entries mode) -> (result effects fs) *)
  | 129 => t_out (extract_fs_unrepaired (of_fs (tnth a 0)) (of_rpath (tnth a 1)) (of_opt of_ppath (tnth a 2))
                                        (map of_entry (of_TL (tnth a 3))) (of_TI (tnth a 4)))
  | _ => TL [TI (-2)]
  end.
