(* HeaderProofs.v -- section-by-section and whole-header round trips of the header
   writer/parser pair of Header.v (properties C17 last sentence, C07, C08):
   whatever the writer emits for a well-formed header graph h, the parser reads back as
   norm h.  Every clause of `norm` is something py7zr does NOT preserve (creation and access times
   ARE preserved since the repair of FilesInfo.write: theorem norm_files_times); every clause of
   `wf_header` is a condition without which the pair does not round-trip. *)
From P7 Require Import Prelude PyPrims Number Header HeaderPrims.
From Coq Require Import ZifyBool ZifyNat.
Ltac Zify.zify_post_hook ::= Z.to_euclidean_division_equations.
Open Scope Z_scope.

(* ================================================================== *)
(* Definitions: what is preserved (norm) and when (wf)                 *)
(* ================================================================== *)

(* ---- PackInfo ---- *)
(* CRCs at the defined positions: what the writer emits *)
Fixpoint select_defined (dd : list bool) (cs : list Z) : list Z :=
  match dd, cs with
  | d :: ds, c :: cs' => if d then c :: select_defined ds cs' else select_defined ds cs'
  | _, _ => []
  end.

(* digest values with the undefined entries zeroed *)
Definition mask_digests (dg : list Z) (dd : list bool) : list Z :=
  map (fun p : Z * bool => if snd p then fst p else 0) (combine dg dd).

Definition norm_pack (en : bool) (p : packinfo) : packinfo :=
  if any_true (p_digestdefined p) || en
  then (* N-PACK-CRC-UNDEFINED: only the CRCs of defined streams are stored; the value kept in
          `crcs` at an undefined position comes back as 0 (the list stays aligned) *)
       mkPack (p_pos p) (p_numstreams p) (p_sizes p) (p_digestdefined p)
              (mask_digests (p_crcs p) (p_digestdefined p))
  else (* N-PACK-NODIGEST: without enable_digests and with no digest defined, no CRC
          section is written: digestdefined and crcs come back empty *)
       mkPack (p_pos p) (p_numstreams p) (p_sizes p) [] [].

Definition wf_pack (lim : Z) (en : bool) (p : packinfo) : bool :=
  (* W-PACK-LIM: the parser allocates numstreams entries *)
  (p_numstreams p <=? lim) &&
  (* W-PACK-DDLEN: write_boolean emits ALL of digestdefined, the reader takes numstreams bits *)
  (if any_true (p_digestdefined p) || en then zlen (p_digestdefined p) =? p_numstreams p else true).
  (* numstreams = len(sizes), len(crcs) = numstreams, values < 2^64 / 2^32: enforced by the
     writer itself (it raises otherwise), hence consequences of write = Ok *)

(* ---- Folder ---- *)
Definition wf_coder (c : coder) : bool :=
  (* W-CODER-IDLEN: the flag byte stores len(method) & 15: an empty id comes back as b"\0",
     a 16-byte id is written with idsize 0 *)
  (1 <=? zlen (c_method c)) && (zlen (c_method c) <=? 15).

Fixpoint zlist_eqb (a b : list Z) : bool :=
  match a, b with
  | [], [] => true
  | x :: a', y :: b' => (x =? y) && zlist_eqb a' b'
  | _, _ => false
  end.

Definition total_in (f : folder) : Z := sumZ (map c_nin (f_coders f)).
Definition total_out (f : folder) : Z := sumZ (map c_nout (f_coders f)).
Definition computed_packed (f : folder) : list Z :=
  filter (fun i => negb (find_in_bond (f_bonds f) i)) (py_range 0 (total_in f)).

Definition wf_folder (lim : Z) (f : folder) : bool :=
  forallb wf_coder (f_coders f) &&
  (* W-FOLDER-BONDS: the number of bonds is not stored: it is totalout - 1 *)
  (zlen (f_bonds f) =? Z.max 0 (total_out f - 1)) &&
  (* W-FOLDER-PACKED: the packed-stream list is stored only when there are >= 2 of them;
     a single one is recomputed as the input not bound by any bond *)
  (if total_in f - (total_out f - 1) =? 1
   then (total_in f <=? lim) && zlist_eqb (f_packed f) (computed_packed f)
   else if 1 <? total_in f - (total_out f - 1)
        then zlen (f_packed f) =? total_in f - (total_out f - 1)
        else (length (f_packed f) =? 0)%nat) &&
  (* W-FOLDER-UNPACKSIZES: one unpack size per output stream *)
  (zlen (f_unpacksizes f) =? sumZ (map (fun c => Z.max (c_nout c) 0) (f_coders f))).

(* N-FOLDER-CRC: UnpackInfo.write never writes folder CRCs ("FIXME: write CRCs here") *)
Definition norm_folder (f : folder) : folder :=
  mkFolder (f_coders f) (f_bonds f) (f_packed f) (f_unpacksizes f) false None.
(* what Folder._read alone returns: the unpack sizes are filled in later *)
Definition strip_folder (f : folder) : folder :=
  mkFolder (f_coders f) (f_bonds f) (f_packed f) [] false None.

(* ---- SubstreamsInfo ---- *)
Definition sub_solid (s : substreams) : bool := existsb (fun n => negb (n =? 1)) (s_nums s).
Definition sub_multi (s : substreams) : bool := existsb (fun n => 1 <? n) (s_nums s).

Fixpoint wf_sub_sizes (nums : list Z) (fs : list folder) (sizes : list Z) : bool :=
  match nums, fs with
  | [], _ => (length sizes =? 0)%nat       (* no sizes beyond the last folder's *)
  | n :: nr, f :: fr =>
      if 0 <? n then
        let k := Z.to_nat n in
        (k <=? length sizes)%nat &&
        (* W-SUB-SUM: the last size of each folder is not stored but recomputed as
           folder.get_unpack_size() - sum(others) *)
        (match folder_unpack_size f with Ok t => t =? sumZ (firstn k sizes) | Err _ => false end) &&
        wf_sub_sizes nr fr (skipn k sizes)
      else wf_sub_sizes nr fr sizes         (* a folder without sub-streams has no sizes *)
  | _ :: _, [] => false
  end.

Definition wf_sub (lim : Z) (fs : list folder) (s : substreams) : bool :=
  (* W-SUB-NFOLDERS: one count per folder (the count list is not self-delimiting) *)
  (length (s_nums s) =? length fs)%nat &&
  (* W-SUB-LIM *)
  (sumZ (s_nums s) <=? lim) &&
  (* W-SUB-DIGESTLEN: write_boolean emits ALL of digestsdefined and the CRC writer zips digests
     with digestsdefined; the reader takes sum(nums) flags *)
  (zlen (s_digestsdefined s) =? sumZ (s_nums s)) && (zlen (s_digests s) =? sumZ (s_nums s)) &&
  (if sub_multi s
   then match s_sizes s with Some sz => wf_sub_sizes (s_nums s) fs sz | None => false end
   else true).

Definition norm_sub (s : substreams) : substreams :=
  mkSub (s_nums s)
        (* N-SUB-SIZES: no SIZE section unless some folder has > 1 sub-stream: unpacksizes -> None *)
        (if sub_multi s then s_sizes s else None)
        (s_digestsdefined s)
        (* N-SUB-UNDEF-DIGESTS: only the CRCs of defined entries are stored; the value kept in
           `digests` at an undefined position comes back as 0 *)
        (mask_digests (s_digests s) (s_digestsdefined s)).

(* ---- StreamsInfo ---- *)
Definition sub_written (s : streamsinfo) : option substreams :=
  match si_sub s with
  | Some x => if (length (s_nums x) =? 0)%nat then None else Some x
  | None => None
  end.

Definition wf_streams (lim : Z) (en : bool) (s : streamsinfo) : bool :=
  match si_pack s with Some p => wf_pack lim en p | None => true end &&
  match si_folders s with Some fs => forallb (wf_folder lim) fs | None => true end &&
  match sub_written s with
  | Some x => match si_folders s with
              | Some fs => wf_sub lim fs x
              | None => false   (* W-STREAMS-SUB-NEEDS-FOLDERS: "Header is broken" *)
              end
  | None => true
  end.

Definition norm_streams (en : bool) (s : streamsinfo) : streamsinfo :=
  mkStreams (option_map (norm_pack en) (si_pack s))
            (option_map (map norm_folder) (si_folders s))
            (* N-STREAMS-EMPTY-SUB: SubstreamsInfo.write writes nothing for zero folders *)
            (option_map norm_sub (sub_written s)).

(* ---- FilesInfo ---- *)
Definition flat_opt (o : option (option Z)) : option Z :=
  match o with Some (Some v) => Some v | _ => None end.

(* a time vector that is written only when some entry has a defined value (b): when written, an absent
   key comes back as present-but-None; when not written, a present-but-None key comes back absent.
   Defined values are always kept. *)
Definition tnorm (b : bool) (o : option (option Z)) : option (option Z) :=
  if b then Some (flat_opt o) else None.

(* cd / ad: "the CREATION_TIME / LAST_ACCESS_TIME record is written" = some entry of the list has a
   defined creation / access time (Header.has_time) *)
Definition norm_file (cd ad : bool) (e : fileent) : fileent :=
  mkFile (e_emptystream e) (e_name e)
         (tnorm cd (e_ctime e))        (* N-FILE-CTIME-KEY: defined values kept; only the key/None distinction moves *)
         (tnorm ad (e_atime e))        (* N-FILE-ATIME-KEY: likewise *)
         (Some (flat_opt (e_mtime e))) (* N-FILE-MTIME-KEY: absent key comes back as present-but-None *)
         (Some (flat_opt (e_attr e))). (* N-FILE-ATTR-KEY: likewise *)
Definition norm_files (files : list fileent) : list fileent :=
  map (norm_file (has_time e_ctime files) (has_time e_atime files)) files.

Definition all_named (files : list fileent) : bool :=
  forallb (fun f => match e_name f with Some n => wf_name n | None => false end) files.
Definition none_named (files : list fileent) : bool :=
  forallb (fun f => match e_name f with Some _ => false | None => true end) files.

Definition wf_files (lim : Z) (files : list fileent) : bool :=
  (* W-FILES-LIM *)
  (zlen files <=? lim) &&
  (* W-FILES-NAMES: _write_names writes only the entries that have a name, the reader assigns
     names positionally to ALL entries; and each name must survive read_utf16 (wf_name) *)
  (all_named files || none_named files).

(* N-EMPTYFILES-ALIGN: the EmptyFile vector is written/read as one bit per empty-stream entry:
   a longer vector is truncated, a shorter one padded with False (identity when
   len(emptyfiles) = number of empty-stream entries) *)
Definition norm_emptyfiles (files : list fileent) (emptyfiles : list bool) : list bool :=
  let nes := Z.to_nat (count_true (map e_emptystream files)) in
  firstn nes (emptyfiles ++ repeat false nes).

(* ---- Header ---- *)
Definition wf_header (lim : Z) (en : bool) (h : header) : bool :=
  match h_streams h with Some s => wf_streams lim en s | None => true end &&
  match h_files h with Some f => wf_files lim f | None => true end.

Definition norm (en : bool) (h : header) : header :=
  mkHeader (option_map (norm_streams en) (h_streams h))
           (option_map norm_files (h_files h))
           (match h_files h with
            | Some f => norm_emptyfiles f (h_emptyfiles h)
            | None => []    (* N-EMPTYFILES-NOFILES: no FilesInfo, no EmptyFile vector *)
            end).

(* contents that must be bytes for the output to be bytes *)
Definition bytes_coder (c : coder) : bool :=
  wf_bytes (c_method c) && match c_props c with Some p => wf_bytes p | None => true end.
Definition bytes_header (h : header) : bool :=
  match h_streams h with
  | Some s => match si_folders s with
              | Some fs => forallb (fun f => forallb bytes_coder (f_coders f)) fs
              | None => true
              end
  | None => true
  end.

(* ================================================================== *)
(* Small helpers                                                       *)
(* ================================================================== *)
Ltac norm_app := repeat (progress (rewrite <- ?app_assoc; cbn [app])).
Ltac bstep H := rewrite H; cbn [bind].

Lemma andb_true_split a b : a && b = true -> a = true /\ b = true.
Proof. apply andb_true_iff. Qed.

Lemma zlist_eqb_eq a : forall b, zlist_eqb a b = true -> a = b.
Proof.
  induction a as [|x a IH]; intros [|y b] H; cbn in H; try discriminate; [reflexivity|].
  apply andb_true_iff in H as [Hx Hr]. f_equal; [lia|apply IH; exact Hr].
Qed.

Lemma sumZ_acc l : forall a, fold_left Z.add l a = a + sumZ l.
Proof.
  unfold sumZ. induction l as [|x l IH]; intros a; cbn [fold_left]; [lia|].
  rewrite (IH (a + x)), (IH (0 + x)). lia.
Qed.
Lemma sumZ_nil : sumZ [] = 0.
Proof. reflexivity. Qed.
Lemma sumZ_cons x l : sumZ (x :: l) = x + sumZ l.
Proof. unfold sumZ at 1. cbn [fold_left]. rewrite sumZ_acc. lia. Qed.
Lemma sumZ_app a b : sumZ (a ++ b) = sumZ a + sumZ b.
Proof. induction a as [|x a IH]; [cbn [app]; rewrite sumZ_nil; lia|]. cbn [app]. rewrite !sumZ_cons, IH. lia. Qed.

(* ================================================================== *)
(* PackInfo                                                            *)
(* ================================================================== *)
Lemma wr_pack_crcs_select dd : forall crcs x,
  wr_pack_crcs dd crcs = Ok x ->
  wr_list (wr_fixed 4) (select_defined dd crcs) = Ok x /\ count_true dd = zlen (select_defined dd crcs).
Proof.
  induction dd as [|d ds IH]; intros crcs x H.
  - cbn in H. apply Ok_inj in H. subst. split; reflexivity.
  - cbn [wr_pack_crcs] in H. rewrite count_true_cons. destruct crcs as [|c cs].
    + destruct d; [discriminate|]. destruct (IH [] x H) as [H1 H2].
      cbn [select_defined]. destruct ds; cbn [select_defined] in *; split; auto; lia.
    + bind_inv H a Ha. bind_inv H b Hb. apply Ok_inj in H. subst x.
      destruct (IH cs b Hb) as [H1 H2]. cbn [select_defined]. destruct d.
      * cbn [wr_list]. rewrite Ha, H1. cbn [bind]. rewrite zlen_cons. split; [reflexivity|lia].
      * apply Ok_inj in Ha. subst a. cbn [app]. split; [exact H1|lia].
Qed.

Lemma expand_select dd : forall crcs, (length dd <= length crcs)%nat ->
  expand_crcs dd (select_defined dd crcs) = Ok (mask_digests crcs dd).
Proof.
  unfold mask_digests. induction dd as [|d ds IH]; intros crcs Hl; [destruct crcs; reflexivity|].
  destruct crcs as [|c cs]; [cbn [length] in Hl; lia|]. cbn [length] in Hl.
  cbn [select_defined combine map fst snd]. destruct d; cbn [expand_crcs]; rewrite (IH cs) by lia; reflexivity.
Qed.

Theorem packinfo_roundtrip lim en p bs :
  wf_pack lim en p = true -> write_packinfo en p = Ok bs ->
  exists body, bs = 6 :: body /\
    forall r, parse_packinfo lim (body ++ r) = Ok (norm_pack en p, r).
Proof.
  unfold wf_pack, write_packinfo. intros Hwf Hw.
  apply andb_true_iff in Hwf as [Hlim Hdd].
  destruct (negb (p_numstreams p =? zlen (p_sizes p))) eqn:En; [discriminate|].
  bind_inv Hw a Ha. bind_inv Hw b Hb. bind_inv Hw c Hc. bind_inv Hw d Hd.
  apply Ok_inj in Hw. subst bs. cbn [app]. eexists. split; [reflexivity|]. intros r.
  unfold parse_packinfo. norm_app.
  bstep (rd_number_wr _ _ (b ++ 9 :: c ++ d ++ 0 :: r) Ha).
  bstep (rd_number_wr _ _ (9 :: c ++ d ++ 0 :: r) Hb).
  cbn [rd_pid bind]. destruct (lim <? p_numstreams p) eqn:El; [lia|].
  replace (p_numstreams p) with (zlen (p_sizes p)) at 1 by lia.
  bstep (rd_many_numbers _ _ (d ++ 0 :: r) Hc).
  unfold norm_pack. destruct (any_true (p_digestdefined p) || en) eqn:Een.
  - destruct (negb (zlen (p_crcs p) =? p_numstreams p)) eqn:E1; [discriminate|].
    destruct (length (p_digestdefined p) <? length (p_sizes p))%nat eqn:E2; [discriminate|].
    bind_inv Hd x Hx. apply Ok_inj in Hd. subst d. norm_app. cbn [rd_pid bind].
    rewrite firstn_all2 in Hx by (unfold zlen in *; lia).
    destruct (wr_pack_crcs_select _ _ _ Hx) as [Hx1 Hx2].
    replace (p_numstreams p) with (zlen (p_digestdefined p)) at 1 by lia.
    rewrite rd_boolean_wr_boolean by (intros _ _; lia). cbn [bind].
    unfold rd_defined_crcs. rewrite Hx2.
    bstep (rd_many_fixed 4 _ _ (0 :: r) ltac:(lia) Hx1).
    rewrite expand_select by (unfold zlen in *; lia). cbn [rd_pid bind].
    reflexivity.
  - apply Ok_inj in Hd. subst d. cbn [app rd_pid bind]. reflexivity.
Qed.

(* ================================================================== *)
(* Coder, Folder, UnpackInfo                                           *)
(* ================================================================== *)
Lemma flag_bits k a b : 0 <= k < 16 -> (a = 0 \/ a = 16) -> (b = 0 \/ b = 32) ->
  Z.land (k + a + b) 15 = k /\ Z.land (k + a + b) 16 = a /\ Z.land (k + a + b) 32 = b.
Proof.
  intros Hk Ha Hb.
  assert (H : k = 0 \/ k = 1 \/ k = 2 \/ k = 3 \/ k = 4 \/ k = 5 \/ k = 6 \/ k = 7 \/ k = 8 \/ k = 9 \/
              k = 10 \/ k = 11 \/ k = 12 \/ k = 13 \/ k = 14 \/ k = 15) by lia.
  destruct Ha as [-> | ->]; destruct Hb as [-> | ->];
    repeat (destruct H as [-> | H]; [repeat split; reflexivity|]); subst; repeat split; reflexivity.
Qed.
Lemma land15_small k : 0 <= k < 16 -> Z.land k 15 = k.
Proof. intros H. destruct (flag_bits k 0 0 H) as [E _]; auto. rewrite !Z.add_0_r in E. exact E. Qed.

Theorem coder_roundtrip c bs r :
  wf_coder c = true -> write_coder c = Ok bs -> parse_coder (bs ++ r) = Ok (c, r).
Proof.
  unfold wf_coder, write_coder. intros Hwf Hw. apply andb_true_iff in Hwf as [Hm1 Hm2].
  destruct c as [m nin nout props]. cbn [c_method c_nin c_nout c_props] in *.
  rewrite land15_small in Hw by lia.
  bind_inv Hw cx Hcx. bind_inv Hw pr Hpr. apply Ok_inj in Hw. subst bs.
  set (a := if is_simple (mkCoder m nin nout props) then 0 else 16) in *.
  set (b := match props with Some _ => 32 | None => 0 end) in *.
  assert (Ha : a = 0 \/ a = 16) by (unfold a; destruct (is_simple _); auto).
  assert (Hb : b = 0 \/ b = 32) by (unfold b; destruct props; auto).
  destruct (flag_bits (zlen m) a b ltac:(lia) Ha Hb) as [F1 [F2 F3]].
  unfold parse_coder. norm_app. cbn [rd_byte bind]. cbv zeta. rewrite F1, F2, F3.
  destruct (0 <? zlen m) eqn:E0; [|lia].
  rewrite takeZ_all. unfold rd_bytes at 1. rewrite takeZ_app, dropZ_app. cbn [bind].
  unfold a, b in *. clear a b Ha Hb F1 F2 F3.
  unfold is_simple in *. cbn [c_nin c_nout] in *.
  destruct ((nin =? 1) && (nout =? 1)) eqn:Es.
  - apply Ok_inj in Hcx. subst cx. cbn [Z.eqb negb app bind].
    destruct props as [p|].
    + bind_inv Hpr l Hl. apply Ok_inj in Hpr. subst pr. cbn [Z.eqb negb]. norm_app.
      bstep (rd_number_wr _ _ (p ++ r) Hl). unfold rd_bytes. rewrite takeZ_app, dropZ_app. cbn [bind].
      do 3 f_equal; lia.
    + apply Ok_inj in Hpr. subst pr. cbn [Z.eqb negb app bind]. do 3 f_equal; lia.
  - bind_inv Hcx x Hx. bind_inv Hcx y Hy. apply Ok_inj in Hcx. subst cx. cbn [Z.eqb negb Pos.eqb]. norm_app.
    bstep (rd_number_wr _ _ (y ++ pr ++ r) Hx). bstep (rd_number_wr _ _ (pr ++ r) Hy).
    destruct props as [p|].
    + bind_inv Hpr l Hl. apply Ok_inj in Hpr. subst pr. cbn [Z.eqb negb Pos.eqb]. norm_app.
      bstep (rd_number_wr _ _ (p ++ r) Hl). unfold rd_bytes. rewrite takeZ_app, dropZ_app. cbn [bind].
      reflexivity.
    + apply Ok_inj in Hpr. subst pr. cbn [Z.eqb negb Pos.eqb app bind]. reflexivity.
Qed.

Lemma write_coder_nonempty c bs : write_coder c = Ok bs -> bs <> [].
Proof.
  unfold write_coder. intros H. bind_inv H cx Hcx. bind_inv H pr Hpr. apply Ok_inj in H. subst bs. discriminate.
Qed.

Definition wr_bond (p : Z * Z) : res bytes := do a <- wr_number (fst p); do b <- wr_number (snd p); Ok (a ++ b).

Lemma bond_roundtrip p bs r : wr_bond p = Ok bs -> rd_bond (bs ++ r) = Ok (p, r).
Proof.
  unfold wr_bond, rd_bond. intros H. bind_inv H a Ha. bind_inv H b Hb. apply Ok_inj in H. subst bs.
  norm_app. bstep (rd_number_wr _ _ (b ++ r) Ha). bstep (rd_number_wr _ _ r Hb). destruct p; reflexivity.
Qed.
Lemma wr_bond_nonempty p bs : wr_bond p = Ok bs -> bs <> [].
Proof.
  unfold wr_bond. intros H. bind_inv H a Ha. bind_inv H b Hb. apply Ok_inj in H. subst bs.
  apply wr_number_nonempty in Ha. destruct a; [congruence|discriminate].
Qed.

Lemma forallb_Forall {A} (f : A -> bool) l : forallb f l = true -> Forall (fun x => f x = true) l.
Proof. intros H. apply Forall_forall. apply forallb_forall. exact H. Qed.

Theorem folder_roundtrip lim f bs r :
  wf_folder lim f = true -> write_folder f = Ok bs -> parse_folder lim (bs ++ r) = Ok (strip_folder f, r).
Proof.
  unfold wf_folder, write_folder. intros Hwf Hw.
  apply andb_true_iff in Hwf as [Hwf Hus]. apply andb_true_iff in Hwf as [Hwf Hpk].
  apply andb_true_iff in Hwf as [Hcs Hbo].
  bind_inv Hw n Hn. bind_inv Hw cs Hc. bind_inv Hw bo Hb. bind_inv Hw pk Hp. apply Ok_inj in Hw. subst bs.
  unfold parse_folder. norm_app.
  bstep (rd_number_wr _ _ (cs ++ bo ++ pk ++ r) Hn).
  rewrite (rd_many_wr_list (fun c => wf_coder c = true) write_coder parse_coder) with (l := f_coders f);
    [|intros; apply coder_roundtrip; assumption|intros x b _ Hx; eapply write_coder_nonempty; exact Hx
     |exact Hc|apply forallb_Forall; exact Hcs].
  cbn [bind]. cbv zeta. fold (total_in f) (total_out f) in *.
  rewrite (rd_many_wr_list_max (fun _ => True) wr_bond (fun p => p) rd_bond) with (l := f_bonds f);
    [|intros; apply bond_roundtrip; assumption|intros x b _ Hx; eapply wr_bond_nonempty; exact Hx
     |lia|exact Hb|apply Forall_True].
  cbn [bind]. rewrite map_id.
  destruct (total_in f - (total_out f - 1) =? 1) eqn:E1.
  - apply andb_true_iff in Hpk as [Hl Hpk]. apply zlist_eqb_eq in Hpk.
    destruct (0 <? total_in f - total_out f) eqn:E2; [lia|]. apply Ok_inj in Hp. subst pk.
    destruct (lim <? total_in f) eqn:E3; [lia|]. cbn [app].
    unfold strip_folder. rewrite Hpk. reflexivity.
  - destruct (1 <? total_in f - (total_out f - 1)) eqn:E2.
    + destruct (0 <? total_in f - total_out f) eqn:E3; [|lia].
      replace (total_in f - (total_out f - 1)) with (zlen (f_packed f)) by lia.
      bstep (rd_many_numbers _ _ r Hp). reflexivity.
    + destruct (0 <? total_in f - total_out f) eqn:E3; [lia|]. apply Ok_inj in Hp. subst pk.
      rewrite rd_many_nonpos by lia. cbn [bind app]. unfold strip_folder.
      destruct (f_packed f); [reflexivity|discriminate].
Qed.

Lemma write_folder_nonempty f bs : write_folder f = Ok bs -> bs <> [].
Proof.
  unfold write_folder. intros H. bind_inv H n Hn. bind_inv H cs Hc. bind_inv H bo Hb. bind_inv H pk Hp.
  apply Ok_inj in H. subst bs. apply wr_number_nonempty in Hn. destruct n; [congruence|discriminate].
Qed.

Lemma rd_unpacksizes_wr fs : forall us r,
  wr_list (fun f => wr_list wr_number (f_unpacksizes f)) fs = Ok us ->
  Forall (fun f => zlen (f_unpacksizes f) = sumZ (map (fun c => Z.max (c_nout c) 0) (f_coders f))) fs ->
  rd_unpacksizes (map strip_folder fs) (us ++ r) = Ok (map norm_folder fs, r).
Proof.
  induction fs as [|f fs IH]; intros us r Hw HF.
  - cbn in Hw. apply Ok_inj in Hw. subst. reflexivity.
  - apply wr_list_cons_inv in Hw as [a [b [Ha [Hb ->]]]]. inversion HF as [|? ? Hlen Hfs]; subst.
    cbn [map rd_unpacksizes strip_folder f_coders f_bonds f_packed f_digestdefined f_crc]. norm_app.
    rewrite <- Hlen. bstep (rd_many_numbers _ _ (b ++ r) Ha). bstep (IH b r Hb Hfs). reflexivity.
Qed.

Theorem unpackinfo_roundtrip lim fs bs :
  forallb (wf_folder lim) fs = true -> write_unpackinfo fs = Ok bs ->
  exists body, bs = 7 :: body /\
    forall r, parse_unpackinfo lim (body ++ r) = Ok (map norm_folder fs, r).
Proof.
  unfold write_unpackinfo. intros Hwf Hw.
  bind_inv Hw n Hn. bind_inv Hw body Hb. bind_inv Hw us Hu. apply Ok_inj in Hw. subst bs.
  cbn [app]. eexists. split; [reflexivity|]. intros r.
  unfold parse_unpackinfo. norm_app. cbn [rd_pid bind].
  bstep (rd_number_wr _ _ (0 :: body ++ 12 :: us ++ 0 :: r) Hn). cbn [rd_byte bind Z.eqb negb].
  rewrite (rd_many_wr_list_g (fun f => wf_folder lim f = true) write_folder strip_folder (parse_folder lim))
    with (l := fs);
    [|intros; apply folder_roundtrip; assumption|intros x b _ Hx; eapply write_folder_nonempty; exact Hx
     |exact Hb|apply forallb_Forall; exact Hwf].
  cbn [bind rd_pid].
  rewrite (rd_unpacksizes_wr fs us (0 :: r) Hu).
  2:{ apply Forall_forall. intros f Hf.
      assert (H : wf_folder lim f = true) by (eapply forallb_forall in Hwf; eauto).
      unfold wf_folder in H. apply andb_true_iff in H as [_ H]. lia. }
  cbn [bind rd_pid]. reflexivity.
Qed.

(* ================================================================== *)
(* SubstreamsInfo                                                      *)
(* ================================================================== *)
Lemma firstn_S_snoc {A} (d : A) l : forall j, (j < length l)%nat -> firstn (S j) l = firstn j l ++ [nth j l d].
Proof.
  induction l as [|x l IH]; intros j Hj; [cbn [length] in Hj; lia|].
  destruct j as [|j]; [reflexivity|]. cbn [length] in Hj.
  change (firstn (S (S j)) (x :: l)) with (x :: firstn (S j) l). rewrite (IH j) by lia. reflexivity.
Qed.

Lemma last_size_recomputed k sizes : (1 <= k <= length sizes)%nat ->
  firstn (k - 1) sizes ++ [sumZ (firstn k sizes) - sumZ (firstn (k - 1) sizes)] = firstn k sizes.
Proof.
  intros Hk. destruct k as [|k]; [lia|]. replace (S k - 1)%nat with k by lia.
  rewrite (firstn_S_snoc 0) by lia. rewrite sumZ_app, sumZ_cons, sumZ_nil. f_equal. f_equal. lia.
Qed.

Lemma rd_sub_sizes_wr nums : forall fs sizes x r,
  wf_sub_sizes nums fs sizes = true -> wr_sub_sizes nums sizes = Ok x ->
  rd_sub_sizes nums fs (x ++ r) = Ok (sizes, r).
Proof.
  induction nums as [|n nr IH]; intros fs sizes x r Hwf Hw.
  - cbn in Hw. apply Ok_inj in Hw. subst x. destruct fs; cbn in Hwf; destruct sizes; try discriminate; reflexivity.
  - destruct fs as [|f fr]; [discriminate|]. cbn [wf_sub_sizes] in Hwf.
    cbn [wr_sub_sizes] in Hw. cbv zeta in Hw. cbn [rd_sub_sizes].
    destruct (0 <? n) eqn:En.
    + cbv zeta in Hwf. apply andb_true_iff in Hwf as [Hwf Hrec]. apply andb_true_iff in Hwf as [Hk Hsum].
      destruct (folder_unpack_size f) as [t|] eqn:Et; [|discriminate].
      replace (Z.to_nat (Z.max n 0)) with (Z.to_nat n) in Hw by lia.
      destruct (length sizes <? Z.to_nat n - 1)%nat eqn:E; [lia|].
      bind_inv Hw a Ha. bind_inv Hw b Hb. apply Ok_inj in Hw. subst x. norm_app.
      replace (n - 1) with (zlen (firstn (Z.to_nat n - 1) sizes)) by (unfold zlen; rewrite firstn_length; lia).
      bstep (rd_many_numbers _ _ (b ++ r) Ha).
      bstep (IH fr _ b r Hrec Hb).
      replace t with (sumZ (firstn (Z.to_nat n) sizes)) by lia.
      do 2 f_equal.
      change (firstn (Z.to_nat n - 1) sizes ++
              [sumZ (firstn (Z.to_nat n) sizes) - sumZ (firstn (Z.to_nat n - 1) sizes)] ++
              skipn (Z.to_nat n) sizes = sizes).
      rewrite app_assoc, last_size_recomputed by lia. apply firstn_skipn.
    + replace (Z.to_nat (Z.max n 0)) with 0%nat in Hw by lia.
      cbn [Nat.sub Nat.ltb Nat.leb firstn skipn wr_list bind] in Hw.
      bind_inv Hw b Hb. apply Ok_inj in Hw. subst x. cbn [app].
      rewrite rd_many_nonpos by lia. cbn [bind]. apply (IH fr sizes b r Hwf Hb).
Qed.

Definition no_folder_digest (fs : list folder) : Prop := Forall (fun f => f_digestdefined f = false) fs.

Lemma sub_digest_counts_nodigest nums : forall fs,
  length nums = length fs -> no_folder_digest fs ->
  sub_digest_counts nums fs = Ok (sumZ nums, sumZ nums).
Proof.
  induction nums as [|n nr IH]; intros fs Hl Hd; [reflexivity|].
  destruct fs as [|f fr]; [discriminate|]. inversion Hd as [|? ? Hf Hfr]; subst.
  cbn [sub_digest_counts]. rewrite (IH fr) by (cbn [length] in Hl; auto; lia). cbn [bind].
  rewrite Hf. cbn [negb]. rewrite orb_true_r, sumZ_cons. reflexivity.
Qed.

Lemma zlen_skipn {A} k (l : list A) : (k <= length l)%nat -> zlen (skipn k l) = zlen l - Z.of_nat k.
Proof. intros H. unfold zlen. rewrite skipn_length. lia. Qed.

Lemma sub_assign_all lim nums : forall fs defined crcs,
  length nums = length fs -> no_folder_digest fs -> Forall (fun n => 0 <= n <= lim) nums ->
  zlen defined = sumZ nums -> zlen crcs = sumZ nums ->
  sub_assign_digests lim nums fs defined crcs = Ok (defined, crcs).
Proof.
  induction nums as [|n nr IH]; intros fs defined crcs Hl Hd Hn H1 H2.
  - rewrite sumZ_nil in *. destruct defined; [|rewrite zlen_cons in H1; pose proof (zlen_nonneg defined); lia].
    destruct crcs; [|rewrite zlen_cons in H2; pose proof (zlen_nonneg crcs); lia]. reflexivity.
  - destruct fs as [|f fr]; [discriminate|]. inversion Hd as [|? ? Hf Hfr]; subst.
    inversion Hn as [|? ? Hn0 Hnr]; subst. rewrite sumZ_cons in *.
    assert (Hs : 0 <= sumZ nr).
    { clear - Hnr. induction Hnr; [rewrite sumZ_nil; lia|rewrite sumZ_cons; lia]. }
    cbn [sub_assign_digests]. rewrite Hf, andb_false_r.
    destruct (lim <? n) eqn:E; [lia|]. cbv zeta.
    replace (Z.to_nat (Z.max n 0)) with (Z.to_nat n) by lia.
    destruct ((length defined <? Z.to_nat n)%nat || (length crcs <? Z.to_nat n)%nat) eqn:E2;
      [unfold zlen in *; lia|].
    rewrite (IH fr); [|cbn [length] in Hl; lia|exact Hfr|exact Hnr| | ];
      [|rewrite zlen_skipn by (unfold zlen in *; lia); lia|rewrite zlen_skipn by (unfold zlen in *; lia); lia].
    cbn [bind]. rewrite !firstn_skipn. reflexivity.
Qed.

Lemma rd_crcs_wr l z r : wr_list (wr_fixed 4) l = Ok z -> rd_crcs (zlen l) (z ++ r) = Ok (l, r).
Proof.
  intros Hw. unfold rd_crcs. destruct (zlen l <=? 0) eqn:E.
  - destruct l; [|rewrite zlen_cons in E; pose proof (zlen_nonneg l); lia].
    cbn in Hw. apply Ok_inj in Hw. subst z.
    change (4 * zlen (@nil Z)) with (zlen (@nil Z)). rewrite (dropZ_app (@nil Z) r). reflexivity.
  - pose proof (wr_list_fixed_length 4 l z Hw) as Hz.
    destruct (zlen (z ++ r) <? 4 * zlen l) eqn:E2; [rewrite zlen_app in E2; pose proof (zlen_nonneg r); lia|].
    apply rd_many_fixed; [lia|exact Hw].
Qed.

Lemma wr_list_numbers_range l x : wr_list wr_number l = Ok x -> Forall (fun n => 0 <= n < 2^64) l.
Proof.
  revert x. induction l as [|n l IH]; intros x H; [constructor|].
  apply wr_list_cons_inv in H as [a [b [Ha [Hb _]]]]. apply wr_number_inv in Ha as [Hn _].
  constructor; [exact Hn|eapply IH; exact Hb].
Qed.

Lemma not_solid_ones nums : existsb (fun n => negb (n =? 1)) nums = false -> nums = repeat 1 (length nums).
Proof.
  induction nums as [|n nr IH]; intros H; [reflexivity|].
  cbn [existsb] in H. apply orb_false_iff in H as [Hn Hr]. cbn [length repeat]. f_equal; [lia|apply IH; exact Hr].
Qed.

Lemma not_solid_not_multi nums :
  existsb (fun n => negb (n =? 1)) nums = false -> existsb (fun n => 1 <? n) nums = false.
Proof.
  induction nums as [|n nr IH]; intros H; [reflexivity|].
  cbn [existsb] in *. apply orb_false_iff in H as [Hn Hr]. rewrite (IH Hr). lia.
Qed.

Lemma sum_bound_each lim nums : Forall (fun n => 0 <= n) nums -> sumZ nums <= lim ->
  Forall (fun n => 0 <= n <= lim) nums /\ 0 <= sumZ nums.
Proof.
  induction 1 as [|n nr Hn Hnr IH]; intros Hs; [split; [constructor|rewrite sumZ_nil; lia]|].
  rewrite sumZ_cons in *.
  assert (H0 : 0 <= sumZ nr). { clear - Hnr. induction Hnr; [rewrite sumZ_nil; lia|rewrite sumZ_cons; lia]. }
  destruct IH as [IH _]; [lia|]. split; [constructor; [lia|exact IH]|lia].
Qed.

Lemma existsb_lim_false lim nums : Forall (fun n => 0 <= n <= lim) nums -> existsb (fun n => lim <? n) nums = false.
Proof. induction 1 as [|n nr Hn _ IH]; [reflexivity|]. cbn [existsb]. rewrite IH. lia. Qed.

Lemma map_const_repeat {A B} (c : B) (l : list A) : map (fun _ => c) l = repeat c (length l).
Proof. induction l as [|x l IH]; [reflexivity|]. cbn [map length repeat]. rewrite IH. reflexivity. Qed.

Lemma any_true_nonempty l : any_true l = true -> (length l =? 0)%nat = false.
Proof. destruct l; [discriminate|reflexivity]. Qed.

Definition defined_values (dg : list Z) (dd : list bool) : list Z :=
  map fst (filter (fun p : Z * bool => snd p) (combine dg dd)).

Lemma defined_values_count dd : forall dg, (length dd <= length dg)%nat ->
  zlen (defined_values dg dd) = count_true dd /\
  expand_crcs dd (defined_values dg dd) = Ok (mask_digests dg dd) /\
  zlen (mask_digests dg dd) = zlen dd.
Proof.
  unfold defined_values, mask_digests.
  induction dd as [|d dd IH]; intros dg Hl.
  - destruct dg; repeat split; reflexivity.
  - destruct dg as [|c dg]; [cbn [length] in Hl; lia|]. cbn [length] in Hl.
    destruct (IH dg ltac:(lia)) as [H1 [H2 H3]].
    cbn [combine filter map snd fst]. rewrite count_true_cons, !zlen_cons. destruct d; cbn [map fst snd expand_crcs].
    + rewrite zlen_cons, H1, H2, H3. cbn [bind]. repeat split; lia.
    + rewrite H1, H2, H3. cbn [bind]. repeat split; lia.
Qed.

(* without folder CRCs the per-folder default digests are all undefined / zero *)
Lemma default_digests_nodigest nums : forall fs,
  length nums = length fs -> no_folder_digest fs -> Forall (fun n => 0 <= n) nums ->
  default_digests nums fs = (repeat false (Z.to_nat (sumZ nums)), repeat 0 (Z.to_nat (sumZ nums))).
Proof.
  induction nums as [|n nr IH]; intros fs Hl Hd Hn; [reflexivity|].
  destruct fs as [|f fr]; [discriminate|]. inversion Hd as [|? ? Hf Hfr]; subst.
  inversion Hn as [|? ? Hn0 Hnr]; subst.
  assert (Hs : 0 <= sumZ nr).
  { clear - Hnr. induction Hnr; [rewrite sumZ_nil; lia|rewrite sumZ_cons; lia]. }
  cbn [default_digests]. rewrite (IH fr) by (cbn [length] in Hl; auto; lia).
  rewrite Hf, andb_false_r, sumZ_cons.
  replace (Z.to_nat (n + sumZ nr)) with (Z.to_nat n + Z.to_nat (sumZ nr))%nat by lia.
  rewrite !repeat_app. reflexivity.
Qed.

Lemma nodigest_result dd (dg : list Z) total :
  any_true dd = false -> zlen dd = total -> zlen dg = total ->
  repeat false (Z.to_nat total) = dd /\ repeat 0 (Z.to_nat total) = mask_digests dg dd.
Proof.
  intros Hd H1 H2. split.
  - rewrite (any_true_false_all _ Hd). unfold zlen in *. f_equal. lia.
  - subst total. unfold mask_digests. revert dg H2 Hd. induction dd as [|d dd IH]; intros dg H2 Hd.
    + destruct dg; reflexivity.
    + destruct dg as [|c dg]; [rewrite zlen_cons, zlen_nil in H2; pose proof (zlen_nonneg dd); lia|].
      cbn [any_true existsb] in Hd. apply orb_false_iff in Hd as [-> Hd].
      rewrite !zlen_cons in H2. rewrite zlen_cons.
      replace (Z.to_nat (1 + zlen dd)) with (S (Z.to_nat (zlen dd))) by (pose proof (zlen_nonneg dd); lia).
      cbn [repeat combine map snd fst]. f_equal. apply IH; [lia|exact Hd].
Qed.

Ltac stageA :=
  match goal with
  | Ha : _ = Ok ?a, Hlen : length (s_nums ?s) = length ?fs |- _ =>
    destruct (sub_solid s) eqn:Es;
    [ let x0 := fresh "x0" in let Hx0 := fresh "Hx0" in
      bind_inv Ha x0 Hx0; apply Ok_inj in Ha; subst a; norm_app; cbn [rd_pid bind];
      replace (zlen fs) with (zlen (s_nums s)) by (unfold zlen; lia);
      rewrite (rd_many_numbers _ _ _ Hx0); cbn [bind]
    | apply Ok_inj in Ha; subst a; norm_app; cbn [rd_pid bind];
      unfold sub_solid in Es; rewrite <- Hlen, <- (not_solid_ones _ Es) ]
  end.

Theorem substreams_roundtrip lim fs s bs :
  no_folder_digest fs -> wf_sub lim fs s = true -> (length (s_nums s) =? 0)%nat = false ->
  write_substreams s = Ok bs ->
  exists body, bs = 8 :: body /\
    forall r, parse_substreams lim fs (body ++ r) = Ok (norm_sub s, r).
Proof.
  unfold wf_sub, write_substreams. intros Hnd Hwf Hne Hw. rewrite Hne in Hw.
  apply andb_true_iff in Hwf as [Hwf Hsz]. apply andb_true_iff in Hwf as [Hwf Hdg].
  apply andb_true_iff in Hwf as [Hwf Hdd]. apply andb_true_iff in Hwf as [Hlen Hlim].
  apply Nat.eqb_eq in Hlen.
  cbv zeta in Hw. fold (sub_solid s) (sub_multi s) in Hw.
  bind_inv Hw a Ha. bind_inv Hw b Hb. bind_inv Hw c Hc. apply Ok_inj in Hw. subst bs.
  cbn [app]. eexists. split; [reflexivity|]. intros r.
  (* facts about the counts *)
  assert (Hnn : Forall (fun n => 0 <= n) (s_nums s)).
  { destruct (sub_solid s) eqn:Es.
    - bind_inv Ha x Hx. apply wr_list_numbers_range in Hx. eapply Forall_impl; [|exact Hx]. cbv beta. intros; lia.
    - unfold sub_solid in Es. rewrite (not_solid_ones _ Es). apply Forall_forall. intros n Hn.
      apply repeat_spec in Hn. lia. }
  destruct (sum_bound_each lim _ Hnn ltac:(lia)) as [Hbound Hsum0].
  pose proof (existsb_lim_false lim _ Hbound) as Hex.
  pose proof (sub_digest_counts_nodigest _ fs Hlen Hnd) as Hcnt.
  pose proof (default_digests_nodigest _ fs Hlen Hnd Hnn) as Hdef.
  unfold parse_substreams. cbv zeta. unfold norm_sub.
  (* stage A: NUM_UNPACK_STREAM, present iff some count differs from 1 *)
  (* the three writer stages, by cases *)
  destruct (sub_multi s) eqn:Em; destruct (any_true (s_digestsdefined s)) eqn:Ed.
  - (* SIZE and CRC *)
    destruct (s_sizes s) as [sz|] eqn:Esz; [|discriminate]. destruct sz as [|s0 sz']; [discriminate|].
    bind_inv Hb x Hx. apply Ok_inj in Hb. subst b. bind_inv Hc z Hz. apply Ok_inj in Hc. subst c.
    stageA; [|unfold sub_multi in Em; rewrite (not_solid_not_multi _ Es) in Em; discriminate].
    cbn [rd_pid bind]. rewrite Hex.
    bstep (rd_sub_sizes_wr _ fs _ x (10 :: wr_boolean (s_digestsdefined s) true ++ z ++ 0 :: r) Hsz Hx).
    cbn [rd_pid bind]. rewrite Hcnt. cbn [bind].
    replace (sumZ (s_nums s)) with (zlen (s_digestsdefined s)) at 1 by lia.
    rewrite rd_boolean_wr_boolean by (intros _ _; lia). cbn [bind].
    destruct (defined_values_count (s_digestsdefined s) (s_digests s) ltac:(unfold zlen in *; lia)) as [D1 [D2 D3]].
    fold (defined_values (s_digests s) (s_digestsdefined s)) in Hz.
    rewrite <- D1. bstep (rd_crcs_wr _ _ (0 :: r) Hz). rewrite D2. cbn [bind].
    rewrite (sub_assign_all lim _ fs _ _ Hlen Hnd Hbound) by lia. cbn [bind rd_pid].
    rewrite (any_true_nonempty _ Ed). reflexivity.
  - (* SIZE only *)
    destruct (s_sizes s) as [sz|] eqn:Esz; [|discriminate]. destruct sz as [|s0 sz']; [discriminate|].
    bind_inv Hb x Hx. apply Ok_inj in Hb. subst b. apply Ok_inj in Hc. subst c.
    stageA; [|unfold sub_multi in Em; rewrite (not_solid_not_multi _ Es) in Em; discriminate].
    cbn [rd_pid bind]. rewrite Hex.
    bstep (rd_sub_sizes_wr _ fs _ x (0 :: r) Hsz Hx).
    cbn [rd_pid bind]. rewrite Hcnt. cbn [bind length Nat.eqb].
    destruct (lim <? sumZ (s_nums s)) eqn:El; [lia|]. rewrite Hdef.
    destruct (nodigest_result _ (s_digests s) (sumZ (s_nums s)) Ed ltac:(lia) ltac:(lia)) as [R1 R2].
    rewrite R1, R2. reflexivity.
  - (* CRC only *)
    apply Ok_inj in Hb. subst b. bind_inv Hc z Hz. apply Ok_inj in Hc. subst c.
    stageA.
    all: cbn [rd_pid bind]; rewrite Hex; cbn [bind]; rewrite Hcnt; cbn [bind].
    all: replace (sumZ (s_nums s)) with (zlen (s_digestsdefined s)) at 1 by lia.
    all: rewrite rd_boolean_wr_boolean by (intros _ _; lia); cbn [bind].
    all: destruct (defined_values_count (s_digestsdefined s) (s_digests s) ltac:(unfold zlen in *; lia)) as [D1 [D2 D3]].
    all: fold (defined_values (s_digests s) (s_digestsdefined s)) in Hz.
    all: rewrite <- D1; bstep (rd_crcs_wr _ _ (0 :: r) Hz); rewrite D2; cbn [bind].
    all: rewrite (sub_assign_all lim _ fs _ _ Hlen Hnd Hbound) by lia; cbn [bind rd_pid].
    all: rewrite (any_true_nonempty _ Ed); reflexivity.
  - (* neither *)
    apply Ok_inj in Hb. subst b. apply Ok_inj in Hc. subst c.
    stageA.
    all: cbn [rd_pid bind]; rewrite Hex; cbn [bind]; rewrite Hcnt; cbn [bind length Nat.eqb].
    all: destruct (lim <? sumZ (s_nums s)) eqn:El; [lia|]; rewrite Hdef.
    all: destruct (nodigest_result _ (s_digests s) (sumZ (s_nums s)) Ed ltac:(lia) ltac:(lia)) as [R1 R2].
    all: rewrite R1, R2; reflexivity.
Qed.

(* ================================================================== *)
(* StreamsInfo                                                         *)
(* ================================================================== *)
Lemma wf_sub_sizes_norm nums : forall fs sizes,
  wf_sub_sizes nums (map norm_folder fs) sizes = wf_sub_sizes nums fs sizes.
Proof.
  induction nums as [|n nr IH]; intros fs sizes; destruct fs as [|f fr]; try reflexivity.
  cbn [map wf_sub_sizes]. rewrite !IH. reflexivity.
Qed.
Lemma wf_sub_norm lim fs s : wf_sub lim (map norm_folder fs) s = wf_sub lim fs s.
Proof.
  unfold wf_sub. rewrite map_length. destruct (sub_multi s); [|reflexivity].
  destruct (s_sizes s); [|reflexivity]. rewrite wf_sub_sizes_norm. reflexivity.
Qed.
Lemma no_folder_digest_norm fs : no_folder_digest (map norm_folder fs).
Proof. apply Forall_forall. intros f Hf. apply in_map_iff in Hf as [g [<- _]]. reflexivity. Qed.

Ltac parse_fin :=
  norm_app; cbn [rd_pid bind];
  repeat match goal with
  | H : forall r, parse_packinfo _ (_ ++ r) = _ |- _ => rewrite H; clear H; cbn [rd_pid bind]
  | H : forall r, parse_unpackinfo _ (_ ++ r) = _ |- _ => rewrite H; clear H; cbn [rd_pid bind]
  | H : forall r, parse_substreams _ _ (_ ++ r) = _ |- _ => rewrite H; clear H; cbn [rd_pid bind]
  end;
  reflexivity.

Theorem streams_roundtrip lim en s bs :
  wf_streams lim en s = true -> write_streams en s = Ok bs ->
  exists body, bs = 4 :: body /\
    forall r, parse_streams lim (body ++ r) = Ok (norm_streams en s, r).
Proof.
  unfold wf_streams, write_streams, norm_streams, sub_written. destruct s as [pack folders sub].
  cbn [si_pack si_folders si_sub]. intros Hwf Hw.
  apply andb_true_iff in Hwf as [Hwf Hws]. apply andb_true_iff in Hwf as [Hwp Hwf].
  bind_inv Hw a Ha. bind_inv Hw b Hb. bind_inv Hw c Hc. apply Ok_inj in Hw. subst bs.
  cbn [app]. eexists. split; [reflexivity|]. intros r. unfold parse_streams.
  destruct pack as [p|];
    [destruct (packinfo_roundtrip lim en p a Hwp Ha) as [bp [-> Hp]]|apply Ok_inj in Ha; subst a];
  (destruct folders as [fs|];
    [destruct (unpackinfo_roundtrip lim fs b Hwf Hb) as [bf [-> Hf]]|apply Ok_inj in Hb; subst b]);
  (destruct sub as [x|];
    [destruct (length (s_nums x) =? 0)%nat eqn:Ene;
      [unfold write_substreams in Hc; rewrite Ene in Hc; apply Ok_inj in Hc; subst c
      |first [discriminate Hws
             |rewrite <- wf_sub_norm in Hws;
              destruct (substreams_roundtrip lim (map norm_folder fs) x c (no_folder_digest_norm fs) Hws Ene Hc)
                as [bsb [-> Hs]]]]
    |apply Ok_inj in Hc; subst c]);
  cbn [option_map]; parse_fin.
Qed.

(* ================================================================== *)
(* FilesInfo                                                           *)
(* ================================================================== *)
(* "parse_file_props succeeds with any fuel >= k" *)
Definition PF (lim : Z) (k : nat) (files : list fileent) (ef : list bool) (ne : Z) (bs : bytes)
              (res : (list fileent * list bool) * bytes) : Prop :=
  forall fuel, (k <= fuel)%nat -> parse_file_props fuel lim files ef ne bs = Ok res.

Lemma PF_end lim files ef ne r : PF lim 1 files ef ne (0 :: r) ((files, ef), r).
Proof. intros fuel Hf. destruct fuel; [lia|]. reflexivity. Qed.

Lemma PF_weaken lim k files ef ne bs res : PF lim k files ef ne bs res -> PF lim (S k) files ef ne bs res.
Proof. intros H fuel Hf. apply H. lia. Qed.

Lemma PF_weaken_le lim k k' files ef ne bs res : (k <= k')%nat ->
  PF lim k files ef ne bs res -> PF lim k' files ef ne bs res.
Proof. intros Hk H fuel Hf. apply H. lia. Qed.

Lemma PF_record lim k p sz body rest files ef ne fs' ef' ne' res :
  p <> 0 -> p <> 25 -> wr_number (zlen body) = Ok sz ->
  parse_file_prop lim p body files ef ne = Ok (fs', ef', ne') ->
  PF lim k fs' ef' ne' rest res ->
  PF lim (S k) files ef ne (p :: sz ++ body ++ rest) res.
Proof.
  intros Hp0 Hp25 Hsz Hprop Hrest fuel Hf. destruct fuel as [|fuel]; [lia|].
  cbn [parse_file_props rd_pid bind].
  assert (Hgo : (do (size, bs0) <- rd_number (sz ++ body ++ rest);
                 if p =? 25 then parse_file_props fuel lim files ef ne (dropZ size bs0)
                 else do (fs, ef0, ne0) <- parse_file_prop lim p (takeZ size bs0) files ef ne;
                      parse_file_props fuel lim fs ef0 ne0 (dropZ size bs0)) = Ok res).
  { bstep (rd_number_wr _ _ (body ++ rest) Hsz). destruct (p =? 25) eqn:E; [lia|].
    rewrite takeZ_app, dropZ_app, Hprop. cbn [bind]. apply Hrest. lia. }
  destruct p as [|q|q]; [contradiction|exact Hgo|exact Hgo].
Qed.

Lemma zlen_repeatZ x n : zlen (repeatZ x n) = Z.of_nat n.
Proof. unfold zlen. induction n; cbn [repeatZ length]; lia. Qed.

(* the kDummy padding record is skipped whatever its length *)
Lemma PF_dummy lim k d rest files ef ne res :
  0 <= d < 128 -> PF lim k files ef ne rest res ->
  PF lim (S k) files ef ne (25 :: d :: repeatZ 0 (Z.to_nat d) ++ rest) res.
Proof.
  intros Hd Hrest fuel Hf. destruct fuel as [|fuel]; [lia|].
  cbn [parse_file_props rd_pid bind]. rewrite rd_number_small by exact Hd. cbn [bind Z.eqb Pos.eqb].
  rewrite dropZ_app_len by (rewrite zlen_repeatZ; lia). apply Hrest. lia.
Qed.

Lemma pad_cases p :
  let padlen0 := (- p) mod 4 in
  let padlen := if (0 <? padlen0) && (padlen0 <=? 2) then padlen0 + 4 else padlen0 in
  let pad := if 2 <? padlen then [25; padlen - 2] ++ repeatZ 0 (Z.to_nat (padlen - 2)) else [] in
  pad = [] \/ exists d, 0 <= d < 128 /\ pad = 25 :: d :: repeatZ 0 (Z.to_nat d).
Proof.
  cbv zeta. pose proof (Z.mod_pos_bound (- p) 4 ltac:(lia)) as Hm.
  set (m := (- p) mod 4) in *. clearbody m.
  destruct ((0 <? m) && (m <=? 2)) eqn:E1.
  - destruct (2 <? m + 4) eqn:E2; [|lia]. right. exists (m + 4 - 2). split; [lia|reflexivity].
  - destruct (2 <? m) eqn:E2; [|left; reflexivity]. right. exists (m - 2). split; [lia|reflexivity].
Qed.

(* parser states after each record *)
Definition st1 (e : fileent) : fileent := mkFile (e_emptystream e) None None None None None.
Definition st2 (e : fileent) : fileent := mkFile (e_emptystream e) (e_name e) None None None None.
(* after the CREATION_TIME record (when cd), the LAST_ACCESS_TIME record (when ad), LAST_WRITE_TIME *)
Definition st2c (cd : bool) (e : fileent) : fileent :=
  mkFile (e_emptystream e) (e_name e) (tnorm cd (e_ctime e)) None None None.
Definition st2a (cd ad : bool) (e : fileent) : fileent :=
  mkFile (e_emptystream e) (e_name e) (tnorm cd (e_ctime e)) (tnorm ad (e_atime e)) None None.
Definition st3 (cd ad : bool) (e : fileent) : fileent :=
  mkFile (e_emptystream e) (e_name e) (tnorm cd (e_ctime e)) (tnorm ad (e_atime e)) (Some (flat_opt (e_mtime e))) None.

Lemma zip_update_empty files :
  zip_update set_empty (repeat empty_file (length files)) (map e_emptystream files) = map st1 files.
Proof. induction files as [|e fs IH]; [reflexivity|]. cbn [length repeat map zip_update]. rewrite IH. reflexivity. Qed.

Lemma no_empty_st1 files :
  any_true (map e_emptystream files) = false -> repeat empty_file (length files) = map st1 files.
Proof.
  induction files as [|e fs IH]; intros H; [reflexivity|].
  cbn [map any_true existsb] in H. apply orb_false_iff in H as [He Hr].
  cbn [length repeat map]. rewrite (IH Hr). unfold st1. rewrite He. reflexivity.
Qed.

(* EMPTY_STREAM *)
Lemma prop14 lim files ef ne :
  parse_file_prop lim 14 (wr_bits (map e_emptystream files)) (repeat empty_file (length files)) ef ne =
  Ok (map st1 files, ef, ne + count_true (map e_emptystream files)).
Proof.
  unfold parse_file_prop. cbv zeta. change (14 =? 14) with true. cbv iota.
  unfold rd_boolean. rewrite zlen_repeat, <- (map_length e_emptystream files).
  fold (zlen (map e_emptystream files)).
  rewrite <- (app_nil_r (wr_bits _)), rd_bits_wr_bits. cbn [bind]. rewrite map_length, zip_update_empty.
  reflexivity.
Qed.

(* EMPTY_FILE *)
Lemma norm_emptyfiles_length files ef :
  length (norm_emptyfiles files ef) = Z.to_nat (count_true (map e_emptystream files)).
Proof. unfold norm_emptyfiles. cbv zeta. rewrite firstn_length, app_length, repeat_length. lia. Qed.

Lemma prop15 lim files st ef0 ef :
  parse_file_prop lim 15 (wr_bits (norm_emptyfiles files ef)) st ef0 (0 + count_true (map e_emptystream files)) =
  Ok (st, norm_emptyfiles files ef, 0 + count_true (map e_emptystream files)).
Proof.
  unfold parse_file_prop. cbv zeta. change (15 =? 14) with false. change (15 =? 15) with true. cbv iota.
  unfold rd_boolean.
  replace (0 + count_true (map e_emptystream files)) with (zlen (norm_emptyfiles files ef)) at 1.
  2:{ unfold zlen. rewrite norm_emptyfiles_length. pose proof (count_true_bounds (map e_emptystream files)). lia. }
  rewrite <- (app_nil_r (wr_bits _)), rd_bits_wr_bits. reflexivity.
Qed.

Lemma norm_emptyfiles_idem cd ad files ef (ef0 : list bool) :
  (ef0 = norm_emptyfiles files ef \/ (ef0 = [] /\ any_true (norm_emptyfiles files ef) = false)) ->
  let nes := Z.to_nat (count_true (map e_emptystream (map (norm_file cd ad) files))) in
  firstn nes (ef0 ++ repeat false nes) = norm_emptyfiles files ef.
Proof.
  intros H. cbv zeta. rewrite map_map. cbn [norm_file e_emptystream].
  change (map (fun x => e_emptystream x) files) with (map e_emptystream files).
  pose proof (norm_emptyfiles_length files ef) as Hl.
  destruct H as [-> | [-> Hf]].
  - apply firstn_app_len. exact Hl.
  - cbn [app]. rewrite (any_true_false_all _ Hf), Hl.
    rewrite firstn_all2 by (rewrite repeat_length; lia). reflexivity.
Qed.

(* NAME *)
Definition names_of (files : list fileent) : list (list Z) :=
  flat_map (fun f => match e_name f with Some n => [n] | None => [] end) files.

Lemma rd_names_wr files : forall body r,
  all_named files = true -> wr_list wr_utf16 (names_of files) = Ok body ->
  rd_names (map st1 files) (body ++ r) = Ok (map st2 files, r).
Proof.
  induction files as [|e fs IH]; intros body r Hn Hw.
  - cbn in Hw. apply Ok_inj in Hw. subst. reflexivity.
  - cbn [all_named forallb] in Hn. apply andb_true_iff in Hn as [He Hr].
    destruct (e_name e) as [n|] eqn:En; [|discriminate].
    unfold names_of in Hw. cbn [flat_map] in Hw. rewrite En in Hw. cbn [app] in Hw.
    apply wr_list_cons_inv in Hw as [a [b [Ha [Hb ->]]]].
    cbn [map rd_names]. norm_app. bstep (rd_utf16_wr_utf16 n a (b ++ r) He Ha).
    bstep (IH b r Hr Hb). unfold set_name, st1, st2. cbn [e_emptystream e_ctime e_atime e_mtime e_attr].
    rewrite En. reflexivity.
Qed.

Lemma none_named_names files : none_named files = true -> names_of files = [] /\ map st1 files = map st2 files.
Proof.
  induction files as [|e fs IH]; intros H; [auto|].
  cbn [none_named forallb] in H. apply andb_true_iff in H as [He Hr]. destruct (IH Hr) as [H1 H2].
  destruct (e_name e) eqn:En; [discriminate|]. unfold names_of in *. cbn [flat_map map]. rewrite En, H1, H2.
  split; [reflexivity|]. unfold st1, st2. rewrite En. reflexivity.
Qed.

Lemma prop17 lim files body ef ne :
  all_named files = true -> wr_list wr_utf16 (names_of files) = Ok body ->
  parse_file_prop lim 17 (0 :: body) (map st1 files) ef ne = Ok (map st2 files, ef, ne).
Proof.
  intros Hn Hw. unfold parse_file_prop. cbv zeta.
  change (17 =? 14) with false. change (17 =? 15) with false. change (17 =? 17) with true. cbv iota.
  cbn [rd_pid bind]. rewrite <- (app_nil_r body), (rd_names_wr files body [] Hn Hw). reflexivity.
Qed.

(* time and attribute vectors *)
Lemma rd_per_file_wr n sel set (g : fileent -> fileent) files : forall vals r,
  wr_list (fun f => if opt_defined (sel f) then wr_fixed n (opt_value (sel f)) else Ok []) files = Ok vals ->
  rd_per_file n (map g files) (map (fun f => opt_defined (sel f)) files) set (vals ++ r) =
    Ok (map (fun e => set (g e) (flat_opt (sel e))) files, r) /\
  zlen vals = Z.of_nat n * count_true (map (fun f => opt_defined (sel f)) files).
Proof.
  induction files as [|e fs IH]; intros vals r Hw.
  - cbn in Hw. apply Ok_inj in Hw. subst. split; [reflexivity|]. unfold count_true, zlen. cbn. lia.
  - apply wr_list_cons_inv in Hw as [a [b [Ha [Hb ->]]]]. destruct (IH b r Hb) as [IH1 IH2].
    cbn [map rd_per_file]. rewrite count_true_cons, zlen_app, IH2.
    destruct (sel e) as [[v|]|] eqn:Es; cbn [opt_defined opt_value flat_opt] in *.
    + norm_app. bstep (rd_fixed_wr n v a (b ++ r) Ha). bstep IH1.
      apply wr_fixed_length in Ha. split; [reflexivity|unfold zlen; lia].
    + apply Ok_inj in Ha. subst a. cbn [app]. bstep IH1. split; [reflexivity|rewrite zlen_nil; lia].
    + apply Ok_inj in Ha. subst a. cbn [app]. bstep IH1. split; [reflexivity|rewrite zlen_nil; lia].
Qed.

(* CREATION_TIME (18), LAST_ACCESS_TIME (19), LAST_WRITE_TIME (20): one reader, one writer *)
Lemma prop_time lim p sel (g : fileent -> fileent) files vals ef ne :
  p = 18 \/ p = 19 \/ p = 20 ->
  zlen files <= lim ->
  wr_list (fun f => if opt_defined (sel f) then wr_fixed 8 (opt_value (sel f)) else Ok []) files = Ok vals ->
  parse_file_prop lim p (wr_boolean (map (fun f => opt_defined (sel f)) files) true ++ [0] ++ vals)
                  (map g files) ef ne = Ok (map (fun e => set_time p (g e) (flat_opt (sel e))) files, ef, ne).
Proof.
  intros Hp Hl Hw. unfold parse_file_prop. cbv zeta.
  assert (E14 : (p =? 14) = false) by lia. assert (E15 : (p =? 15) = false) by lia.
  assert (E17 : (p =? 17) = false) by lia.
  assert (Et : (p =? 18) || (p =? 19) || (p =? 20) = true) by lia.
  rewrite E14, E15, E17, Et.
  rewrite zlen_map, <- (zlen_map (fun f => opt_defined (sel f)) files).
  rewrite rd_boolean_wr_boolean by (intros _ _; rewrite zlen_map; lia). cbn [bind app rd_pid].
  rewrite <- (app_nil_r vals).
  destruct (rd_per_file_wr 8 sel (set_time p) g files vals [] Hw) as [H1 _].
  rewrite H1. reflexivity.
Qed.

Lemma prop20 lim cd ad files vals ef ne :
  zlen files <= lim ->
  wr_list (fun f => if opt_defined (e_mtime f) then wr_fixed 8 (opt_value (e_mtime f)) else Ok []) files = Ok vals ->
  parse_file_prop lim 20 (wr_boolean (map (fun f => opt_defined (e_mtime f)) files) true ++ [0] ++ vals)
                  (map (st2a cd ad) files) ef ne = Ok (map (st3 cd ad) files, ef, ne).
Proof. intros Hl Hw. rewrite (prop_time lim 20 e_mtime (st2a cd ad) files vals ef ne) by (auto || lia). reflexivity. Qed.

Lemma prop21 lim cd ad files vals ef ne :
  zlen files <= lim ->
  wr_list (fun f => if opt_defined (e_attr f) then wr_fixed 4 (opt_value (e_attr f)) else Ok []) files = Ok vals ->
  parse_file_prop lim 21 (wr_boolean (map (fun f => opt_defined (e_attr f)) files) true ++ [0] ++ vals)
                  (map (st3 cd ad) files) ef ne = Ok (map (norm_file cd ad) files, ef, ne).
Proof.
  intros Hl Hw. unfold parse_file_prop. cbv zeta.
  change (21 =? 14) with false. change (21 =? 15) with false. change (21 =? 17) with false.
  change ((21 =? 18) || (21 =? 19) || (21 =? 20)) with false. change (21 =? 21) with true. cbv iota.
  rewrite zlen_map, <- (zlen_map (fun f => opt_defined (e_attr f)) files).
  rewrite rd_boolean_wr_boolean by (intros _ _; rewrite zlen_map; lia). cbn [bind app rd_pid].
  rewrite <- (app_nil_r vals).
  destruct (rd_per_file_wr 4 e_attr set_attr (st3 cd ad) files vals [] Hw) as [H1 _].
  rewrite H1. reflexivity.
Qed.

Lemma vector_record_size n defined vals total :
  zlen defined = total -> zlen vals = n * count_true defined ->
  zlen (wr_boolean defined true ++ [0] ++ vals) =
    count_true defined * n + 2 + (if all_true defined then 0 else (total + 7) / 8).
Proof.
  intros H1 H2. rewrite !zlen_app, wr_boolean_length, H2, H1. change (zlen [0]) with 1. destruct (all_true defined); lia.
Qed.

(* a time record as written by _write_times is read back by one more round of the property loop *)
Lemma PF_time lim k p sel (g : fileent -> fileent) files rec rest ef ne res :
  p = 18 \/ p = 19 \/ p = 20 -> zlen files <= lim ->
  write_times p sel files = Ok rec ->
  PF lim k (map (fun e => set_time p (g e) (flat_opt (sel e))) files) ef ne rest res ->
  PF lim (S k) (map g files) ef ne (rec ++ rest) res /\ 3 <= zlen rec.
Proof.
  intros Hp Hl Hw Hrest. unfold write_times in Hw. cbv zeta in Hw.
  bind_inv Hw sz Hsz. bind_inv Hw vals Hv. apply Ok_inj in Hw. subst rec.
  set (defined := map (fun f => opt_defined (sel f)) files) in *.
  split.
  - replace (([p] ++ sz ++ wr_boolean defined true ++ [0] ++ vals) ++ rest)
      with (p :: sz ++ (wr_boolean defined true ++ [0] ++ vals) ++ rest) by (norm_app; reflexivity).
    destruct (rd_per_file_wr 8 sel (set_time p) g files vals [] Hv) as [_ Hlen]. fold defined in Hlen.
    change (Z.of_nat 8) with 8 in Hlen.
    eapply PF_record; [lia|lia| |apply prop_time; [exact Hp|lia|exact Hv]|exact Hrest].
    rewrite (vector_record_size 8 defined vals (zlen files) (zlen_map _ _) Hlen).
    exact Hsz.
  - apply wr_number_length in Hsz. rewrite !zlen_app.
    change (zlen [p]) with 1. change (zlen [0]) with 1.
    pose proof (zlen_nonneg vals). pose proof (zlen_nonneg (wr_boolean defined true)). lia.
Qed.

(* CREATION_TIME / LAST_ACCESS_TIME: written exactly when some entry has a defined value *)
Lemma PF_time_opt lim k p sel (g g' : fileent -> fileent) files rec rest ef ne res :
  p = 18 \/ p = 19 -> zlen files <= lim ->
  write_times_opt p sel files = Ok rec ->
  (forall e, g' e = if has_time sel files then set_time p (g e) (flat_opt (sel e)) else g e) ->
  PF lim k (map g' files) ef ne rest res ->
  PF lim (k + length rec) (map g files) ef ne (rec ++ rest) res.
Proof.
  intros Hp Hl Hw Hg Hrest. unfold write_times_opt in Hw.
  destruct (has_time sel files) eqn:E.
  - rewrite (map_ext _ _ Hg) in Hrest.
    destruct (PF_time lim k p sel g files rec rest ef ne res ltac:(lia) Hl Hw Hrest) as [H1 H2].
    eapply PF_weaken_le; [|exact H1]. unfold zlen in H2. lia.
  - apply Ok_inj in Hw. subst rec. cbn [app length]. rewrite Nat.add_0_r.
    rewrite (map_ext _ _ Hg) in Hrest. exact Hrest.
Qed.

Theorem files_roundtrip lim pos files ef bs :
  wf_files lim files = true -> write_files pos files ef = Ok bs ->
  exists body, bs = 5 :: body /\
    forall r, parse_files lim (body ++ r) = Ok ((norm_files files, norm_emptyfiles files ef), r).
Proof.
  unfold wf_files, write_files, norm_files. intros Hwf Hw.
  apply andb_true_iff in Hwf as [Hlim Hnames].
  remember (has_time e_ctime files) as cd eqn:Ecd. remember (has_time e_atime files) as ad eqn:Ead.
  bind_inv Hw n Hn. cbv zeta in Hw. fold (norm_emptyfiles files ef) in Hw. bind_inv Hw a Ha.
  set (pad := if 2 <? _ then _ else _) in Hw.
  assert (Hpad : pad = [] \/ exists d, 0 <= d < 128 /\ pad = 25 :: d :: repeatZ 0 (Z.to_nat d))
    by apply pad_cases.
  clearbody pad.
  bind_inv Hw nm Hnm. bind_inv Hw ct Hct. bind_inv Hw lat Hlat. bind_inv Hw tm Htm. bind_inv Hw at_ Hat.
  apply Ok_inj in Hw. subst bs.
  cbn [app]. eexists. split; [reflexivity|]. intros r.
  set (res := fun ef0 : list bool => ((map (norm_file cd ad) files, ef0), r)).
  (* END *)
  assert (H1 : forall ef0 ne, PF lim 1 (map (norm_file cd ad) files) ef0 ne (0 :: r) (res ef0)) by (intros; apply PF_end).
  (* ATTRIBUTES *)
  assert (H2 : forall ef0 ne, PF lim 2 (map (st3 cd ad) files) ef0 ne (at_ ++ 0 :: r) (res ef0)).
  { intros ef0 ne. unfold write_attributes in Hat. cbv zeta in Hat.
    bind_inv Hat sz Hsz. bind_inv Hat vals Hv. apply Ok_inj in Hat. subst at_.
    set (defined := map (fun f => opt_defined (e_attr f)) files) in *.
    replace (([21] ++ sz ++ wr_boolean defined true ++ [0] ++ vals) ++ 0 :: r)
      with (21 :: sz ++ (wr_boolean defined true ++ [0] ++ vals) ++ 0 :: r) by (norm_app; reflexivity).
    destruct (rd_per_file_wr 4 e_attr set_attr (st3 cd ad) files vals [] Hv) as [_ Hlen]. fold defined in Hlen.
    change (Z.of_nat 4) with 4 in Hlen.
    eapply PF_record; [lia|lia| |apply prop21; [lia|exact Hv]|apply H1].
    rewrite (vector_record_size 4 defined vals (zlen files) (zlen_map _ _) Hlen).
    rewrite <- count_true_all. unfold defined in *. rewrite zlen_map. exact Hsz. }
  (* LAST_WRITE_TIME *)
  assert (H3 : (forall ef0 ne, PF lim 3 (map (st2a cd ad) files) ef0 ne (tm ++ at_ ++ 0 :: r) (res ef0)) /\ 3 <= zlen tm).
  { split; [intros ef0 ne|].
    - eapply (PF_time lim 2 20 e_mtime (st2a cd ad) files tm (at_ ++ 0 :: r) ef0 ne (res ef0) ltac:(lia) ltac:(lia) Htm).
      apply H2.
    - eapply (PF_time lim 2 20 e_mtime (st2a cd ad) files tm (at_ ++ 0 :: r) [] 0 (res []) ltac:(lia) ltac:(lia) Htm).
      apply H2. }
  destruct H3 as [H3 Ltm].
  (* LAST_ACCESS_TIME, when some entry has one *)
  assert (H3a : forall ef0 ne, PF lim (3 + length lat) (map (st2c cd) files) ef0 ne (lat ++ tm ++ at_ ++ 0 :: r) (res ef0)).
  { intros ef0 ne. eapply (PF_time_opt lim 3 19 e_atime (st2c cd) (st2a cd ad)); [lia|lia|exact Hlat| |apply H3].
    intros e. rewrite <- Ead. destruct ad; reflexivity. }
  (* CREATION_TIME, when some entry has one *)
  assert (H3c : forall ef0 ne, PF lim (3 + length lat + length ct) (map st2 files) ef0 ne
                                  (ct ++ lat ++ tm ++ at_ ++ 0 :: r) (res ef0)).
  { intros ef0 ne. eapply (PF_time_opt lim _ 18 e_ctime st2 (st2c cd)); [lia|lia|exact Hct| |apply H3a].
    intros e. rewrite <- Ecd. destruct cd; reflexivity. }
  set (K := (3 + length lat + length ct)%nat) in *.
  (* NAME *)
  assert (H4 : forall ef0 ne, PF lim (S K) (map st1 files) ef0 ne (nm ++ ct ++ lat ++ tm ++ at_ ++ 0 :: r) (res ef0)).
  { intros ef0 ne. unfold write_names in Hnm. fold (names_of files) in Hnm.
    destruct (all_named files) eqn:Ean.
    - destruct (length (names_of files) =? 0)%nat eqn:E0.
      + apply Ok_inj in Hnm. subst nm. cbn [app]. apply PF_weaken.
        assert (Hnone : none_named files = true).
        { clear - Ean E0. induction files as [|e fs IH]; [reflexivity|].
          cbn [all_named forallb] in Ean. apply andb_true_iff in Ean as [He _].
          destruct (e_name e) eqn:En; [|discriminate]. unfold names_of in E0. cbn [flat_map] in E0.
          rewrite En in E0. discriminate. }
        destruct (none_named_names files Hnone) as [_ ->]. apply H3c.
      + bind_inv Hnm body Hb. bind_inv Hnm sz Hsz. apply Ok_inj in Hnm. subst nm.
        replace (([17] ++ sz ++ [0] ++ body) ++ ct ++ lat ++ tm ++ at_ ++ 0 :: r)
          with (17 :: sz ++ (0 :: body) ++ ct ++ lat ++ tm ++ at_ ++ 0 :: r) by (norm_app; reflexivity).
        eapply PF_record; [lia|lia| |apply prop17; [exact Ean|exact Hb]|apply H3c].
        rewrite zlen_cons. replace (1 + zlen body) with (zlen body + 1) by lia. exact Hsz.
    - cbn [orb] in Hnames. destruct (none_named_names files Hnames) as [E0 E1].
      rewrite E0 in Hnm. cbn [length Nat.eqb] in Hnm. apply Ok_inj in Hnm. subst nm. cbn [app].
      apply PF_weaken. rewrite E1. apply H3c. }
  (* kDummy *)
  assert (H5 : forall ef0 ne, PF lim (S (S K)) (map st1 files) ef0 ne (pad ++ nm ++ ct ++ lat ++ tm ++ at_ ++ 0 :: r) (res ef0)).
  { intros ef0 ne. destruct Hpad as [-> | [d [Hd ->]]].
    - cbn [app]. apply PF_weaken. apply H4.
    - norm_app. apply PF_dummy; [exact Hd|apply H4]. }
  (* EMPTY_STREAM and EMPTY_FILE *)
  assert (H7 : exists ef0,
    (ef0 = norm_emptyfiles files ef \/ (ef0 = [] /\ any_true (norm_emptyfiles files ef) = false)) /\
    PF lim (S (S (S (S K)))) (repeat empty_file (length files)) [] 0
       (a ++ pad ++ nm ++ ct ++ lat ++ tm ++ at_ ++ 0 :: r) (res ef0)).
  { set (es := map e_emptystream files) in *.
    destruct (any_true es) eqn:Ees.
    - bind_inv Ha sz Hsz. bind_inv Ha b Hb. apply Ok_inj in Ha. subst a.
      destruct (any_true (norm_emptyfiles files ef)) eqn:Eef.
      + bind_inv Hb sz2 Hsz2. apply Ok_inj in Hb. subst b.
        exists (norm_emptyfiles files ef). split; [left; reflexivity|].
        replace (([14] ++ sz ++ wr_bits es ++ [15] ++ sz2 ++ wr_bits (norm_emptyfiles files ef)) ++
                 pad ++ nm ++ ct ++ lat ++ tm ++ at_ ++ 0 :: r)
          with (14 :: sz ++ wr_bits es ++
                15 :: sz2 ++ wr_bits (norm_emptyfiles files ef) ++ pad ++ nm ++ ct ++ lat ++ tm ++ at_ ++ 0 :: r)
          by (norm_app; reflexivity).
        eapply PF_record; [lia|lia| |apply prop14|].
        { unfold es. rewrite wr_bits_length, zlen_map. exact Hsz. }
        eapply PF_record; [lia|lia| |apply prop15|apply H5].
        rewrite wr_bits_length. unfold zlen. rewrite norm_emptyfiles_length.
        fold es. pose proof (count_true_bounds es).
        replace (Z.of_nat (Z.to_nat (count_true es))) with (count_true es) by lia. exact Hsz2.
      + apply Ok_inj in Hb. subst b. exists []. split; [right; auto|].
        replace (([14] ++ sz ++ wr_bits es ++ []) ++ pad ++ nm ++ ct ++ lat ++ tm ++ at_ ++ 0 :: r)
          with (14 :: sz ++ wr_bits es ++ pad ++ nm ++ ct ++ lat ++ tm ++ at_ ++ 0 :: r)
          by (rewrite app_nil_r; norm_app; reflexivity).
        apply PF_weaken. eapply PF_record; [lia|lia| |apply prop14|apply H5].
        unfold es. rewrite wr_bits_length, zlen_map. exact Hsz.
    - apply Ok_inj in Ha. subst a. cbn [app]. exists []. split.
      + right. split; [reflexivity|].
        assert (Hn0 : norm_emptyfiles files ef = []).
        { pose proof (norm_emptyfiles_length files ef) as Hl. fold es in Hl.
          rewrite (any_true_false_all _ Ees) in Hl. unfold count_true in Hl.
          assert (Hz : filter (fun b : bool => b) (repeat false (length es)) = []).
          { clear. induction (length es); [reflexivity|]. cbn [repeat filter]. exact IHn. }
          rewrite Hz in Hl. destruct (norm_emptyfiles files ef); [reflexivity|discriminate]. }
        rewrite Hn0. reflexivity.
      + do 2 apply PF_weaken. rewrite (no_empty_st1 files Ees). apply H5. }
  destruct H7 as [ef0 [Hef0 H7]].
  unfold parse_files. norm_app.
  bstep (rd_number_wr _ _ (a ++ pad ++ nm ++ ct ++ lat ++ tm ++ at_ ++ 0 :: r) Hn).
  destruct (lim <? zlen files) eqn:El; [lia|].
  unfold zlen at 1. rewrite Nat2Z.id. rewrite H7.
  - unfold res. cbn [bind]. rewrite (norm_emptyfiles_idem cd ad files ef ef0 Hef0). reflexivity.
  - (* fuel: each record written occupies at least 3 bytes *)
    assert (3 <= zlen at_).
    { unfold write_attributes in Hat. cbv zeta in Hat. bind_inv Hat sz Hsz. bind_inv Hat vals Hv.
      apply Ok_inj in Hat. subst at_. apply wr_number_length in Hsz. rewrite !zlen_app.
      change (zlen [21]) with 1. change (zlen [0]) with 1.
      pose proof (zlen_nonneg vals).
      pose proof (zlen_nonneg (wr_boolean (map (fun f => opt_defined (e_attr f)) files) true)). lia. }
    unfold K. rewrite !app_length. cbn [length]. unfold zlen in *. lia.
Qed.

(* ================================================================== *)
(* Header                                                              *)
(* ================================================================== *)
Theorem header_roundtrip lim en pos h bs :
  wf_header lim en h = true -> write_header en pos h = Ok bs -> parse_header lim bs = Ok (norm en h).
Proof.
  unfold wf_header, write_header, norm. destruct h as [st fl ef]. cbn [h_streams h_files h_emptyfiles].
  intros Hwf Hw. apply andb_true_iff in Hwf as [Hws Hwf].
  bind_inv Hw a Ha. bind_inv Hw b Hb. apply Ok_inj in Hw. subst bs.
  cbn [app parse_header]. unfold parse_header_body.
  destruct st as [s|];
    [destruct (streams_roundtrip lim en s a Hws Ha) as [bs [-> Hs]]|apply Ok_inj in Ha; subst a];
  (destruct fl as [f|];
    [destruct (files_roundtrip lim _ f ef b Hwf Hb) as [bf [-> Hf]]|apply Ok_inj in Hb; subst b]);
  norm_app; cbn [rd_pid bind option_map];
  repeat match goal with
  | H : forall r, parse_streams _ (_ ++ r) = _ |- _ => rewrite H; clear H; cbn [rd_pid bind fst snd]
  | H : forall r, parse_files _ (_ ++ r) = _ |- _ => rewrite H; clear H; cbn [rd_pid bind fst snd]
  end; reflexivity.
Qed.

(* ================================================================== *)
(* Everything the writer emits is a byte string                        *)
(* ================================================================== *)
Ltac wfb :=
  repeat match goal with
  | |- wf_bytes (_ ++ _) = true => apply wf_bytes_app_intro
  | |- wf_bytes (_ :: _) = true => rewrite wf_bytes_cons; apply andb_true_iff; split; [reflexivity|]
  | |- wf_bytes [] = true => reflexivity
  | H : wr_number _ = Ok ?x |- wf_bytes ?x = true => exact (wr_number_wf _ _ H)
  | H : wr_list wr_number _ = Ok ?x |- wf_bytes ?x = true => exact (wr_list_numbers_wf _ _ H)
  | H : wr_list (wr_fixed _) _ = Ok ?x |- wf_bytes ?x = true => exact (wr_list_fixed_wf _ _ _ H)
  | |- wf_bytes (wr_boolean _ _) = true => apply wr_boolean_wf
  | |- wf_bytes (wr_bits _) = true => apply wr_bits_wf
  end.

Lemma write_packinfo_wf en p bs : write_packinfo en p = Ok bs -> wf_bytes bs = true.
Proof.
  unfold write_packinfo. intros Hw.
  destruct (negb (p_numstreams p =? zlen (p_sizes p))); [discriminate|].
  bind_inv Hw a Ha. bind_inv Hw b Hb. bind_inv Hw c Hc. bind_inv Hw d Hd. apply Ok_inj in Hw. subst bs.
  assert (wf_bytes d = true).
  { destruct (any_true (p_digestdefined p) || en); [|apply Ok_inj in Hd; subst; reflexivity].
    destruct (negb (zlen (p_crcs p) =? p_numstreams p)); [discriminate|].
    destruct (length (p_digestdefined p) <? length (p_sizes p))%nat; [discriminate|].
    bind_inv Hd x Hx. apply Ok_inj in Hd. subst d. destruct (wr_pack_crcs_select _ _ _ Hx) as [Hx1 _]. wfb. }
  wfb. assumption.
Qed.

Lemma write_coder_wf c bs : bytes_coder c = true -> write_coder c = Ok bs -> wf_bytes bs = true.
Proof.
  unfold bytes_coder, write_coder. intros Hb Hw. apply andb_true_iff in Hb as [Hm Hp].
  bind_inv Hw cx Hcx. bind_inv Hw pr Hpr. apply Ok_inj in Hw. subst bs.
  apply wf_bytes_app_intro; [|apply wf_bytes_app_intro; [apply wf_bytes_takeZ; exact Hm|apply wf_bytes_app_intro]].
  - rewrite wf_bytes_cons, andb_true_r. unfold is_byte.
    change 15 with (Z.ones 4). rewrite Z.land_ones by lia.
    pose proof (Z.mod_pos_bound (zlen (c_method c)) (2 ^ 4) ltac:(lia)).
    destruct (is_simple c); destruct (c_props c); lia.
  - destruct (is_simple c); [apply Ok_inj in Hcx; subst; reflexivity|].
    bind_inv Hcx a Ha. bind_inv Hcx b Hb. apply Ok_inj in Hcx. subst cx. wfb.
  - destruct (c_props c) as [p|]; [|apply Ok_inj in Hpr; subst; reflexivity].
    bind_inv Hpr l Hl. apply Ok_inj in Hpr. subst pr. wfb. exact Hp.
Qed.

Lemma wr_bond_wf p bs : wr_bond p = Ok bs -> wf_bytes bs = true.
Proof. unfold wr_bond. intros H. bind_inv H a Ha. bind_inv H b Hb. apply Ok_inj in H. subst bs. wfb. Qed.

Lemma write_folder_wf f bs :
  forallb bytes_coder (f_coders f) = true -> write_folder f = Ok bs -> wf_bytes bs = true.
Proof.
  unfold write_folder. intros Hb Hw.
  bind_inv Hw n Hn. bind_inv Hw cs Hc. bind_inv Hw bo Hbo. bind_inv Hw pk Hp. apply Ok_inj in Hw. subst bs.
  wfb.
  - apply (wr_list_wf (fun c => bytes_coder c = true) write_coder (f_coders f)) with (bs := cs);
      [apply write_coder_wf|exact Hc|apply forallb_Forall; exact Hb].
  - apply (wr_list_wf (fun _ => True) wr_bond (f_bonds f)) with (bs := bo);
      [intros x b _ Hx; eapply wr_bond_wf; exact Hx|exact Hbo|apply Forall_True].
  - destruct (0 <? _); [wfb|apply Ok_inj in Hp; subst; reflexivity].
Qed.

Lemma write_unpackinfo_wf fs bs :
  forallb (fun f => forallb bytes_coder (f_coders f)) fs = true ->
  write_unpackinfo fs = Ok bs -> wf_bytes bs = true.
Proof.
  unfold write_unpackinfo. intros Hb Hw.
  bind_inv Hw n Hn. bind_inv Hw body Hbd. bind_inv Hw us Hu. apply Ok_inj in Hw. subst bs.
  wfb.
  - apply (wr_list_wf (fun f => forallb bytes_coder (f_coders f) = true) write_folder fs) with (bs := body);
      [apply write_folder_wf|exact Hbd|apply forallb_Forall; exact Hb].
  - apply (wr_list_wf (fun _ => True) (fun f => wr_list wr_number (f_unpacksizes f)) fs) with (bs := us);
      [intros x b _ Hx; eapply wr_list_numbers_wf; exact Hx|exact Hu|apply Forall_True].
Qed.

Lemma wr_sub_sizes_wf nums : forall sizes x, wr_sub_sizes nums sizes = Ok x -> wf_bytes x = true.
Proof.
  induction nums as [|n nr IH]; intros sizes x H.
  - cbn in H. apply Ok_inj in H. subst. reflexivity.
  - cbn [wr_sub_sizes] in H. cbv zeta in H. destruct (_ <? _)%nat; [discriminate|].
    bind_inv H a Ha. bind_inv H b Hb. apply Ok_inj in H. subst x. wfb. eapply IH. exact Hb.
Qed.

Lemma write_substreams_wf s bs : write_substreams s = Ok bs -> wf_bytes bs = true.
Proof.
  unfold write_substreams. intros Hw.
  destruct (length (s_nums s) =? 0)%nat; [apply Ok_inj in Hw; subst; reflexivity|]. cbv zeta in Hw.
  bind_inv Hw a Ha. bind_inv Hw b Hb. bind_inv Hw c Hc. apply Ok_inj in Hw. subst bs.
  assert (wf_bytes a = true).
  { destruct (existsb (fun n => negb (n =? 1)) (s_nums s)); [|apply Ok_inj in Ha; subst; reflexivity].
    bind_inv Ha x Hx. apply Ok_inj in Ha. subst a. wfb. }
  assert (wf_bytes b = true).
  { destruct (existsb (fun n => 1 <? n) (s_nums s)); [|apply Ok_inj in Hb; subst; reflexivity].
    destruct (s_sizes s) as [[|s0 sz]|]; try discriminate.
    bind_inv Hb x Hx. apply Ok_inj in Hb. subst b. wfb. eapply wr_sub_sizes_wf. exact Hx. }
  assert (wf_bytes c = true).
  { destruct (any_true (s_digestsdefined s)); [|apply Ok_inj in Hc; subst; reflexivity].
    bind_inv Hc x Hx. apply Ok_inj in Hc. subst c. wfb. }
  wfb; assumption.
Qed.

Lemma write_streams_wf en s bs :
  match si_folders s with
  | Some fs => forallb (fun f => forallb bytes_coder (f_coders f)) fs
  | None => true
  end = true ->
  write_streams en s = Ok bs -> wf_bytes bs = true.
Proof.
  unfold write_streams. intros Hb Hw.
  bind_inv Hw a Ha. bind_inv Hw b Hbb. bind_inv Hw c Hc. apply Ok_inj in Hw. subst bs.
  assert (wf_bytes a = true).
  { destruct (si_pack s); [eapply write_packinfo_wf; exact Ha|apply Ok_inj in Ha; subst; reflexivity]. }
  assert (wf_bytes b = true).
  { destruct (si_folders s); [eapply write_unpackinfo_wf; [exact Hb|exact Hbb]|apply Ok_inj in Hbb; subst; reflexivity]. }
  assert (wf_bytes c = true).
  { destruct (si_sub s); [eapply write_substreams_wf; exact Hc|apply Ok_inj in Hc; subst; reflexivity]. }
  wfb; assumption.
Qed.

Lemma write_vector_vals_wf n sel (files : list fileent) vals :
  wr_list (fun f => if opt_defined (sel f) then wr_fixed n (opt_value (sel f)) else Ok []) files = Ok vals ->
  wf_bytes vals = true.
Proof.
  intros H.
  apply (wr_list_wf (fun _ => True)
           (fun f => if opt_defined (sel f) then wr_fixed n (opt_value (sel f)) else Ok []) files)
    with (bs := vals); [|exact H|apply Forall_True].
  intros x b _ Hx. cbv beta in Hx. destruct (opt_defined (sel x)); [eapply wr_fixed_wf; exact Hx|].
  apply Ok_inj in Hx. subst. reflexivity.
Qed.

Lemma write_times_wf p sel files bs : is_byte p = true -> write_times p sel files = Ok bs -> wf_bytes bs = true.
Proof.
  intros Hp Hw. unfold write_times in Hw. cbv zeta in Hw. bind_inv Hw sz Hsz. bind_inv Hw vals Hv.
  apply Ok_inj in Hw. subst bs. cbn [app]. rewrite wf_bytes_cons. apply andb_true_iff. split; [exact Hp|].
  wfb. eapply write_vector_vals_wf. exact Hv.
Qed.

Lemma write_times_opt_wf p sel files bs : is_byte p = true -> write_times_opt p sel files = Ok bs -> wf_bytes bs = true.
Proof.
  intros Hp Hw. unfold write_times_opt in Hw. destruct (has_time sel files).
  - eapply write_times_wf; eassumption.
  - apply Ok_inj in Hw. subst bs. reflexivity.
Qed.

Lemma write_files_wf pos files ef bs : write_files pos files ef = Ok bs -> wf_bytes bs = true.
Proof.
  unfold write_files. intros Hw. bind_inv Hw n Hn. cbv zeta in Hw.
  fold (norm_emptyfiles files ef) in Hw. bind_inv Hw a Ha.
  set (pad := if 2 <? _ then _ else _) in Hw.
  assert (Hpad : pad = [] \/ exists d, 0 <= d < 128 /\ pad = 25 :: d :: repeatZ 0 (Z.to_nat d))
    by apply pad_cases.
  clearbody pad.
  bind_inv Hw nm Hnm. bind_inv Hw ct Hct. bind_inv Hw lat Hlat. bind_inv Hw tm Htm. bind_inv Hw at_ Hat.
  apply Ok_inj in Hw. subst bs.
  assert (wf_bytes a = true).
  { destruct (any_true (map e_emptystream files)); [|apply Ok_inj in Ha; subst a; reflexivity].
    bind_inv Ha sz Hsz. bind_inv Ha b Hb. apply Ok_inj in Ha. subst a. wfb.
    destruct (any_true (norm_emptyfiles files ef)); [|apply Ok_inj in Hb; subst b; reflexivity].
    bind_inv Hb sz2 Hsz2. apply Ok_inj in Hb. subst b. wfb. }
  assert (wf_bytes pad = true).
  { destruct Hpad as [-> | [d [Hd ->]]]; [reflexivity|].
    rewrite !wf_bytes_cons, wf_bytes_repeatZ0. unfold is_byte. lia. }
  assert (wf_bytes nm = true).
  { unfold write_names in Hnm. destruct (_ =? 0)%nat; [apply Ok_inj in Hnm; subst; reflexivity|].
    bind_inv Hnm body Hb. bind_inv Hnm sz Hsz. apply Ok_inj in Hnm. subst nm. wfb.
    apply (wr_list_wf (fun _ => True) wr_utf16 (names_of files)) with (bs := body); [|exact Hb|apply Forall_True].
    intros x b _ Hx. eapply wr_utf16_wf. exact Hx. }
  assert (wf_bytes ct = true) by (eapply (write_times_opt_wf 18); [reflexivity|exact Hct]).
  assert (wf_bytes lat = true) by (eapply (write_times_opt_wf 19); [reflexivity|exact Hlat]).
  assert (wf_bytes tm = true) by (eapply (write_times_wf 20); [reflexivity|exact Htm]).
  assert (wf_bytes at_ = true).
  { unfold write_attributes in Hat. cbv zeta in Hat. bind_inv Hat sz Hsz. bind_inv Hat vals Hv.
    apply Ok_inj in Hat. subst at_. wfb. eapply (write_vector_vals_wf 4 e_attr). exact Hv. }
  wfb; assumption.
Qed.

Theorem header_write_wf en pos h bs :
  bytes_header h = true -> write_header en pos h = Ok bs -> wf_bytes bs = true.
Proof.
  unfold bytes_header, write_header. intros Hb Hw.
  bind_inv Hw a Ha. bind_inv Hw b Hbb. apply Ok_inj in Hw. subst bs.
  assert (wf_bytes a = true).
  { destruct (h_streams h); [eapply write_streams_wf; [exact Hb|exact Ha]|apply Ok_inj in Ha; subst; reflexivity]. }
  assert (wf_bytes b = true).
  { destruct (h_files h); [eapply write_files_wf; exact Hbb|apply Ok_inj in Hbb; subst; reflexivity]. }
  wfb; assumption.
Qed.

(* ================================================================== *)
(* Examples: the hypotheses are satisfiable, and the quirks are real   *)
(* ================================================================== *)
Definition ex_coder1 := mkCoder [3; 1; 1] 1 1 (Some [93; 0; 0; 16; 0]).   (* LZMA with properties *)
Definition ex_coder2 := mkCoder [0] 1 1 None.                              (* COPY *)
(* two folders (a solid one with two sub-streams, and a single-stream one; the digest of the
   second sub-stream is undefined and its stale value 2 is lost), pack CRCs partially defined,
   four entries:
   a file with mtime/attributes and an atime (kept: the LAST_ACCESS_TIME record is written because
   one entry has a defined value), an empty-stream entry without an mtime key, a file with a
   non-BMP name and mtime/attributes present but undefined, a file with a ctime (kept) and no
   attribute key; the entries WITHOUT a ctime/atime key come back with the key present and None *)
Definition ex_header : header :=
  mkHeader
    (Some (mkStreams
       (Some (mkPack 0 2 [50; 30] [true; false] [305419896; 0]))
       (Some [mkFolder [ex_coder1] [] [0] [100] true (Some 7); mkFolder [ex_coder2] [] [0] [30] false None])
       (Some (mkSub [2; 1] (Some [60; 40; 30]) [true; false; true] [1; 2; 4294967295]))))
    (Some [mkFile false (Some [97; 46; 116; 120; 116]) None (Some (Some 5))
                  (Some (Some 132223104000000000)) (Some (Some 32));
           mkFile true (Some [100]) None None None (Some (Some 16));
           mkFile false (Some [100; 47; 98; 228; 8364; 128512]) None None (Some None) (Some None);
           mkFile false (Some [99]) (Some (Some 1)) None (Some (Some 0)) None])
    [true].                      (* the empty-stream entry is an empty FILE, not a directory *)

Example ex_header_wf : wf_header 1000 false ex_header = true /\ bytes_header ex_header = true.
Proof. split; vm_compute; reflexivity. Qed.

Example ex_header_roundtrip :
  exists bs, write_header false 32 ex_header = Ok bs /\ parse_header 1000 bs = Ok (norm false ex_header)
             /\ wf_bytes bs = true /\ norm false ex_header <> ex_header.
Proof. eexists. split; [vm_compute; reflexivity|]. split; [vm_compute; reflexivity|]. split; [reflexivity|discriminate]. Qed.

(* creation and access times survive: defined values are kept, absent keys become None *)
Example ex_header_times_kept :
  option_map (map (fun e => (e_ctime e, e_atime e))) (h_files (norm false ex_header)) =
  Some [(Some None, Some (Some 5)); (Some None, Some None); (Some None, Some None); (Some (Some 1), Some None)].
Proof. reflexivity. Qed.

(* the same through the theorem (hypotheses met by a concrete non-trivial state) *)
Example ex_header_roundtrip_thm bs :
  write_header false 32 ex_header = Ok bs -> parse_header 1000 bs = Ok (norm false ex_header).
Proof. apply header_roundtrip. vm_compute. reflexivity. Qed.

(* N-EMPTYFILES-ALIGN: a vector that is not aligned with the empty-stream entries is
   truncated / padded (here: 2 flags for 1 empty-stream entry) *)
Example emptyfiles_align_witness :
  let h := mkHeader None (Some [mkFile true (Some [97]) None None None None]) [false; true] in
  exists bs h', write_header false 32 h = Ok bs /\ parse_header 1000 bs = Ok h' /\ h_emptyfiles h' = [false].
Proof.
  eexists. eexists. split; [vm_compute; reflexivity|]. split; [vm_compute; reflexivity|]. reflexivity.
Qed.

(* W-FILES-NAMES is necessary: names are written for the named entries only and read back
   positionally: here the name moves from the second entry to the first *)
Definition q_names : header :=
  mkHeader None (Some [mkFile false None None None None None; mkFile false (Some [97]) None None None None]) [].
Example partial_names_roundtrip_refuted :
  exists bs h', write_header false 32 q_names = Ok bs /\ parse_header 1000 bs = Ok h' /\
    option_map (map e_name) (h_files h') = Some [Some [97]; Some []].
Proof.
  eexists. eexists. split; [vm_compute; reflexivity|]. split; [vm_compute; reflexivity|].
  vm_compute. reflexivity.
Qed.

(* W-CODER-IDLEN is necessary: a 16-byte (or empty) method id is written with idsize 0 and
   comes back as b"\x00" *)
Example coder_idlen_refuted :
  (exists bs, write_coder (mkCoder [1;2;3;4;5;6;7;8;9;10;11;12;13;14;15;16] 1 1 None) = Ok bs /\
              parse_coder bs = Ok (mkCoder [0] 1 1 None, [])) /\
  (exists bs, write_coder (mkCoder [] 1 1 None) = Ok bs /\ parse_coder bs = Ok (mkCoder [0] 1 1 None, [])).
Proof.
  split.
  - eexists. split; [vm_compute; reflexivity|]. vm_compute. reflexivity.
  - eexists. split; [vm_compute; reflexivity|]. vm_compute. reflexivity.
Qed.

(* ================================================================== *)
(* Re-serialising what was parsed (relevant to "append preserves history", C08) *)
(* ================================================================== *)
Lemma norm_file_idem cd ad e : norm_file cd ad (norm_file cd ad e) = norm_file cd ad e.
Proof. destruct e as [es nm [[c|]|] [[t|]|] [[m|]|] [[a|]|]]; destruct cd, ad; reflexivity. Qed.
(* whether a time record is written does not change by re-reading: norm_files is idempotent *)
Lemma has_time_norm cd ad sel files :
  (sel = e_ctime /\ cd = has_time e_ctime files) \/ (sel = e_atime /\ ad = has_time e_atime files) ->
  has_time sel (map (norm_file cd ad) files) = has_time sel files.
Proof.
  intros H. unfold has_time. rewrite map_map.
  assert (Hin : forall e, In e files -> opt_defined (sel e) = true -> has_time sel files = true).
  { intros e Hi He. unfold has_time, any_true. apply existsb_exists. exists true. split; [|reflexivity].
    apply in_map_iff. exists e. split; [exact He|exact Hi]. }
  unfold has_time in Hin.
  assert (Hext : forall e, In e files -> opt_defined (sel (norm_file cd ad e)) = opt_defined (sel e)).
  { intros e Hi. specialize (Hin e Hi).
    destruct H as [[-> ->] | [-> ->]]; cbn [norm_file e_ctime e_atime]; unfold tnorm, has_time.
    - destruct (e_ctime e) as [[c|]|]; cbn [opt_defined flat_opt] in *;
        [rewrite (Hin eq_refl); reflexivity| |]; destruct (any_true _); reflexivity.
    - destruct (e_atime e) as [[c|]|]; cbn [opt_defined flat_opt] in *;
        [rewrite (Hin eq_refl); reflexivity| |]; destruct (any_true _); reflexivity. }
  f_equal. apply map_ext_in. exact Hext.
Qed.
(* what re-serialisation keeps of the creation / access times: every defined value, at its entry *)
Lemma has_time_in sel files e : In e files -> opt_defined (sel e) = true -> has_time sel files = true.
Proof.
  intros Hi He. unfold has_time, any_true. apply existsb_exists. exists true. split; [|reflexivity].
  apply in_map_iff. exists e. split; [exact He|exact Hi].
Qed.
Lemma tnorm_has_time sel files e : In e files -> flat_opt (tnorm (has_time sel files) (sel e)) = flat_opt (sel e).
Proof.
  intros Hi. pose proof (has_time_in sel files e Hi) as H. unfold tnorm.
  destruct (sel e) as [[v|]|]; cbn [opt_defined flat_opt] in *;
    [rewrite (H eq_refl); reflexivity| |]; destruct (has_time sel files); reflexivity.
Qed.
Theorem norm_files_times files :
  map (fun e => (flat_opt (e_ctime e), flat_opt (e_atime e))) (norm_files files) =
  map (fun e => (flat_opt (e_ctime e), flat_opt (e_atime e))) files.
Proof.
  unfold norm_files. rewrite map_map. apply map_ext_in. intros e Hi. cbn [norm_file e_ctime e_atime].
  rewrite (tnorm_has_time e_ctime files e Hi), (tnorm_has_time e_atime files e Hi). reflexivity.
Qed.
Lemma norm_files_idem files : norm_files (norm_files files) = norm_files files.
Proof.
  unfold norm_files.
  rewrite (has_time_norm _ _ e_ctime files) by (left; auto).
  rewrite (has_time_norm _ _ e_atime files) by (right; auto).
  rewrite map_map. apply map_ext. intros e. apply norm_file_idem.
Qed.
Lemma norm_folder_idem f : norm_folder (norm_folder f) = norm_folder f.
Proof. reflexivity. Qed.
Lemma mask_digests_idem dd : forall dg, mask_digests (mask_digests dg dd) dd = mask_digests dg dd.
Proof.
  unfold mask_digests. induction dd as [|d dd IH]; intros dg; [destruct dg; reflexivity|].
  destruct dg as [|c dg]; [reflexivity|]. cbn [combine map fst snd]. rewrite IH. destruct d; reflexivity.
Qed.
Lemma norm_sub_idem s : norm_sub (norm_sub s) = norm_sub s.
Proof.
  unfold norm_sub, sub_multi. cbn [s_nums s_sizes s_digestsdefined s_digests].
  rewrite mask_digests_idem. destruct (existsb _ _); reflexivity.
Qed.

Lemma norm_pack_idem en p : norm_pack en (norm_pack en p) = norm_pack en p.
Proof.
  unfold norm_pack. destruct (any_true (p_digestdefined p) || en) eqn:E.
  - cbn [p_digestdefined p_pos p_numstreams p_sizes p_crcs]. rewrite E, mask_digests_idem. reflexivity.
  - cbn [p_digestdefined p_pos p_numstreams p_sizes p_crcs]. cbn [any_true existsb orb].
    apply orb_false_iff in E as [_ ->]. reflexivity.
Qed.

(* N-PACK-CRC-UNDEFINED is idempotent now that the reader keeps `crcs` aligned with the streams:
   the header that py7zr has read back (here: the example, whose pack CRCs are
   [defined; undefined]) can be written again, and to the very same bytes *)
Example reparsed_header_rewritable :
  exists bs h', write_header false 32 ex_header = Ok bs /\ parse_header 1000 bs = Ok h' /\
                write_header false 32 h' = Ok bs /\ wf_header 1000 false h' = true /\
                norm false h' = h'.
Proof.
  eexists. eexists. split; [vm_compute; reflexivity|]. split; [vm_compute; reflexivity|].
  split; [vm_compute; reflexivity|]. split; vm_compute; reflexivity.
Qed.

Print Assumptions header_roundtrip.
Print Assumptions header_write_wf.
Print Assumptions files_roundtrip.
Print Assumptions streams_roundtrip.
