(* HelpersGen.v -- the string helpers generated from py7zr/helpers.py (gen/HelpersPath.v) are the
   functions the hand models of C09 (Select.v), C10 (Listing.v) and C03 (FS.v) use. *)
From P7 Require Import Prelude PyPrims PyStr PathGen.
From P7 Require Path PathProofs FS Select Listing.
From P7gen Require HelpersPath.
Open Scope Z_scope.

Theorem gen_remove_trailing_slash_select s :
  HelpersPath.remove_trailing_slash s = Ok (Select.remove_trailing_slash s).
Proof.
  rewrite gen_remove_trailing_slash_spec. f_equal. unfold Select.remove_trailing_slash.
  destruct (rev s) as [|c r] eqn:E.
  - apply (f_equal (@rev Z)) in E. rewrite rev_involutive in E. subst s. reflexivity.
  - assert (Hs : s = rev r ++ [c]) by (rewrite <- (rev_involutive s), E; reflexivity).
    clear E. subst s. rewrite PathProofs.endswith_slash_app by discriminate. cbn [Path.endswith_slash].
    destruct (c =? 47); [|reflexivity]. apply removelast_last.
Qed.

Theorem gen_remove_trailing_slash_listing s :
  HelpersPath.remove_trailing_slash s = Ok (Listing.remove_trailing_slash s).
Proof. rewrite gen_remove_trailing_slash_select. reflexivity. Qed.

Theorem gen_remove_relative_path_marker_fs s :
  HelpersPath.remove_relative_path_marker s = Ok (FS.remove_relative_path_marker s).
Proof.
  rewrite gen_remove_relative_path_marker_spec. f_equal.
  unfold FS.remove_relative_path_marker, FS.starts_with, FS.DOT, FS.SLASH.
  destruct s as [|a [|b r]]; cbn [length firstn FS.str_eqb skipn].
  - reflexivity.
  - now rewrite andb_false_r.
  - rewrite andb_true_r, (Z.eqb_sym 46 a), (Z.eqb_sym 47 b). reflexivity.
Qed.
