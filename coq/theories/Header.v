(* Header.v -- hand model of py7zr's header object graph, its parser
   (archiveinfo.py: PackInfo/Folder/UnpackInfo/SubstreamsInfo/StreamsInfo/FilesInfo/
   Header._extract_header_info) and its writer (the corresponding .write methods).
   Definitions only (proofs live in HeaderProofs.v) so that the model stays runnable.

   Tie to the code: correspondence check tools/harness/hdr.py -- the extracted
   functions below and the Python run on the same header bytes / header graphs.

   Conventions: a count that the Python turns into an allocation or a loop bound is
   compared against `lim`; beyond it the model answers Err EFuel ("resource") instead
   of building a huge list.  Python exceptions of any class are Err (only Ok/Err and
   the Ok payload are compared). *)
From P7 Require Import Prelude PyPrims Number.
Open Scope Z_scope.

(* ------------------------------------------------------------------ *)
(* Object graph                                                        *)
(* ------------------------------------------------------------------ *)
Record coder := mkCoder { c_method : bytes; c_nin : Z; c_nout : Z; c_props : option bytes }.
Record folder := mkFolder {
  f_coders : list coder; f_bonds : list (Z * Z); f_packed : list Z;
  f_unpacksizes : list Z; f_digestdefined : bool; f_crc : option Z }.
Record packinfo := mkPack {
  p_pos : Z; p_numstreams : Z; p_sizes : list Z; p_digestdefined : list bool; p_crcs : list Z }.
Record substreams := mkSub {
  s_nums : list Z; s_sizes : option (list Z); s_digestsdefined : list bool; s_digests : list Z }.
Record fileent := mkFile {
  e_emptystream : bool; e_name : option (list Z) (* code points *);
  e_ctime : option (option Z); e_atime : option (option Z); e_mtime : option (option Z);
  (* outer option: key present in the dict; inner: defined *)
  e_attr : option (option Z) }.
Record streamsinfo := mkStreams {
  si_pack : option packinfo; si_folders : option (list folder); si_sub : option substreams }.
Record header := mkHeader {
  h_streams : option streamsinfo; h_files : option (list fileent); h_emptyfiles : list bool }.

(* ------------------------------------------------------------------ *)
(* Primitive readers with CPython's behaviour on short input          *)
(* ------------------------------------------------------------------ *)
Definition zlen {A} (l : list A) : Z := Z.of_nat (length l).
Definition takeZ {A} (n : Z) (l : list A) : list A := firstn (Z.to_nat (Z.min (Z.max n 0) (zlen l))) l.
Definition dropZ {A} (n : Z) (l : list A) : list A := skipn (Z.to_nat (Z.min (Z.max n 0) (zlen l))) l.

(* file.read(n): up to n bytes *)
Definition rd_bytes (n : Z) : reader bytes := fun bs => Ok (takeZ n bs, dropZ n bs).
(* pid = file.read(1): None at end of input *)
Definition rd_pid : reader (option Z) := fun bs =>
  match bs with [] => Ok (None, []) | b :: r => Ok (Some b, r) end.
(* ord(file.read(1)): TypeError at end of input *)
Definition rd_byte : reader Z := fun bs =>
  match bs with [] => Err EOther | b :: r => Ok (b, r) end.
(* read_uint32 / read_real_uint64: struct.error on short input *)
Definition rd_fixed (n : nat) : reader Z := fun bs =>
  if (length bs <? n)%nat then Err EOther else Ok (le_value (firstn n bs), skipn n bs).
(* read_uint64 (NUMBER): int.from_bytes of a short read is accepted *)
Definition rd_number : reader Z := fun bs =>
  match bs with
  | [] => Err EOther
  | b :: r =>
      if b =? 255 then rd_fixed 8 r
      else
        let n := leading_ones b in
        let x := if (n <? 7)%nat then b mod 2 ^ (7 - Z.of_nat n) else 0 in
        Ok (x * 256 ^ Z.of_nat n + le_value (firstn n r), skipn n r)
  end.

(* n-fold repetition of a reader; the fuel argument only serves the guard checker:
   callers pass (S (length input)) and every repeated reader consumes >= 1 byte or fails *)
Fixpoint rd_rep {A} (fuel : nat) (n : Z) (rd : reader A) : reader (list A) := fun bs =>
  if n <=? 0 then Ok ([], bs)
  else match fuel with
       | O => Err EEof
       | S f => do (x, r) <- rd bs;
                do (xs, r') <- rd_rep f (n - 1) rd r;
                Ok (x :: xs, r')
       end.
Definition rd_many {A} (n : Z) (rd : reader A) : reader (list A) := fun bs => rd_rep (S (length bs)) n rd bs.

(* bit field of `count` booleans, MSB first *)
Fixpoint bits_of_byte (b : Z) (k : nat) : list bool :=   (* the k most significant bits *)
  match k with O => [] | S k' => bits_of_byte b k' ++ [Z.testbit b (7 - Z.of_nat k')] end.
Fixpoint rd_bits_fuel (fuel : nat) (count : Z) : reader (list bool) := fun bs =>
  if count <=? 0 then Ok ([], bs)
  else match fuel with
       | O => Err EEof
       | S f => match bs with
                | [] => Err EOther
                | b :: r => if count <? 8 then Ok (bits_of_byte b (Z.to_nat count), r)
                            else do (l, r') <- rd_bits_fuel f (count - 8) r; Ok (bits_of_byte b 8 ++ l, r')
                end
       end.
Definition rd_bits (count : Z) : reader (list bool) := fun bs => rd_bits_fuel (S (length bs)) count bs.

(* read_boolean(file, count, checkall) *)
Definition rd_boolean (lim : Z) (count : Z) (checkall : bool) : reader (list bool) := fun bs =>
  if checkall then
    match bs with
    | 0 :: r => rd_bits count r
    | _ => (* any other byte, or end of input: [True] * count *)
        if lim <? count then Err EFuel
        else Ok (repeat true (Z.to_nat count), match bs with [] => [] | _ :: r => r end)
    end
  else rd_bits count bs.

(* read_crcs(file, count) *)
Definition rd_crcs (count : Z) : reader (list Z) := fun bs =>
  if count <=? 0 then Ok ([], dropZ (4 * count) bs)
  else if zlen bs <? 4 * count then Err EOther
  else rd_many count (rd_fixed 4) bs.

(* UTF-16LE decoding of code units; lone surrogates make Python raise *)
Fixpoint utf16_decode (us : list Z) : res (list Z) :=
  match us with
  | [] => Ok []
  | u :: r =>
      if (55296 <=? u) && (u <? 56320) then
        match r with
        | v :: r' => if (56320 <=? v) && (v <? 57344)
                     then do t <- utf16_decode r'; Ok (65536 + (u - 55296) * 1024 + (v - 56320) :: t)
                     else Err EOther
        | [] => Err EOther
        end
      else if (56320 <=? u) && (u <? 57344) then Err EOther
      else do t <- utf16_decode r; Ok (u :: t)
  end.
Fixpoint utf16_units (bs : bytes) : res (list Z) :=   (* pairs of bytes -> units; odd length raises *)
  match bs with
  | [] => Ok []
  | [_] => Err EOther
  | a :: b :: r => do t <- utf16_units r; Ok (a + 256 * b :: t)
  end.
(* read_utf16: up to 65536 two-byte reads until 00 00; at end of input the loop reads
   empty chunks and then decodes what it has *)
Fixpoint rd_utf16_raw (fuel : nat) (iters : Z) (acc : bytes) : reader bytes := fun bs =>
  match fuel with
  | O => Ok (acc, bs)
  | S f => if 65536 <=? iters then Ok (acc, bs) else
           match bs with
           | 0 :: 0 :: r => Ok (acc, r)
           | a :: b :: r => rd_utf16_raw f (iters + 1) (acc ++ [a; b]) r
           | [a] => Ok (acc ++ [a], [])
           | [] => Ok (acc, [])
           end
  end.
Definition fix_backslash (c : Z) : Z := if c =? 92 then 47 else c.
Definition rd_utf16 : reader (list Z) := fun bs =>
  do (raw, r) <- rd_utf16_raw (S (length bs)) 0 [] bs;
  do us <- utf16_units raw;
  do cs <- utf16_decode us;
  Ok (map fix_backslash cs, r).

(* ------------------------------------------------------------------ *)
(* Parser                                                              *)
(* ------------------------------------------------------------------ *)
Definition P_END := 0.

Definition count_true (l : list bool) : Z := zlen (filter (fun b => b) l).

(* PackInfo._read (after the PACK_INFO id) *)
Definition rd_defined_crcs (defined : list bool) : reader (list Z) :=
  rd_many (count_true defined) (rd_fixed 4).

(* expand the defined-only CRC values to one value per entry (0 where undefined) *)
Fixpoint expand_crcs (defined : list bool) (crcs : list Z) : res (list Z) :=
  match defined with
  | [] => Ok []
  | true :: ds => match crcs with c :: cs => do r <- expand_crcs ds cs; Ok (c :: r) | [] => Err EOther end
  | false :: ds => do r <- expand_crcs ds crcs; Ok (0 :: r)
  end.

Definition parse_packinfo (lim : Z) : reader packinfo := fun bs =>
  do (pos, bs) <- rd_number bs;
  do (n, bs) <- rd_number bs;
  do (pid, bs) <- rd_pid bs;
  if lim <? n then Err EFuel else
  do (sizes, defined, crcs, pid, bs) <-
     (match pid with
      | Some 9 =>
          do (sizes, bs) <- rd_many n rd_number bs;
          do (pid, bs) <- rd_pid bs;
          match pid with
          | Some 10 =>
              do (defined, bs) <- rd_boolean lim n true bs;
              do (vals, bs) <- rd_defined_crcs defined bs;
              (* self.crcs.append(value if crcexist else 0): the list stays aligned with the streams *)
              do crcs <- expand_crcs defined vals;
              do (pid, bs) <- rd_pid bs;
              Ok (sizes, defined, crcs, pid, bs)
          | _ => Ok (sizes, [], [], pid, bs)
          end
      | _ => Ok ([], [], [], pid, bs)
      end);
  match pid with
  | Some 0 => Ok (mkPack pos n sizes defined crcs, bs)
  | _ => Err EBad7z
  end.

(* Folder._read *)
Definition parse_coder : reader coder := fun bs =>
  do (b, bs) <- rd_byte bs;
  let msize := Z.land b 15 in
  let iscomplex := negb (Z.land b 16 =? 0) in
  let hasattr := negb (Z.land b 32 =? 0) in
  do (method, bs) <- (if 0 <? msize then rd_bytes msize bs else Ok ([0], bs));
  do (nin, nout, bs) <- (if iscomplex then
                            do (a, bs) <- rd_number bs; do (b, bs) <- rd_number bs; Ok (a, b, bs)
                          else Ok (1, 1, bs));
  do (props, bs) <- (if hasattr then
                        do (plen, bs) <- rd_number bs; do (p, bs) <- rd_bytes plen bs; Ok (Some p, bs)
                      else Ok (None, bs));
  Ok (mkCoder method nin nout props, bs).

Definition rd_bond : reader (Z * Z) := fun bs =>
  do (a, bs) <- rd_number bs; do (b, bs) <- rd_number bs; Ok ((a, b), bs).

Definition sumZ (l : list Z) : Z := fold_left Z.add l 0.

Definition find_in_bond (bonds : list (Z * Z)) (i : Z) : bool :=
  existsb (fun p => fst p =? i) bonds.
Definition find_out_bond (bonds : list (Z * Z)) (i : Z) : bool :=
  existsb (fun p => snd p =? i) bonds.

Definition parse_folder (lim : Z) : reader folder := fun bs =>
  do (nc, bs) <- rd_number bs;
  do (coders, bs) <- rd_many nc parse_coder bs;
  let totalin := sumZ (map c_nin coders) in
  let totalout := sumZ (map c_nout coders) in
  let nbonds := totalout - 1 in
  do (bonds, bs) <- rd_many nbonds rd_bond bs;
  let npacked := totalin - nbonds in
  if npacked =? 1 then
    if lim <? totalin then Err EFuel else
    Ok (mkFolder coders bonds (filter (fun i => negb (find_in_bond bonds i)) (py_range 0 totalin)) [] false None, bs)
  else
    do (packed, bs) <- rd_many npacked rd_number bs;
    Ok (mkFolder coders bonds packed [] false None, bs).

(* fill per-folder unpack sizes: for folder: for c in coders: for _ in range(numoutstreams) *)
Fixpoint rd_unpacksizes (fs : list folder) : reader (list folder) := fun bs =>
  match fs with
  | [] => Ok ([], bs)
  | f :: r =>
      do (sz, bs) <- rd_many (sumZ (map (fun c => Z.max (c_nout c) 0) (f_coders f))) rd_number bs;
      do (r', bs) <- rd_unpacksizes r bs;
      Ok (mkFolder (f_coders f) (f_bonds f) (f_packed f) sz (f_digestdefined f) (f_crc f) :: r', bs)
  end.

Fixpoint set_folder_crcs (fs : list folder) (defined : list bool) (crcs : list Z) : res (list folder) :=
  (* folder.crc = next(crcs) if defined[idx] else None *)
  match fs with
  | [] => Ok []
  | f :: r =>
      match defined with
      | true :: ds =>
          match crcs with
          | c :: cs => do r' <- set_folder_crcs r ds cs;
                       Ok (mkFolder (f_coders f) (f_bonds f) (f_packed f) (f_unpacksizes f) true (Some c) :: r')
          | [] => Err EOther      (* StopIteration *)
          end
      | false :: ds => do r' <- set_folder_crcs r ds crcs;
                       Ok (mkFolder (f_coders f) (f_bonds f) (f_packed f) (f_unpacksizes f) false None :: r')
      | [] => Err EOther   (* IndexError *)
      end
  end.

(* UnpackInfo._read (after the UNPACK_INFO id) *)
Definition parse_unpackinfo (lim : Z) : reader (list folder) := fun bs =>
  do (pid, bs) <- rd_pid bs;
  match pid with
  | Some 11 =>
      do (nf, bs) <- rd_number bs;
      do (ext, bs) <- rd_byte bs;
      if negb (ext =? 0) then Err EUnsupported else
      do (fs, bs) <- rd_many nf (parse_folder lim) bs;
      do (pid, bs) <- rd_pid bs;
      match pid with
      | Some 12 =>
          do (fs, bs) <- rd_unpacksizes fs bs;
          do (pid, bs) <- rd_pid bs;
          do (fs, pid, bs) <-
             (match pid with
              | Some 10 =>
                  do (defined, bs) <- rd_boolean lim nf true bs;
                  do (crcs, bs) <- rd_crcs (count_true defined) bs;      (* one value per DEFINED entry *)
                  do fs' <- set_folder_crcs fs defined crcs;
                  do (pid, bs) <- rd_pid bs;
                  Ok (fs', pid, bs)
              | _ => Ok (fs, pid, bs)
              end);
          match pid with Some 0 => Ok (fs, bs) | _ => Err EBad7z end
      | _ => Err EBad7z
      end
  | _ => Err EBad7z
  end.

(* Folder.get_unpack_size *)
Definition folder_unpack_size (f : folder) : res Z :=
  let us := f_unpacksizes f in
  let n := zlen us in
  match find (fun i => negb (find_out_bond (f_bonds f) i)) (rev (py_range 0 n)) with
  | Some i => py_index us i
  | None => py_index us (-1)
  end.

(* the SIZE part of SubstreamsInfo._read: per folder, num-1 explicit sizes, last = rest *)
Fixpoint rd_sub_sizes (nums : list Z) (fs : list folder) : reader (list Z) := fun bs =>
  match nums with
  | [] => Ok ([], bs)
  | n :: nr =>
      do (explicit, bs) <- rd_many (n - 1) rd_number bs;
      match fs with
      | [] => if 0 <? n then Err EOther else rd_sub_sizes nr [] bs   (* folders[i] IndexError *)
      | f :: fr =>
          if 0 <? n then
            do total <- folder_unpack_size f;
            do (rest, bs) <- rd_sub_sizes nr fr bs;
            Ok (explicit ++ [total - sumZ explicit] ++ rest, bs)
          else rd_sub_sizes nr fr bs       (* no implicit size for a folder without sub-streams *)
      end
  end.

(* number of digests to read and total number of sub-streams *)
Fixpoint sub_digest_counts (nums : list Z) (fs : list folder) : res (Z * Z) :=
  match nums with
  | [] => Ok (0, 0)
  | n :: nr =>
      match fs with
      | [] => Err EOther
      | f :: fr =>
          do (a, b) <- sub_digest_counts nr fr;
          Ok ((if negb (n =? 1) || negb (f_digestdefined f) then n else 0) + a, n + b)
      end
  end.

Fixpoint sub_assign_digests (lim : Z) (nums : list Z) (fs : list folder) (defined : list bool) (crcs : list Z)
  : res (list bool * list Z) :=
  (* `crcs` is aligned with `defined` (see expand_crcs) *)
  match nums with
  | [] => Ok ([], [])
  | n :: nr =>
      match fs with
      | [] => Err EOther
      | f :: fr =>
          match (if (n =? 1) && f_digestdefined f then f_crc f else None) with
          | Some c => do (d, g) <- sub_assign_digests lim nr fr defined crcs; Ok (true :: d, c :: g)
          | None =>
              if lim <? n then Err EFuel else
              let k := Z.to_nat (Z.max n 0) in
              if (length defined <? k)%nat || (length crcs <? k)%nat then Err EOther else
              do (d, g) <- sub_assign_digests lim nr fr (skipn k defined) (skipn k crcs);
              Ok (firstn k defined ++ d, firstn k crcs ++ g)
          end
      end
  end.

Fixpoint default_digests (nums : list Z) (fs : list folder) : list bool * list Z :=
  match nums, fs with
  | n :: nr, f :: fr =>
      let '(d, g) := default_digests nr fr in
      match (if (n =? 1) && f_digestdefined f then f_crc f else None) with
      | Some c => (true :: d, c :: g)
      | None => (repeat false (Z.to_nat n) ++ d, repeat 0 (Z.to_nat n) ++ g)
      end
  | _, _ => ([], [])
  end.

(* SubstreamsInfo._read (after the SUBSTREAMS_INFO id) *)
Definition parse_substreams (lim : Z) (fs : list folder) : reader substreams := fun bs =>
  let nf := zlen fs in
  do (pid, bs) <- rd_pid bs;
  do (nums, pid, bs) <-
     (match pid with
      | Some 13 => do (nums, bs) <- rd_many nf rd_number bs; do (pid, bs) <- rd_pid bs; Ok (nums, pid, bs)
      | _ => Ok (repeat 1 (length fs), pid, bs)
      end);
  if existsb (fun n => lim <? n) nums then Err EFuel else
  do (sizes, pid, bs) <-
     (match pid with
      | Some 9 => do (sz, bs) <- rd_sub_sizes nums fs bs; do (pid, bs) <- rd_pid bs; Ok (Some sz, pid, bs)
      | _ => Ok (None, pid, bs)
      end);
  do (ndig, ntotal) <- sub_digest_counts nums fs;
  do (dd, dg, pid, bs) <-
     (match pid with
      | Some 10 =>
          do (defined, bs) <- rd_boolean lim ndig true bs;
          do (vals, bs) <- rd_crcs (count_true defined) bs;
          do crcs <- expand_crcs defined vals;
          do (dd, dg) <- sub_assign_digests lim nums fs defined crcs;
          do (pid, bs) <- rd_pid bs;
          Ok (dd, dg, pid, bs)
      | _ => Ok ([], [], pid, bs)
      end);
  match pid with
  | Some 0 =>
      if (length dd =? 0)%nat then
        if lim <? ntotal then Err EFuel else
        (* no CRC record: a folder with one sub-stream passes its own CRC on, everything else is undefined *)
        let '(dd', dg') := default_digests nums fs in
        Ok (mkSub nums sizes dd' dg', bs)
      else Ok (mkSub nums sizes dd dg, bs)
  | _ => Err EBad7z
  end.

(* StreamsInfo.read (after MAIN_STREAMS_INFO) *)
Definition parse_streams (lim : Z) : reader streamsinfo := fun bs =>
  do (pid, bs) <- rd_pid bs;
  do (pack, pid, bs) <-
     (match pid with
      | Some 6 => do (p, bs) <- parse_packinfo lim bs; do (pid, bs) <- rd_pid bs; Ok (Some p, pid, bs)
      | _ => Ok (None, pid, bs)
      end);
  do (fs, pid, bs) <-
     (match pid with
      | Some 7 => do (f, bs) <- parse_unpackinfo lim bs; do (pid, bs) <- rd_pid bs; Ok (Some f, pid, bs)
      | _ => Ok (None, pid, bs)
      end);
  do (sub, pid, bs) <-
     (match pid with
      | Some 8 =>
          match fs with
          | None => Err EBad7z
          | Some f => do (s, bs) <- parse_substreams lim f bs; do (pid, bs) <- rd_pid bs; Ok (Some s, pid, bs)
          end
      | _ => Ok (None, pid, bs)
      end);
  match pid with
  | Some 0 => Ok (mkStreams pack fs sub, bs)
  | _ => Err EBad7z
  end.

(* ---- FilesInfo ---- *)
Fixpoint zip_update {A B} (f : A -> B -> A) (l : list A) (m : list B) : list A :=
  match l, m with
  | a :: l', b :: m' => f a b :: zip_update f l' m'
  | _, _ => l
  end.

Definition set_empty (e : fileent) (b : bool) :=
  mkFile b (e_name e) (e_ctime e) (e_atime e) (e_mtime e) (e_attr e).
Definition set_name (e : fileent) (n : list Z) :=
  mkFile (e_emptystream e) (Some n) (e_ctime e) (e_atime e) (e_mtime e) (e_attr e).
Definition set_time (which : Z) (e : fileent) (t : option Z) :=
  if which =? 18 then mkFile (e_emptystream e) (e_name e) (Some t) (e_atime e) (e_mtime e) (e_attr e)
  else if which =? 19 then mkFile (e_emptystream e) (e_name e) (e_ctime e) (Some t) (e_mtime e) (e_attr e)
  else mkFile (e_emptystream e) (e_name e) (e_ctime e) (e_atime e) (Some t) (e_attr e).
Definition set_attr (e : fileent) (a : option Z) :=
  mkFile (e_emptystream e) (e_name e) (e_ctime e) (e_atime e) (e_mtime e) (Some a).

(* for f in files: f[key] = read() if defined[idx] else None ; `defined[idx]` raises IndexError when short *)
Fixpoint rd_per_file (n : nat) (fs : list fileent) (defined : list bool) (set : fileent -> option Z -> fileent)
  : reader (list fileent) := fun bs =>
  match fs with
  | [] => Ok ([], bs)
  | f :: r =>
      match defined with
      | [] => Err EOther
      | true :: ds => do (v, bs) <- rd_fixed n bs;
                      do (r', bs) <- rd_per_file n r ds set bs; Ok (set f (Some v) :: r', bs)
      | false :: ds => do (r', bs) <- rd_per_file n r ds set bs; Ok (set f None :: r', bs)
      end
  end.

Fixpoint rd_names (fs : list fileent) : reader (list fileent) := fun bs =>
  match fs with
  | [] => Ok ([], bs)
  | f :: r => do (nm, bs) <- rd_utf16 bs; do (r', bs) <- rd_names r bs; Ok (set_name f nm :: r', bs)
  end.

(* one property record: `buf` is the size-limited buffer the Python wraps in BytesIO *)
Definition parse_file_prop (lim : Z) (prop : Z) (buf : bytes) (files : list fileent) (emptyfiles : list bool)
           (nempty : Z) : res (list fileent * list bool * Z) :=
  let nfiles := zlen files in
  if prop =? 14 then
    do (isempty, _) <- rd_boolean lim nfiles false buf;
    Ok (zip_update set_empty files isempty, emptyfiles, nempty + count_true isempty)
  else if prop =? 15 then
    do (ef, _) <- rd_boolean lim nempty false buf; Ok (files, ef, nempty)
  else if prop =? 17 then
    do (ext, buf) <- rd_pid buf;
    match ext with
    | Some 0 => do (fs, _) <- rd_names files buf; Ok (fs, emptyfiles, nempty)
    | _ => Err EUnsupported
    end
  else if (prop =? 18) || (prop =? 19) || (prop =? 20) then
    do (defined, buf) <- rd_boolean lim nfiles true buf;
    do (ext, buf) <- rd_pid buf;
    match ext with
    | Some 0 => do (fs, _) <- rd_per_file 8 files defined (set_time prop) buf; Ok (fs, emptyfiles, nempty)
    | _ => Err EOther   (* assert external == b"\x00" *)
    end
  else if prop =? 21 then
    do (defined, buf) <- rd_boolean lim nfiles true buf;
    do (ext, buf) <- rd_pid buf;
    match ext with
    | Some 0 => do (fs, _) <- rd_per_file 4 files defined set_attr buf; Ok (fs, emptyfiles, nempty)
    | _ => Err EUnsupported
    end
  else Err EBad7z.   (* START_POS asserts; ANTI, COMMENT, unknown: Bad7zFile *)

Fixpoint parse_file_props (fuel : nat) (lim : Z) (files : list fileent) (emptyfiles : list bool) (nempty : Z)
  : reader (list fileent * list bool) := fun bs =>
  match fuel with
  | O => Err EEof
  | S f =>
      do (prop, bs) <- rd_pid bs;
      match prop with
      | Some 0 => Ok ((files, emptyfiles), bs)
      | None => Err EOther            (* read_uint64 on empty input *)
      | Some p =>
          do (size, bs) <- rd_number bs;
          if p =? 25 then parse_file_props f lim files emptyfiles nempty (dropZ size bs)
          else
            do (fs, ef, ne) <- parse_file_prop lim p (takeZ size bs) files emptyfiles nempty;
            parse_file_props f lim fs ef ne (dropZ size bs)
      end
  end.

Definition empty_file : fileent := mkFile false None None None None None.

(* FilesInfo._read (after FILES_INFO) *)
Definition parse_files (lim : Z) : reader (list fileent * list bool) := fun bs =>
  do (n, bs) <- rd_number bs;
  if lim <? n then Err EFuel else
  do (r, bs') <- parse_file_props (S (length bs)) lim (repeat empty_file (Z.to_nat n)) [] 0 bs;
  (* the EmptyFile bit is kept with each empty-stream entry: f["emptyfile"] = next(flags, False) *)
  let '(files, ef) := r in
  let nes := Z.to_nat (count_true (map e_emptystream files)) in
  Ok ((files, firstn nes (ef ++ repeat false nes)), bs').

(* Header._extract_header_info (after the HEADER id 0x01) *)
Definition parse_header_body (lim : Z) : reader header := fun bs =>
  do (pid, bs) <- rd_pid bs;
  do (st, pid, bs) <-
     (match pid with
      | Some 4 => do (s, bs) <- parse_streams lim bs; do (pid, bs) <- rd_pid bs; Ok (Some s, pid, bs)
      | _ => Ok (None, pid, bs)
      end);
  do (fl, ef, pid, bs) <-
     (match pid with
      | Some 5 => do (fe, bs) <- parse_files lim bs; do (pid, bs) <- rd_pid bs;
                  Ok (Some (fst fe), snd fe, pid, bs)
      | _ => Ok (None, [], pid, bs)
      end);
  match pid with
  | Some 0 => Ok (mkHeader st fl ef, bs)
  | _ => Err EBad7z
  end.

(* a raw header: id 0x01 then the body (Header._read with pid == HEADER) *)
Definition parse_header (lim : Z) (bs : bytes) : res header :=
  match bs with
  | [] => Ok (mkHeader None None [])            (* "empty archive" *)
  | 1 :: r => do (h, _) <- parse_header_body lim r; Ok h
  | 23 :: _ => Err EUnsupported                 (* encoded header: handled by the caller *)
  | _ => Err EOther                             (* TypeError("Unknown field") *)
  end.

(* ------------------------------------------------------------------ *)
(* Writer                                                              *)
(* ------------------------------------------------------------------ *)
Definition wr_number (v : Z) : res bytes :=
  if (v <? 0) || (2 ^ 64 <=? v) then Err EOther else Ok (number_enc v).
Definition wr_fixed (n : nat) (v : Z) : res bytes :=
  if (v <? 0) || (256 ^ Z.of_nat n <=? v) then Err EOther else Ok (le_bytes n v).

Fixpoint wr_list {A} (f : A -> res bytes) (l : list A) : res bytes :=
  match l with
  | [] => Ok []
  | x :: r => do a <- f x; do b <- wr_list f r; Ok (a ++ b)
  end.

(* bit field, MSB first, zero padded *)
Fixpoint bits_pack (l : list bool) (k : nat) (acc : Z) : bytes :=
  match l with
  | [] => if (k =? 0)%nat then [] else [acc * 2 ^ (8 - Z.of_nat k)]
  | b :: r => let acc' := 2 * acc + (if b then 1 else 0) in
              if (k =? 7)%nat then acc' :: bits_pack r 0 0 else bits_pack r (S k) acc'
  end.
Definition wr_bits (l : list bool) : bytes := bits_pack l 0 0.
Definition all_true (l : list bool) : bool := forallb (fun b => b) l.
Definition any_true (l : list bool) : bool := existsb (fun b => b) l.
Definition wr_boolean (l : list bool) (all_defined : bool) : bytes :=
  if all_defined && all_true l then [1]
  else (if all_defined then [0] else []) ++ wr_bits l.

(* PackInfo.write *)
Fixpoint wr_pack_crcs (defined : list bool) (crcs : list Z) : res bytes :=
  (* for i in range(numstreams): if digestdefined[i]: write_uint32(crcs[i])  -- indexed by i *)
  match defined with
  | [] => Ok []
  | d :: ds =>
      match crcs with
      | [] => if d then Err EOther else wr_pack_crcs ds []
      | c :: cs => do a <- (if d then wr_fixed 4 c else Ok []); do b <- wr_pack_crcs ds cs; Ok (a ++ b)
      end
  end.

Definition write_packinfo (enable_digests : bool) (p : packinfo) : res bytes :=
  if negb (p_numstreams p =? zlen (p_sizes p)) then Err EOther else
  do a <- wr_number (p_pos p);
  do b <- wr_number (p_numstreams p);
  do c <- wr_list wr_number (p_sizes p);
  let en := any_true (p_digestdefined p) || enable_digests in
  do d <- (if en then
             if negb (zlen (p_crcs p) =? p_numstreams p) then Err EOther else
             if (length (p_digestdefined p) <? length (p_sizes p))%nat then Err EOther else
             do x <- wr_pack_crcs (firstn (length (p_sizes p)) (p_digestdefined p)) (p_crcs p);
             Ok ([10] ++ wr_boolean (p_digestdefined p) true ++ x)
           else Ok []);
  Ok ([6] ++ a ++ b ++ [9] ++ c ++ d ++ [0]).

(* Folder.write *)
Definition is_simple (c : coder) : bool := (c_nin c =? 1) && (c_nout c =? 1).
Definition write_coder (c : coder) : res bytes :=
  let idsize := Z.land (zlen (c_method c)) 15 in
  let flag := idsize + (if is_simple c then 0 else 16) + (match c_props c with Some _ => 32 | None => 0 end) in
  do cx <- (if is_simple c then Ok [] else
              do a <- wr_number (c_nin c); do b <- wr_number (c_nout c); Ok (a ++ b));
  do pr <- (match c_props c with
            | Some p => do l <- wr_number (zlen p); Ok (l ++ p)
            | None => Ok []
            end);
  Ok ([flag] ++ takeZ idsize (c_method c) ++ cx ++ pr).

Definition write_folder (f : folder) : res bytes :=
  do n <- wr_number (zlen (f_coders f));
  do cs <- wr_list write_coder (f_coders f);
  do bo <- wr_list (fun p => do a <- wr_number (fst p); do b <- wr_number (snd p); Ok (a ++ b)) (f_bonds f);
  do pk <- (if 0 <? sumZ (map c_nin (f_coders f)) - sumZ (map c_nout (f_coders f))
            then wr_list wr_number (f_packed f) else Ok []);
  Ok (n ++ cs ++ bo ++ pk).

(* UnpackInfo.write : never writes folder CRCs ("FIXME: write CRCs here") *)
Definition write_unpackinfo (fs : list folder) : res bytes :=
  do n <- wr_number (zlen fs);
  do body <- wr_list write_folder fs;
  do us <- wr_list (fun f => wr_list wr_number (f_unpacksizes f)) fs;
  Ok ([7; 11] ++ n ++ [0] ++ body ++ [12] ++ us ++ [0]).

(* SubstreamsInfo.write *)
Fixpoint wr_sub_sizes (nums : list Z) (sizes : list Z) : res bytes :=
  (* idx runs over all sub-streams; the last of each folder is skipped *)
  match nums with
  | [] => Ok []
  | n :: nr =>
      let k := Z.to_nat (Z.max n 0) in
      if (length sizes <? k - 1)%nat then Err EOther else    (* unpacksizes[idx] IndexError *)
      do a <- wr_list wr_number (firstn (k - 1) sizes);
      do b <- wr_sub_sizes nr (skipn k sizes);
      Ok (a ++ b)
  end.

Definition write_substreams (s : substreams) : res bytes :=
  if (length (s_nums s) =? 0)%nat then Ok [] else
  let solid := existsb (fun n => negb (n =? 1)) (s_nums s) in
  let has_multi := existsb (fun n => 1 <? n) (s_nums s) in
  do a <- (if solid then do x <- wr_list wr_number (s_nums s); Ok ([13] ++ x) else Ok []);
  do b <- (if has_multi then
             match s_sizes s with
             | None | Some [] => Err EOther           (* assert self.unpacksizes *)
             | Some sz => do x <- wr_sub_sizes (s_nums s) sz; Ok ([9] ++ x)
             end
           else Ok []);
  do c <- (if any_true (s_digestsdefined s) then
             (* zip(self.digests, self.digestsdefined): values of the defined entries only *)
             do x <- wr_list (wr_fixed 4) (map fst (filter (fun p => snd p) (combine (s_digests s) (s_digestsdefined s))));
             Ok ([10] ++ wr_boolean (s_digestsdefined s) true ++ x)
           else Ok []);
  Ok ([8] ++ a ++ b ++ c ++ [0]).

Definition write_streams (enable_digests : bool) (s : streamsinfo) : res bytes :=
  do a <- (match si_pack s with Some p => write_packinfo enable_digests p | None => Ok [] end);
  do b <- (match si_folders s with Some f => write_unpackinfo f | None => Ok [] end);
  do c <- (match si_sub s with Some x => write_substreams x | None => Ok [] end);
  Ok ([4] ++ a ++ b ++ c ++ [0]).

(* UTF-16LE encoding of code points (surrogates themselves cannot be encoded: Python raises) *)
Definition utf16_enc_char (c : Z) : res bytes :=
  if (c <? 0) || (1114111 <? c) then Err EOther
  else if (55296 <=? c) && (c <? 57344) then Err EOther
  else if c <? 65536 then Ok [c mod 256; c / 256]
  else let v := c - 65536 in
       let hi := 55296 + v / 1024 in let lo := 56320 + v mod 1024 in
       Ok [hi mod 256; hi / 256; lo mod 256; lo / 256].
Definition wr_utf16 (s : list Z) : res bytes :=
  do b <- wr_list utf16_enc_char s; Ok (b ++ [0; 0]).

Definition opt_defined {A} (o : option (option A)) : bool :=
  match o with Some (Some _) => true | _ => false end.
Definition opt_value (o : option (option Z)) : Z :=
  match o with Some (Some v) => v | _ => 0 end.

(* FilesInfo._write_times, as repaired (size uses len(files)) *)
Definition write_times (propid : Z) (sel : fileent -> option (option Z)) (files : list fileent) : res bytes :=
  let defined := map (fun f => opt_defined (sel f)) files in
  let ndef := count_true defined in
  let size := ndef * 8 + 2 + (if all_true defined then 0 else (zlen files + 7) / 8) in
  do sz <- wr_number size;
  do vals <- wr_list (fun f => if opt_defined (sel f) then wr_fixed 8 (opt_value (sel f)) else Ok []) files;
  Ok ([propid] ++ sz ++ wr_boolean defined true ++ [0] ++ vals).

(* FilesInfo.write: `if any(f.get(name) is not None for f in self.files): self._write_times(...)` --
   CREATION_TIME and LAST_ACCESS_TIME are written exactly when some entry has a defined value
   (entries py7zr creates itself never have one; entries read from an archive keep theirs) *)
Definition has_time (sel : fileent -> option (option Z)) (files : list fileent) : bool :=
  any_true (map (fun f => opt_defined (sel f)) files).
Definition write_times_opt (propid : Z) (sel : fileent -> option (option Z)) (files : list fileent) : res bytes :=
  if has_time sel files then write_times propid sel files else Ok [].

Definition write_attributes (files : list fileent) : res bytes :=
  let defined := map (fun f => opt_defined (e_attr f)) files in
  let ndef := count_true defined in
  let size := ndef * 4 + 2 + (if ndef =? zlen files then 0 else (zlen files + 7) / 8) in
  do sz <- wr_number size;
  do vals <- wr_list (fun f => if opt_defined (e_attr f) then wr_fixed 4 (opt_value (e_attr f)) else Ok []) files;
  Ok ([21] ++ sz ++ wr_boolean defined true ++ [0] ++ vals).

Definition write_names (files : list fileent) : res bytes :=
  let names := flat_map (fun f => match e_name f with Some n => [n] | None => [] end) files in
  if (length names =? 0)%nat then Ok [] else
  do body <- wr_list wr_utf16 names;
  do sz <- wr_number (zlen body + 1);
  Ok ([17] ++ sz ++ [0] ++ body).

(* FilesInfo.write; `pos` = file.tell() when the method is entered (for the padding rule) *)
Definition write_files (pos : Z) (files : list fileent) (emptyfiles : list bool) : res bytes :=
  do n <- wr_number (zlen files);
  let es := map e_emptystream files in
  (* EmptyFile: one bit per empty-stream entry (taken from the vector that was read; false for new entries) *)
  let nes := count_true es in
  let efl := firstn (Z.to_nat nes) (emptyfiles ++ repeat false (Z.to_nat nes)) in
  do a <- (if any_true es then
             do sz <- wr_number ((zlen files + 7) / 8);
             do b <- (if any_true efl then do sz2 <- wr_number ((nes + 7) / 8); Ok ([15] ++ sz2 ++ wr_bits efl)
                      else Ok []);
             Ok ([14] ++ sz ++ wr_bits es ++ b)
           else Ok []);
  let p := pos + 1 + zlen n + zlen a in
  let padlen0 := (- p) mod 4 in
  let padlen := if (0 <? padlen0) && (padlen0 <=? 2) then padlen0 + 4 else padlen0 in
  let pad := if 2 <? padlen then [25; padlen - 2] ++ repeatZ 0 (Z.to_nat (padlen - 2)) else [] in
  do nm <- write_names files;
  do ct <- write_times_opt 18 e_ctime files;
  do lat <- write_times_opt 19 e_atime files;
  do tm <- write_times 20 e_mtime files;
  do at_ <- write_attributes files;
  Ok ([5] ++ n ++ a ++ pad ++ nm ++ ct ++ lat ++ tm ++ at_ ++ [0]).

(* Header.write(encoded=False); pos = position of the HEADER byte in the file *)
Definition write_header (enable_digests : bool) (pos : Z) (h : header) : res bytes :=
  do a <- (match h_streams h with Some s => write_streams enable_digests s | None => Ok [] end);
  do b <- (match h_files h with
           | Some f => write_files (pos + 1 + zlen a) f (h_emptyfiles h)
           | None => Ok []
           end);
  Ok ([1] ++ a ++ b ++ [0]).

(* ------------------------------------------------------------------ *)
(* Signature header                                                    *)
(* ------------------------------------------------------------------ *)
Definition MAGIC : bytes := [55; 122; 188; 175; 39; 28].
