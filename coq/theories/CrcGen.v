(* CrcGen.v -- the block loop of helpers.calculate_crc32 generated from py7zr/helpers.py (gen/HelpersCrc.v, produced by
   tools/translate.py from the current source, over an abstract zlib.crc32) computes the one-shot CRC: for every
   function zcrc32 that satisfies the append law and stays in 32 bits, every data, every start value in range, every
   positive block size, and enough fuel for the `while` (one unit per byte is enough).  Instantiated with
   Crc32.crc32_update (crc32_update_app, crc32_update_range) it is the CRC-32 of the whole data. *)
From P7 Require Import Prelude PyPrims PyStr Crc32.
From P7gen Require HelpersCrc.
From Coq Require Import ZifyBool.
Open Scope Z_scope.

Lemma land_u32 v : 0 <= v < 2 ^ 32 -> Z.land v 4294967295 = v.
Proof. intros H. change 4294967295 with (Z.ones 32). rewrite Z.land_ones by lia. apply Z.mod_small. exact H. Qed.

Lemma firstn_plus_slice {A} (l : list A) a bs : 0 <= a -> 0 < bs -> a < py_len l ->
  firstn (Z.to_nat a) l ++ py_slice l (Some a) (Some (a + bs)) = firstn (Z.to_nat (a + bs)) l.
Proof.
  intros Ha Hbs Hlt. unfold py_slice, py_clamp. set (n := py_len l) in *.
  destruct (a <? 0) eqn:E1; [lia|]. destruct (a + bs <? 0) eqn:E2; [lia|].
  rewrite (Z.min_l a n) by lia.
  destruct (Z.min (a + bs) n <=? a) eqn:E3; [lia|].
  rewrite firstn_skipn_comm.
  replace (Z.to_nat a + Z.to_nat (Z.min (a + bs) n - a))%nat with (Z.to_nat (Z.min (a + bs) n)) by lia.
  assert (Hf : firstn (Z.to_nat (Z.min (a + bs) n)) l = firstn (Z.to_nat (a + bs)) l).
  { destruct (Z.le_ge_cases (a + bs) n) as [Hle|Hge].
    - now rewrite Z.min_l by lia.
    - rewrite Z.min_r by lia. unfold n, py_len. rewrite Nat2Z.id, firstn_all.
      symmetry. apply firstn_all2. unfold n, py_len in Hge. lia. }
  rewrite Hf. set (l' := firstn (Z.to_nat (a + bs)) l).
  assert (Hl' : firstn (Z.to_nat a) l = firstn (Z.to_nat a) l').
  { unfold l'. rewrite firstn_firstn. f_equal. lia. }
  rewrite Hl'. apply firstn_skipn.
Qed.

Lemma slice_to_firstn {A} (l : list A) k : 0 <= k -> py_slice l None (Some k) = firstn (Z.to_nat k) l.
Proof.
  intros Hk. unfold py_slice, py_clamp, py_len. destruct (k <? 0) eqn:E; [lia|].
  destruct (Z.min k (Z.of_nat (length l)) <=? 0) eqn:E2.
  - assert (Hz : k = 0 \/ length l = O) by lia. destruct Hz as [-> | Hz]; [reflexivity|].
    destruct l; [now rewrite firstn_nil | discriminate].
  - rewrite Z.sub_0_r. change (Z.to_nat 0) with O. cbn [skipn].
    destruct (Z.le_ge_cases k (Z.of_nat (length l))) as [Hle|Hge].
    + now rewrite Z.min_l by lia.
    + rewrite Z.min_r by lia. rewrite Nat2Z.id, firstn_all. symmetry. apply firstn_all2. lia.
Qed.

Section Crc.
Variable zcrc32 : bytes -> Z -> Z.
Hypothesis zcrc32_range : forall d v, 0 <= v < 2 ^ 32 -> 0 <= zcrc32 d v < 2 ^ 32.
Hypothesis zcrc32_app : forall a b v, 0 <= v < 2 ^ 32 -> zcrc32 (a ++ b) v = zcrc32 b (zcrc32 a v).

Lemma gen_crc_loop (data : bytes) (v0 bs : Z) (Hv0 : 0 <= v0 < 2 ^ 32) (Hbs : 0 < bs) :
  forall (fuel : nat) (value pos : Z), 0 <= pos -> value = zcrc32 (firstn (Z.to_nat pos) data) v0 ->
    py_len data - pos <= Z.of_nat fuel ->
    exists pos', while_m fuel (fun '(value, pos) => pos <? py_len data)
        (fun '(value, pos) => Ok ((zcrc32 (py_slice data (Some pos) (Some (pos + bs))) value, pos + bs), false))
        (value, pos) = Ok (zcrc32 data v0, pos').
Proof.
  induction fuel as [|f IH]; intros value pos Hpos Hval Hfuel.
  - cbn [while_m]. destruct (pos <? py_len data) eqn:E; [lia|].
    exists pos. rewrite Hval. f_equal. f_equal. f_equal. apply firstn_all2. unfold py_len in E. lia.
  - cbn [while_m]. destruct (pos <? py_len data) eqn:E.
    + apply IH; [lia | | lia].
      rewrite Hval, <- zcrc32_app by exact Hv0. f_equal. apply firstn_plus_slice; lia.
    + exists pos. rewrite Hval. f_equal. f_equal. f_equal. apply firstn_all2. unfold py_len in E. lia.
Qed.

Theorem gen_calculate_crc32 (fuel : nat) (data : bytes) (value blocksize : Z) :
  0 <= value < 2 ^ 32 -> 0 < blocksize -> (length data <= fuel)%nat ->
  HelpersCrc.calculate_crc32 zcrc32 fuel data value blocksize = Ok (zcrc32 data value).
Proof.
  intros Hv Hbs Hfuel. unfold HelpersCrc.calculate_crc32.
  destruct (py_len data <=? blocksize) eqn:E.
  - cbv zeta. now rewrite land_u32 by (apply zcrc32_range; exact Hv).
  - cbv zeta. rewrite slice_to_firstn by lia.
    destruct (gen_crc_loop data value blocksize Hv Hbs fuel
                (zcrc32 (firstn (Z.to_nat blocksize) data) value) blocksize) as [pos' Hl];
      [lia | reflexivity | unfold py_len in *; lia |].
    rewrite Hl. cbn [bind]. now rewrite land_u32 by (apply zcrc32_range; exact Hv).
Qed.
End Crc.

(* the hypotheses are satisfiable, by the function they stand for: zlib.crc32(data, value) = Crc32.crc32_update value data *)
Theorem gen_calculate_crc32_is_crc32 (fuel : nat) (data : bytes) (value blocksize : Z) :
  0 <= value < 2 ^ 32 -> 0 < blocksize -> (length data <= fuel)%nat ->
  HelpersCrc.calculate_crc32 (fun d v => crc32_update v d) fuel data value blocksize = Ok (crc32_update value data).
Proof.
  apply (gen_calculate_crc32 (fun d v => crc32_update v d)).
  - intros d v Hv. now apply crc32_update_range.
  - intros a b v Hv. now apply crc32_update_app.
Qed.

(* the default call calculate_crc32(data): value 0, blocks of 1 MiB *)
Corollary gen_calculate_crc32_default (data : bytes) :
  HelpersCrc.calculate_crc32 (fun d v => crc32_update v d) (length data) data 0 (1024 * 1024) = Ok (crc32 data).
Proof. apply gen_calculate_crc32_is_crc32; [cbn; lia | lia | lia]. Qed.

(* non-vacuity: the loop really runs (block size 4 over 9 bytes: three calls), "123456789" -> 0xCBF43926 *)
Example ex_gen_crc :
  HelpersCrc.calculate_crc32 (fun d v => crc32_update v d) 9 [49;50;51;52;53;54;55;56;57] 0 4 = Ok 3421780262.
Proof. vm_compute. reflexivity. Qed.
(* without a positive block size the Python loops forever: here the fuel runs out *)
Example ex_gen_crc_fuel :
  HelpersCrc.calculate_crc32 (fun d v => crc32_update v d) 50 [1; 2; 3] 0 0 = Err EFuel.
Proof. vm_compute. reflexivity. Qed.
