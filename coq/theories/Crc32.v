(* Crc32.v -- bit-serial model of CRC-32 (zlib / IEEE 802.3: reflected
   polynomial 0xEDB88320, init 0xFFFFFFFF, final xor 0xFFFFFFFF) together
   with its algebraic properties: chaining, range, injectivity in the
   initial value, GF(2)-linearity and detection of every error burst of at
   most 32 bits.  stdlib only; no axioms. *)
From P7 Require Import Prelude.
From Coq Require Import NArith ZArith List Bool Lia.
Import ListNotations.

Local Open Scope N_scope.

(* ------------------------------------------------------------------ *)
(** * Definitions (all computable)                                      *)
(* ------------------------------------------------------------------ *)

Definition crc_poly : N := 3988292384.   (* 0xEDB88320 *)
Definition crc_mask : N := 4294967295.   (* 0xFFFFFFFF *)

(* One LFSR bit-step. *)
Definition crc_step (s : N) : N :=
  N.lxor (N.shiftr s 1) (if N.odd s then 3988292384 else 0).

(* Feed one byte: xor it into the low bits, then 8 bit-steps. *)
Definition crc_byte (s : N) (b : N) : N :=
  crc_step (crc_step (crc_step (crc_step
  (crc_step (crc_step (crc_step (crc_step (N.lxor s b)))))))).

(* Conversion of a stream byte to N.  zlib.crc32 only ever sees values
   0..255; [Z.to_N] is the conversion and the [N.land _ 255] is the identity
   on every well-formed byte (lemma [byteN_wf]).  The mask only makes the
   model total, so that the range theorem needs no [wf_bytes] hypothesis. *)
Definition byteN (b : Z) : N := N.land (Z.to_N b) 255.

Fixpoint crc_raw (s : N) (data : bytes) : N :=
  match data with
  | [] => s
  | b :: r => crc_raw (crc_byte s (byteN b)) r
  end.

(* [crc32_update v data] is what [zlib.crc32(data, v)] returns, 0 <= v < 2^32 *)
Definition crc32_update (v : Z) (data : bytes) : Z :=
  Z.of_N (N.lxor (crc_raw (N.lxor (Z.to_N v) 4294967295) data) 4294967295).

Definition crc32 (data : bytes) : Z := crc32_update 0 data.

Arguments crc_step : simpl never.
Arguments crc_byte : simpl never.
Arguments crc32_update : simpl never.
Local Arguments N.lxor : simpl never.
Local Arguments N.land : simpl never.
Local Arguments N.shiftl : simpl never.
Local Arguments N.shiftr : simpl never.
Local Arguments N.testbit : simpl never.
Local Arguments N.pow : simpl never.

(* "123456789" -> 0xCBF43926 *)
Example crc32_check :
  crc32 [49;50;51;52;53;54;55;56;57]%Z = 3421780262%Z.
Proof. vm_compute. reflexivity. Qed.

Example crc32_empty : crc32 [] = 0%Z.
Proof. vm_compute. reflexivity. Qed.

(* zlib.crc32(bytes([0,255,17,200,3]), 123456789) == 2623950312 *)
Example crc32_update_check :
  crc32_update 123456789 [0;255;17;200;3]%Z = 2623950312%Z.
Proof. vm_compute. reflexivity. Qed.

(* Auxiliary models used in the proofs and in the burst statements. *)

(* the same fold over a list of N (no byte conversion) *)
Fixpoint crc_rawN (s : N) (l : list N) : N :=
  match l with
  | [] => s
  | b :: r => crc_rawN (crc_byte s b) r
  end.

(* n bit-steps *)
Fixpoint stepn (n : nat) (s : N) : N :=
  match n with
  | O => s
  | S n' => stepn n' (crc_step s)
  end.

(* A byte string seen as one little-endian bit string: bit j of byte i is
   bit 8*i+j of the result (lemma [le_bits_spec]).  This is the order in
   which the reflected CRC consumes the bits (LSB of each byte first). *)
Fixpoint le_word (l : list N) : N :=
  match l with
  | [] => 0
  | x :: r => N.lxor x (N.shiftl (le_word r) 8)
  end.

Definition le_bits (m : bytes) : N := le_word (map byteN m).

(* ------------------------------------------------------------------ *)
(** * Bit-level toolkit                                                 *)
(* ------------------------------------------------------------------ *)

Ltac bitwise :=
  apply N.bits_inj; intro;
  rewrite ?N.lxor_spec, ?N.bits_0;
  repeat match goal with
         | |- context [N.testbit ?a ?i] => destruct (N.testbit a i)
         end;
  reflexivity.

Lemma lt_pow2_bits (a n : N) :
  a < 2 ^ n <-> (forall i, n <= i -> N.testbit a i = false).
Proof.
  split.
  - intros Hlt i Hi.
    destruct (N.eq_dec a 0) as [Ha | Ha].
    + subst a. apply N.bits_0.
    + apply N.bits_above_log2.
      assert (Hl : N.log2 a < n) by (apply N.log2_lt_pow2; lia).
      lia.
  - intros Hbits.
    destruct (N.lt_ge_cases a (2 ^ n)) as [Hlt | Hge]; [exact Hlt | exfalso].
    assert (Hpos : 0 < a).
    { assert (Hp : 0 < 2 ^ n) by (apply N.neq_0_lt_0, N.pow_nonzero; lia). lia. }
    assert (Hl : n <= N.log2 a) by (apply N.log2_le_pow2; assumption).
    assert (Hb : N.testbit a (N.log2 a) = true) by (apply N.bit_log2; lia).
    rewrite (Hbits _ Hl) in Hb. discriminate Hb.
Qed.

Lemma lxor_lt_pow2 (a b n : N) : a < 2 ^ n -> b < 2 ^ n -> N.lxor a b < 2 ^ n.
Proof.
  intros Ha Hb. apply lt_pow2_bits. intros i Hi.
  rewrite N.lxor_spec.
  rewrite (proj1 (lt_pow2_bits a n) Ha i Hi), (proj1 (lt_pow2_bits b n) Hb i Hi).
  reflexivity.
Qed.

Lemma lt_pow2_mono (a n m : N) : n <= m -> a < 2 ^ n -> a < 2 ^ m.
Proof.
  intros Hnm Ha. apply lt_pow2_bits. intros i Hi.
  apply (proj1 (lt_pow2_bits a n) Ha). lia.
Qed.

Lemma lxor_cancel_r (a b c : N) : N.lxor a c = N.lxor b c -> a = b.
Proof.
  intros H.
  assert (H' : N.lxor (N.lxor a c) c = N.lxor (N.lxor b c) c) by (rewrite H; reflexivity).
  rewrite !N.lxor_assoc, !N.lxor_nilpotent, !N.lxor_0_r in H'. exact H'.
Qed.

Lemma lxor_cancel_l (a b c : N) : N.lxor c a = N.lxor c b -> a = b.
Proof.
  intros H. apply (lxor_cancel_r a b c).
  rewrite (N.lxor_comm a c), (N.lxor_comm b c). exact H.
Qed.

Lemma lxor_twice_r (a c : N) : N.lxor (N.lxor a c) c = a.
Proof. rewrite N.lxor_assoc, N.lxor_nilpotent, N.lxor_0_r. reflexivity. Qed.

Lemma poly_lt32 : 3988292384 < 2 ^ 32.
Proof. vm_compute. reflexivity. Qed.

Lemma mask_lt32 : 4294967295 < 2 ^ 32.
Proof. vm_compute. reflexivity. Qed.

Lemma poly_bit31 : N.testbit 3988292384 31 = true.
Proof. vm_compute. reflexivity. Qed.

(* ------------------------------------------------------------------ *)
(** * Bytes                                                             *)
(* ------------------------------------------------------------------ *)

Lemma byteN_lt256 (b : Z) : byteN b < 2 ^ 8.
Proof.
  unfold byteN. change 255 with (N.ones 8). rewrite N.land_ones.
  apply N.mod_lt. apply N.pow_nonzero. lia.
Qed.

Lemma byteN_lt32 (b : Z) : byteN b < 2 ^ 32.
Proof. apply (lt_pow2_mono _ 8 32); [lia | apply byteN_lt256]. Qed.

Lemma byteN_wf (b : Z) : is_byte b = true -> byteN b = Z.to_N b.
Proof.
  intros Hb. unfold is_byte in Hb.
  apply andb_prop in Hb. destruct Hb as [Hlo Hhi].
  apply Z.leb_le in Hlo. apply Z.ltb_lt in Hhi.
  unfold byteN. change 255 with (N.ones 8). rewrite N.land_ones.
  apply N.mod_small. change (2 ^ 8) with 256. lia.
Qed.

Lemma byteN_inj (a b : Z) :
  is_byte a = true -> is_byte b = true -> byteN a = byteN b -> a = b.
Proof.
  intros Ha Hb Heq.
  rewrite (byteN_wf a Ha), (byteN_wf b Hb) in Heq.
  unfold is_byte in Ha, Hb.
  apply andb_prop in Ha. destruct Ha as [Ha _]. apply Z.leb_le in Ha.
  apply andb_prop in Hb. destruct Hb as [Hb _]. apply Z.leb_le in Hb.
  apply Z2N.inj; assumption.
Qed.

Lemma map_byteN_inj (w1 w2 : bytes) :
  wf_bytes w1 = true -> wf_bytes w2 = true ->
  map byteN w1 = map byteN w2 -> w1 = w2.
Proof.
  revert w2. induction w1 as [| x r IH]; intros w2 H1 H2 Heq.
  - destruct w2 as [| y r2]; [reflexivity | discriminate Heq].
  - destruct w2 as [| y r2]; [discriminate Heq |].
    cbn [map] in Heq. injection Heq as Hxy Hr.
    unfold wf_bytes in H1, H2. cbn [forallb] in H1, H2.
    apply andb_prop in H1. destruct H1 as [Hx Hr1].
    apply andb_prop in H2. destruct H2 as [Hy Hr2].
    f_equal.
    + apply byteN_inj; assumption.
    + apply IH; assumption.
Qed.

(* ------------------------------------------------------------------ *)
(** * One step: range, injectivity, linearity                           *)
(* ------------------------------------------------------------------ *)

Lemma crc_step_0 : crc_step 0 = 0.
Proof. vm_compute. reflexivity. Qed.

Lemma crc_step_lt32 (s : N) : s < 2 ^ 32 -> crc_step s < 2 ^ 32.
Proof.
  intros Hs. unfold crc_step. apply lt_pow2_bits. intros i Hi.
  rewrite N.lxor_spec, N.shiftr_spec'.
  rewrite (proj1 (lt_pow2_bits s 32) Hs (i + 1)) by lia.
  destruct (N.odd s).
  - rewrite (proj1 (lt_pow2_bits _ 32) poly_lt32 i Hi). reflexivity.
  - rewrite N.bits_0. reflexivity.
Qed.

(* bit 31 of the new state remembers the bit that was shifted out *)
Lemma crc_step_bit31 (s : N) :
  s < 2 ^ 32 -> N.testbit (crc_step s) 31 = N.odd s.
Proof.
  intros Hs. unfold crc_step.
  rewrite N.lxor_spec, N.shiftr_spec'.
  rewrite (proj1 (lt_pow2_bits s 32) Hs (31 + 1)) by lia.
  destruct (N.odd s).
  - rewrite poly_bit31. reflexivity.
  - rewrite N.bits_0. reflexivity.
Qed.

Theorem crc_step_inj : forall a b : N,
  a < 2 ^ 32 -> b < 2 ^ 32 -> crc_step a = crc_step b -> a = b.
Proof.
  intros a b Ha Hb Heq.
  assert (Hodd : N.odd a = N.odd b).
  { rewrite <- (crc_step_bit31 a Ha), <- (crc_step_bit31 b Hb), Heq. reflexivity. }
  unfold crc_step in Heq. rewrite Hodd in Heq.
  apply lxor_cancel_r in Heq.
  rewrite (N.div2_odd a), (N.div2_odd b).
  rewrite !N.div2_spec, Heq, Hodd. reflexivity.
Qed.

Lemma odd_lxor (a b : N) : N.odd (N.lxor a b) = xorb (N.odd a) (N.odd b).
Proof. rewrite <- !N.bit0_odd. apply N.lxor_spec. Qed.

(* crc_step is linear over GF(2) *)
Theorem crc_step_lxor : forall a b : N,
  crc_step (N.lxor a b) = N.lxor (crc_step a) (crc_step b).
Proof.
  intros a b. unfold crc_step.
  rewrite N.shiftr_lxor, odd_lxor.
  destruct (N.odd a), (N.odd b); cbn [xorb]; bitwise.
Qed.

(* on an even value a step is a plain right shift *)
Lemma crc_step_shiftl (e k : N) :
  crc_step (N.shiftl e (N.succ k)) = N.shiftl e k.
Proof.
  unfold crc_step.
  assert (Hodd : N.odd (N.shiftl e (N.succ k)) = false).
  { rewrite <- N.bit0_odd. apply N.shiftl_spec_low. lia. }
  rewrite Hodd, N.lxor_0_r.
  rewrite N.shiftr_shiftl_l by lia.
  f_equal. lia.
Qed.

(* ------------------------------------------------------------------ *)
(** * n steps                                                           *)
(* ------------------------------------------------------------------ *)

Lemma stepn_add (a b : nat) (s : N) : stepn (a + b) s = stepn b (stepn a s).
Proof.
  revert s. induction a as [| a IH]; intros s.
  - reflexivity.
  - cbn [Nat.add stepn]. apply IH.
Qed.

Lemma stepn_0 (n : nat) : stepn n 0 = 0.
Proof.
  induction n as [| n IH]; [reflexivity |].
  cbn [stepn]. rewrite crc_step_0. exact IH.
Qed.

Lemma stepn_lxor (n : nat) (a b : N) :
  stepn n (N.lxor a b) = N.lxor (stepn n a) (stepn n b).
Proof.
  revert a b. induction n as [| n IH]; intros a b.
  - reflexivity.
  - cbn [stepn]. rewrite crc_step_lxor. apply IH.
Qed.

Lemma stepn_lt32 (n : nat) (s : N) : s < 2 ^ 32 -> stepn n s < 2 ^ 32.
Proof.
  revert s. induction n as [| n IH]; intros s Hs.
  - exact Hs.
  - cbn [stepn]. apply IH, crc_step_lt32, Hs.
Qed.

Lemma stepn_inj (n : nat) (a b : N) :
  a < 2 ^ 32 -> b < 2 ^ 32 -> stepn n a = stepn n b -> a = b.
Proof.
  revert a b. induction n as [| n IH]; intros a b Ha Hb Heq.
  - exact Heq.
  - cbn [stepn] in Heq.
    apply crc_step_inj; [exact Ha | exact Hb |].
    apply IH; [apply crc_step_lt32, Ha | apply crc_step_lt32, Hb | exact Heq].
Qed.

Lemma stepn_eq_0 (n : nat) (a : N) : a < 2 ^ 32 -> stepn n a = 0 -> a = 0.
Proof.
  intros Ha Heq. apply (stepn_inj n a 0 Ha).
  - apply N.neq_0_lt_0, N.pow_nonzero. lia.
  - rewrite stepn_0. exact Heq.
Qed.

Lemma stepn_shiftl (n : nat) (e : N) : stepn n (N.shiftl e (N.of_nat n)) = e.
Proof.
  induction n as [| n IH].
  - cbn [stepn N.of_nat]. apply N.shiftl_0_r.
  - cbn [stepn]. rewrite Nat2N.inj_succ, crc_step_shiftl. exact IH.
Qed.

(* a non-zero pattern of at most 32 bits placed anywhere is never mapped
   to 0 by any number of steps *)
Lemma stepn_shifted_nonzero (n : nat) (e k : N) :
  e < 2 ^ 32 -> e <> 0 -> stepn n (N.shiftl e k) <> 0.
Proof.
  intros He Hnz Heq.
  destruct (Nat.le_gt_cases (N.to_nat k) n) as [Hle | Hgt].
  - rewrite <- (N2Nat.id k) in Heq.
    remember (N.to_nat k) as k' eqn:Hk'.
    replace n with (k' + (n - k'))%nat in Heq by lia.
    rewrite stepn_add, stepn_shiftl in Heq.
    apply Hnz. exact (stepn_eq_0 _ e He Heq).
  - replace k with ((k - N.of_nat n) + N.of_nat n) in Heq by lia.
    rewrite <- N.shiftl_shiftl, stepn_shiftl in Heq.
    apply N.shiftl_eq_0_iff in Heq. apply Hnz. exact Heq.
Qed.

(* ------------------------------------------------------------------ *)
(** * Bytes and messages in terms of stepn                              *)
(* ------------------------------------------------------------------ *)

Lemma crc_byte_stepn (s b : N) : crc_byte s b = stepn 8 (N.lxor s b).
Proof. reflexivity. Qed.

Lemma crc_byte_lt32 (s b : N) :
  s < 2 ^ 32 -> b < 2 ^ 32 -> crc_byte s b < 2 ^ 32.
Proof.
  intros Hs Hb. rewrite crc_byte_stepn.
  apply stepn_lt32, lxor_lt_pow2; assumption.
Qed.

Lemma crc_byte_lxor (s t x y : N) :
  crc_byte (N.lxor s t) (N.lxor x y) = N.lxor (crc_byte s x) (crc_byte t y).
Proof.
  rewrite !crc_byte_stepn, <- stepn_lxor. f_equal. bitwise.
Qed.

Lemma crc_raw_rawN (s : N) (d : bytes) : crc_raw s d = crc_rawN s (map byteN d).
Proof.
  revert s. induction d as [| b r IH]; intros s.
  - reflexivity.
  - cbn [crc_raw map crc_rawN]. apply IH.
Qed.

Lemma crc_raw_app (s : N) (a b : bytes) :
  crc_raw s (a ++ b) = crc_raw (crc_raw s a) b.
Proof.
  revert s. induction a as [| x r IH]; intros s.
  - reflexivity.
  - cbn [app crc_raw]. apply IH.
Qed.

Lemma crc_raw_lt32 (s : N) (d : bytes) : s < 2 ^ 32 -> crc_raw s d < 2 ^ 32.
Proof.
  revert s. induction d as [| b r IH]; intros s Hs.
  - exact Hs.
  - cbn [crc_raw]. apply IH, crc_byte_lt32; [exact Hs | apply byteN_lt32].
Qed.

(* Key identity: feeding the bytes one at a time is the same as xoring the
   whole message (as a little-endian bit string) into the register at the
   start and then clocking 8 bits per byte. *)
Lemma crc_rawN_le_word (s : N) (e : list N) :
  crc_rawN s e = stepn (8 * length e) (N.lxor s (le_word e)).
Proof.
  revert s. induction e as [| x r IH]; intros s.
  - cbn [crc_rawN le_word length]. rewrite N.lxor_0_r, Nat.mul_0_r. reflexivity.
  - cbn [crc_rawN le_word]. rewrite IH.
    replace (8 * length (x :: r))%nat with (8 + 8 * length r)%nat
      by (cbn [length]; lia).
    rewrite stepn_add. f_equal.
    rewrite crc_byte_stepn.
    replace (N.lxor s (N.lxor x (N.shiftl (le_word r) 8)))
      with (N.lxor (N.lxor s x) (N.shiftl (le_word r) (N.of_nat 8))).
    + rewrite (stepn_lxor 8 (N.lxor s x)), stepn_shiftl. reflexivity.
    + change (N.of_nat 8) with 8. apply N.lxor_assoc.
Qed.

Lemma crc_raw_le_bits (s : N) (d : bytes) :
  crc_raw s d = stepn (8 * length d) (N.lxor s (le_bits d)).
Proof.
  rewrite crc_raw_rawN, crc_rawN_le_word, map_length. reflexivity.
Qed.

(* Linearity in the register: the difference of two registers fed the SAME
   message evolves independently of that message. *)
Theorem crc_raw_lxor_state : forall (s t : N) (d : bytes),
  N.lxor (crc_raw s d) (crc_raw t d) = stepn (8 * length d) (N.lxor s t).
Proof.
  intros s t d. rewrite !crc_raw_le_bits, <- stepn_lxor. f_equal. bitwise.
Qed.

(* Linearity in the message: the register difference of two equal-length
   messages fed from registers s and t depends only on s xor t and on the
   xor of the messages. *)
Theorem crc_raw_lxor_msg : forall (s t : N) (d1 d2 : bytes),
  length d1 = length d2 ->
  N.lxor (crc_raw s d1) (crc_raw t d2) =
  stepn (8 * length d1) (N.lxor (N.lxor s t) (N.lxor (le_bits d1) (le_bits d2))).
Proof.
  intros s t d1 d2 Hlen. rewrite !crc_raw_le_bits, <- Hlen, <- stepn_lxor.
  f_equal. bitwise.
Qed.

(* ------------------------------------------------------------------ *)
(** * le_word / le_bits facts                                           *)
(* ------------------------------------------------------------------ *)

Definition all_lt256 (l : list N) : Prop := forall x, In x l -> x < 2 ^ 8.

Lemma all_lt256_map (d : bytes) : all_lt256 (map byteN d).
Proof.
  intros x Hin. apply in_map_iff in Hin. destruct Hin as [b [Hb _]].
  subst x. apply byteN_lt256.
Qed.

(* for proper bytes, le_word is the ordinary little-endian number *)
Lemma le_word_cons_arith (x : N) (r : list N) :
  x < 2 ^ 8 -> le_word (x :: r) = x + 256 * le_word r.
Proof.
  intros Hx. cbn [le_word].
  rewrite <- N.add_nocarry_lxor.
  - rewrite N.shiftl_mul_pow2. change (2 ^ 8) with 256. lia.
  - apply N.bits_inj. intro i. rewrite N.land_spec, N.bits_0.
    destruct (N.lt_ge_cases i 8) as [Hlt | Hge].
    + rewrite N.shiftl_spec_low by exact Hlt. apply andb_false_r.
    + rewrite (proj1 (lt_pow2_bits x 8) Hx i Hge). reflexivity.
Qed.

Lemma le_word_lt (l : list N) :
  all_lt256 l -> le_word l < 2 ^ (8 * N.of_nat (length l)).
Proof.
  induction l as [| x r IH]; intros Hall.
  - cbn [le_word length N.of_nat]. rewrite N.mul_0_r. change (2 ^ 0) with 1. lia.
  - assert (Hx : x < 2 ^ 8) by (apply Hall; left; reflexivity).
    assert (Hr : all_lt256 r) by (intros y Hy; apply Hall; right; exact Hy).
    specialize (IH Hr).
    rewrite (le_word_cons_arith x r Hx).
    cbn [length]. rewrite Nat2N.inj_succ.
    replace (8 * N.succ (N.of_nat (length r))) with (8 + 8 * N.of_nat (length r)) by lia.
    rewrite N.pow_add_r.
    change (2 ^ 8) with 256 in *.
    nia.
Qed.

Lemma le_word_inj (a b : list N) :
  all_lt256 a -> all_lt256 b -> length a = length b ->
  le_word a = le_word b -> a = b.
Proof.
  revert b. induction a as [| x r IH]; intros b Ha Hb Hlen Heq.
  - destruct b as [| y r2]; [reflexivity | discriminate Hlen].
  - destruct b as [| y r2]; [discriminate Hlen |].
    assert (Hx : x < 2 ^ 8) by (apply Ha; left; reflexivity).
    assert (Hy : y < 2 ^ 8) by (apply Hb; left; reflexivity).
    assert (Hr : all_lt256 r) by (intros z Hz; apply Ha; right; exact Hz).
    assert (Hr2 : all_lt256 r2) by (intros z Hz; apply Hb; right; exact Hz).
    rewrite (le_word_cons_arith x r Hx), (le_word_cons_arith y r2 Hy) in Heq.
    change (2 ^ 8) with 256 in Hx, Hy.
    assert (Hxy : x = y) by lia.
    assert (Hw : le_word r = le_word r2) by lia.
    cbn [length] in Hlen. injection Hlen as Hlen.
    f_equal; [exact Hxy | apply IH; assumption].
Qed.

Lemma le_word_app (a b : list N) :
  le_word (a ++ b) =
  N.lxor (le_word a) (N.shiftl (le_word b) (8 * N.of_nat (length a))).
Proof.
  induction a as [| x r IH].
  - cbn [app le_word length N.of_nat]. rewrite N.mul_0_r, N.shiftl_0_r, N.lxor_0_l.
    reflexivity.
  - cbn [app le_word length]. rewrite IH, N.shiftl_lxor, N.shiftl_shiftl, N.lxor_assoc.
    rewrite Nat2N.inj_succ.
    replace (8 * N.succ (N.of_nat (length r))) with (8 * N.of_nat (length r) + 8) by lia.
    reflexivity.
Qed.

(* Justification of the name: bit j of byte i is bit 8*i+j of [le_bits m]. *)
Lemma le_bits_spec (m : bytes) (i : nat) (j : N) :
  j < 8 ->
  N.testbit (le_bits m) (8 * N.of_nat i + j) = N.testbit (byteN (nth i m 0%Z)) j.
Proof.
  unfold le_bits. revert i. induction m as [| x r IH]; intros i Hj.
  - cbn [map le_word]. rewrite N.bits_0.
    destruct i; cbn [nth]; symmetry; apply N.bits_0.
  - cbn [map le_word]. rewrite N.lxor_spec.
    destruct i as [| i].
    + cbn [nth N.of_nat]. rewrite N.mul_0_r, N.add_0_l.
      rewrite N.shiftl_spec_low by exact Hj. apply xorb_false_r.
    + cbn [nth].
      rewrite (proj1 (lt_pow2_bits _ 8) (byteN_lt256 x)) by lia.
      rewrite N.shiftl_spec_high' by lia.
      rewrite xorb_false_l, <- (IH i Hj). f_equal. lia.
Qed.

(* ------------------------------------------------------------------ *)
(** * Burst detection on the raw register                               *)
(* ------------------------------------------------------------------ *)

Lemma crc_raw_burst (s : N) (m1 m2 : bytes) (e k : N) :
  length m1 = length m2 ->
  N.lxor (le_bits m1) (le_bits m2) = N.shiftl e k ->
  e < 2 ^ 32 -> e <> 0 ->
  crc_raw s m1 <> crc_raw s m2.
Proof.
  intros Hlen Hdiff He Hnz Heq.
  assert (Hz : N.lxor (crc_raw s m1) (crc_raw s m2) = 0)
    by (rewrite Heq; apply N.lxor_nilpotent).
  rewrite (crc_raw_lxor_msg s s m1 m2 Hlen) in Hz.
  rewrite N.lxor_nilpotent, N.lxor_0_l, Hdiff in Hz.
  exact (stepn_shifted_nonzero _ e k He Hnz Hz).
Qed.

Local Open Scope Z_scope.

(* ------------------------------------------------------------------ *)
(** * Theorems about crc32_update                                       *)
(* ------------------------------------------------------------------ *)

Lemma to_N_lt32 (v : Z) : 0 <= v < 2 ^ 32 -> (Z.to_N v < 2 ^ 32)%N.
Proof.
  intros Hv. change (2 ^ 32)%N with 4294967296%N.
  change (2 ^ 32) with 4294967296 in Hv. lia.
Qed.

Lemma of_N_lt32 (x : N) : (x < 2 ^ 32)%N -> 0 <= Z.of_N x < 2 ^ 32.
Proof.
  intros Hx. change (2 ^ 32)%N with 4294967296%N in Hx.
  change (2 ^ 32) with 4294967296. lia.
Qed.

Lemma init_lt32 (v : Z) :
  0 <= v < 2 ^ 32 -> (N.lxor (Z.to_N v) 4294967295 < 2 ^ 32)%N.
Proof.
  intros Hv. apply lxor_lt_pow2; [apply to_N_lt32, Hv | exact mask_lt32].
Qed.

Lemma crc32_update_nil : forall v, 0 <= v < 2 ^ 32 -> crc32_update v [] = v.
Proof.
  intros v Hv. unfold crc32_update. cbn [crc_raw].
  rewrite lxor_twice_r. apply Z2N.id. lia.
Qed.

(* 2 *)
Theorem crc32_update_range : forall v d,
  0 <= v < 2 ^ 32 -> 0 <= crc32_update v d < 2 ^ 32.
Proof.
  intros v d Hv. unfold crc32_update. apply of_N_lt32.
  apply lxor_lt_pow2; [| exact mask_lt32].
  apply crc_raw_lt32, init_lt32, Hv.
Qed.

(* 1 *)
Theorem crc32_update_app : forall v a b,
  0 <= v < 2 ^ 32 ->
  crc32_update v (a ++ b) = crc32_update (crc32_update v a) b.
Proof.
  intros v a b _. unfold crc32_update.
  rewrite crc_raw_app, N2Z.id, lxor_twice_r. reflexivity.
Qed.

(* 3 *)
Theorem crc32_update_inj_init : forall d v1 v2,
  0 <= v1 < 2 ^ 32 -> 0 <= v2 < 2 ^ 32 ->
  crc32_update v1 d = crc32_update v2 d -> v1 = v2.
Proof.
  intros d v1 v2 H1 H2 Heq. unfold crc32_update in Heq.
  apply N2Z.inj in Heq. apply lxor_cancel_r in Heq.
  assert (Hz : N.lxor (crc_raw (N.lxor (Z.to_N v1) 4294967295) d)
                      (crc_raw (N.lxor (Z.to_N v2) 4294967295) d) = 0%N)
    by (rewrite Heq; apply N.lxor_nilpotent).
  rewrite crc_raw_lxor_state in Hz.
  apply stepn_eq_0 in Hz.
  - apply N.lxor_eq in Hz. apply lxor_cancel_r in Hz.
    apply Z2N.inj; [lia | lia | exact Hz].
  - apply lxor_lt_pow2; apply init_lt32; assumption.
Qed.

(* 6. Burst detection, general form.

   Read both messages as bit strings in transmission order (bit j of byte i
   is bit number 8*i+j; this is [le_bits], see [le_bits_spec]).  If the
   messages have the same length and the xor of the two bit strings is
   [N.shiftl e k] for some non-zero e < 2^32 -- i.e. the differing bits are
   non-empty and confined to the 32 consecutive bit positions k .. k+31,
   wherever that window lies and however it straddles byte boundaries (up
   to 5 bytes) -- then the two CRCs differ, whatever the initial value.
   The bytes are read through [byteN], which is the identity on well-formed
   bytes, so no [wf_bytes] hypothesis is needed. *)
Theorem crc32_burst32 : forall v m1 m2 (e k : N),
  length m1 = length m2 ->
  N.lxor (le_bits m1) (le_bits m2) = N.shiftl e k ->
  (0 < e < 2 ^ 32)%N ->
  crc32_update v m1 <> crc32_update v m2.
Proof.
  intros v m1 m2 e k Hlen Hdiff He Heq. unfold crc32_update in Heq.
  apply N2Z.inj in Heq. apply lxor_cancel_r in Heq.
  revert Heq. apply (crc_raw_burst _ m1 m2 e k Hlen Hdiff); lia.
Qed.

(* 5. Burst detection, byte-window form: changing at most 4 consecutive
   bytes always changes the CRC. *)
Theorem crc32_burst4 : forall v p w1 w2 q,
  0 <= v < 2 ^ 32 ->
  wf_bytes w1 = true -> wf_bytes w2 = true ->
  length w1 = length w2 -> (length w1 <= 4)%nat -> w1 <> w2 ->
  crc32_update v (p ++ w1 ++ q) <> crc32_update v (p ++ w2 ++ q).
Proof.
  intros v p w1 w2 q _ Hwf1 Hwf2 Hlen Hle Hne.
  set (e := N.lxor (le_bits w1) (le_bits w2)).
  apply (crc32_burst32 v _ _ e (8 * N.of_nat (length p))%N).
  - rewrite !app_length, Hlen. reflexivity.
  - unfold le_bits. rewrite !map_app, !le_word_app, !map_length, Hlen.
    unfold e, le_bits.
    set (A := le_word (map byteN p)).
    set (B1 := le_word (map byteN w1)).
    set (B2 := le_word (map byteN w2)).
    set (C := N.shiftl (le_word (map byteN q)) (8 * N.of_nat (length w2))).
    set (K := (8 * N.of_nat (length p))%N).
    replace (N.lxor (N.lxor A (N.shiftl (N.lxor B1 C) K))
                    (N.lxor A (N.shiftl (N.lxor B2 C) K)))
      with (N.lxor (N.shiftl (N.lxor B1 C) K) (N.shiftl (N.lxor B2 C) K))
      by bitwise.
    rewrite <- N.shiftl_lxor. f_equal. bitwise.
  - split.
    + apply N.neq_0_lt_0. intro Hz. unfold e in Hz.
      apply N.lxor_eq in Hz. unfold le_bits in Hz.
      apply le_word_inj in Hz.
      * apply Hne, map_byteN_inj; assumption.
      * apply all_lt256_map.
      * apply all_lt256_map.
      * rewrite !map_length. exact Hlen.
    + unfold e. apply lxor_lt_pow2.
      * apply (lt_pow2_mono _ (8 * N.of_nat (length w1))); [lia |].
        unfold le_bits. rewrite <- (map_length byteN w1).
        apply le_word_lt, all_lt256_map.
      * apply (lt_pow2_mono _ (8 * N.of_nat (length w2))); [lia |].
        unfold le_bits. rewrite <- (map_length byteN w2).
        apply le_word_lt, all_lt256_map.
Qed.

Print Assumptions crc32_check.
Print Assumptions crc32_update_nil.
Print Assumptions crc32_update_app.
Print Assumptions crc32_update_range.
Print Assumptions crc_step_inj.
Print Assumptions crc32_update_inj_init.
Print Assumptions crc_step_lxor.
Print Assumptions crc_raw_lxor_state.
Print Assumptions crc_raw_lxor_msg.
Print Assumptions le_bits_spec.
Print Assumptions crc32_burst4.
Print Assumptions crc32_burst32.
