(* AssignProofs.v -- C06: py7zr's entry -> (folder, offset, size, CRC, id, kind) assignment
   (Assign.v, impl_plans) agrees with what the format defines (Spec.v, spec_plans) on every
   structurally valid header that satisfies `nice`; each clause of `nice` is necessary.
   The kind of an entry without data (directory / empty file) is the format's for EVERY attribute word,
   defined or not (assign_dir_without_attribute_conforms, assign_emptyfile_with_dir_attribute_conforms).
   The header may carry its SubStreamsInfo (embed, assign_conforms), omit it (embed_nosub,
   assign_conforms_no_substreams) or have no MainStreamsInfo at all (embed_nostreams). *)
From Coq Require Import ZifyBool.
From P7 Require Import Prelude PyPrims Number Header Spec Assign.
Open Scope Z_scope.

(* ------------------------------------------------------------------ *)
(* Definitions                                                         *)
(* ------------------------------------------------------------------ *)
Definition is_some {A} (o : option A) : bool := match o with Some _ => true | None => false end.
Definition or0 (o : option Z) : Z := match o with Some v => v | None => 0 end.
Definition defined_values (l : list (option Z)) : list Z :=
  flat_map (fun o => match o with Some v => [v] | None => [] end) l.

(* the header graph py7zr's parser builds for a specification header *)
Definition embed_folder (f : sfolder) : folder :=
  mkFolder (sf_coders f) (sf_bonds f) (sf_packed f) (sf_unpacksizes f) (is_some (sf_crc f)) (sf_crc f).
Definition embed_pack (h : sheader) : packinfo :=
  if existsb is_some (sh_packcrcs h)
  then mkPack (sh_packpos h) (zlen (sh_packsizes h)) (sh_packsizes h)
              (map is_some (sh_packcrcs h)) (defined_values (sh_packcrcs h))
  else mkPack (sh_packpos h) (zlen (sh_packsizes h)) (sh_packsizes h) [] [].
Definition embed_sub (h : sheader) : substreams :=
  mkSub (sh_nums h) (Some (sh_sizes h)) (map is_some (sh_crcs h)) (map or0 (sh_crcs h)).
(* SubStreamsInfo is always present in the image of embed *)
Definition embed (h : sheader) : header :=
  mkHeader (Some (mkStreams (Some (embed_pack h)) (Some (map embed_folder (sh_folders h))) (Some (embed_sub h))))
           (Some (sh_files h)) (sh_emptyfile h).

(* the conditions under which py7zr conforms, stated on the format's own reading (spec_plans) *)
Definition attr_dir (a : option Z) : bool :=
  match a with Some v => negb (Z.land v 16 =? 0) | None => false end.
(* an entry WITH data does not carry FILE_ATTRIBUTE_DIRECTORY (py7zr takes such an entry for a directory).
   Entries without data are no longer constrained: since the repair of ArchiveFile.is_directory their kind is
   read from the EmptyFile bit as the format says, whatever the attribute word holds or if there is none
   (before it, "directory <-> attributes defined with the directory bit" had to be assumed of every entry) *)
Definition kind_consistent (p : plan) : bool := negb ((pl_kind p =? 0) && attr_dir (pl_attr p)).
(* NumUnpackStream values are counts (the NUMBER reader cannot yield a negative one) *)
Definition nums_nonneg (h : sheader) : bool := forallb (fun n => 0 <=? n) (sh_nums h).
Definition kinds_consistent (h : sheader) : bool := forallb kind_consistent (spec_plans h).
Definition nice (h : sheader) : bool := s_valid h && nums_nonneg h && kinds_consistent h.

(* C: the byte intervals of one folder's members *)
Fixpoint tiling (off : Z) (szs : list Z) : list (Z * Z) :=
  match szs with [] => [] | s :: r => (off, s) :: tiling (off + s) r end.
Definition folder_chunk (nums sizes : list Z) (f : nat) : list Z :=
  firstn (Z.to_nat (nth f nums 0)) (skipn (Z.to_nat (sumZ (firstn f nums))) sizes).
Definition in_folder (f : Z) (p : iplan) : bool := (ip_kind p =? 0) && (ip_folder p =? f).

(* lookup in the per-folder bookkeeping of assign_loop *)
Fixpoint flook (l : list (Z * fstat)) (k : Z) : option fstat :=
  match l with [] => None | (k', s) :: r => if k' =? k then Some s else flook r k end.

(* ------------------------------------------------------------------ *)
(* Small lemmas                                                        *)
(* ------------------------------------------------------------------ *)
Lemma fold_add_shift l : forall a, fold_left Z.add l a = a + fold_left Z.add l 0.
Proof. induction l as [|x l IH]; intros a; simpl; [lia|]. rewrite IH, (IH x). lia. Qed.
Lemma sumZ_nil : sumZ [] = 0. Proof. reflexivity. Qed.
Lemma sumZ_cons a l : sumZ (a :: l) = a + sumZ l.
Proof. unfold sumZ. simpl. rewrite fold_add_shift. lia. Qed.
Lemma sumZ_app a b : sumZ (a ++ b) = sumZ a + sumZ b.
Proof. induction a as [|x a IH]; simpl; [reflexivity|]. rewrite !sumZ_cons, IH. lia. Qed.

Lemma zlen_cons {A} (x : A) l : zlen (x :: l) = 1 + zlen l.
Proof. unfold zlen. simpl length. lia. Qed.
Lemma zlen_app {A} (a b : list A) : zlen (a ++ b) = zlen a + zlen b.
Proof. unfold zlen. rewrite app_length. lia. Qed.
Lemma zlen_nonneg {A} (l : list A) : 0 <= zlen l.
Proof. unfold zlen. lia. Qed.

Lemma nthZ_app {A} (pre : list A) x r : nthZ (pre ++ x :: r) (zlen pre) = Ok x.
Proof.
  unfold nthZ, zlen. destruct (Z.of_nat (length pre) <? 0) eqn:E; [lia|].
  rewrite Nat2Z.id, nth_error_app2 by lia. rewrite Nat.sub_diag. reflexivity.
Qed.
Lemma nthZ_map {A B} (f : A -> B) l i x : nthZ l i = Ok x -> nthZ (map f l) i = Ok (f x).
Proof.
  unfold nthZ. destruct (i <? 0); [discriminate|].
  destruct (nth_error l (Z.to_nat i)) eqn:E; [|discriminate]. intros H; injection H as <-.
  rewrite (map_nth_error f _ _ E). reflexivity.
Qed.

Lemma crc_roundtrip (c : option Z) : (if is_some c then Some (or0 c) else None) = c.
Proof. destruct c; reflexivity. Qed.
Lemma attr_is_dir_flat a : attr_is_dir a = attr_dir (flat_opt a).
Proof. destruct a as [[v|]|]; reflexivity. Qed.

Lemma plan_agrees_refl n k fo off sz c mt at_ i es ef :
  plan_agrees i (mkPlan n k fo off sz c mt at_) (mkIPlan n k fo off sz c mt at_ i es ef) = true.
Proof.
  unfold plan_agrees; cbn [pl_name pl_kind pl_folder pl_offset pl_size pl_crc pl_mtime pl_attr
                           ip_name ip_kind ip_folder ip_offset ip_size ip_crc ip_mtime ip_attr ip_id].
  destruct c, mt, at_; rewrite ?Z.eqb_refl; destruct (k =? 0); cbn [negb orb andb];
    rewrite ?Bool.andb_true_r;
    (destruct n as [a|]; [|reflexivity]; induction a as [|x a IH]; [reflexivity|];
     rewrite Z.eqb_refl; exact IH).
Qed.

(* upd_fstat: returns the previous record of the folder (or a fresh one) and stores the updated one *)
Lemma upd_fstat_spec l fo fid size :
  let old := match flook l fo with Some s => s | None => mkFstat fid 0 0 end in
  snd (upd_fstat l fo fid size) = old /\
  forall k, flook (fst (upd_fstat l fo fid size)) k =
            if k =? fo then Some (mkFstat (fs_first old) (fs_count old + 1) (fs_bytes old + size))
            else flook l k.
Proof.
  induction l as [|[k0 s0] l IH]; cbn zeta.
  - simpl. split; [reflexivity|]. intros k. rewrite Z.eqb_sym. destruct (k =? fo); reflexivity.
  - simpl. destruct (k0 =? fo) eqn:E0.
    + simpl. split; [reflexivity|]. intros k. destruct (k =? fo) eqn:Ek.
      * replace (k0 =? k) with true by lia. reflexivity.
      * replace (k0 =? k) with false by lia. reflexivity.
    + destruct (upd_fstat l fo fid size) as [r' old'] eqn:EU. cbn zeta in IH. simpl in IH.
      destruct IH as [IH1 IH2]. simpl. split; [exact IH1|].
      intros k. destruct (k0 =? k) eqn:E1.
      * replace (k =? fo) with false by lia. reflexivity.
      * apply IH2.
Qed.

Lemma assign_loop_cons multi e r efl fid nums sizes dd dg folder0 outstreams input fstats nfolders :
  assign_loop multi (e :: r) efl fid nums sizes dd dg folder0 outstreams input fstats nfolders =
  if e_emptystream e then
    do rest <- assign_loop multi r (tl efl) (fid + 1) nums sizes dd dg folder0 outstreams input fstats nfolders;
    Ok (mkIPlan (e_name e) (if hd false efl then 1 else 2) (-1) 0 0 None (flat_opt (e_mtime e)) (flat_opt (e_attr e)) fid
                true (hd false efl) :: rest)
  else
    let folder := if input =? 0 then skip_zero (length nums) nums folder0 else folder0 in
    if (folder <? 0) || (nfolders <=? folder) then Err EOther else
    do n <- nthZ nums folder;
    do size <- nthZ sizes outstreams;
    do d <- nthZ dd outstreams;
    do g <- nthZ dg outstreams;
    let '(fstats', old) := upd_fstat fstats folder fid size in
    let p := mkIPlan (e_name e) (if attr_is_dir (e_attr e) then 2 else 0) folder (fs_bytes old) size
                     (if d then Some g else None) (flat_opt (e_mtime e)) (flat_opt (e_attr e)) fid false false in
    let input' := input + 1 in
    do rest <- (if n <=? input'
                then assign_loop multi r efl (fid + 1) nums sizes dd dg (folder + 1) (outstreams + 1) 0 fstats' nfolders
                else assign_loop multi r efl (fid + 1) nums sizes dd dg folder (outstreams + 1) input' fstats' nfolders);
    Ok (p :: rest).
Proof. reflexivity. Qed.

Lemma s_plans_cons e r ef streams :
  s_plans (e :: r) ef streams =
  if e_emptystream e then
    mkPlan (e_name e) (if hd false ef then 1 else 2) (-1) 0 0 None (flat_opt (e_mtime e)) (flat_opt (e_attr e))
    :: s_plans r (tl ef) streams
  else
    match streams with
    | (fi, off, sz, c) :: sr =>
        mkPlan (e_name e) 0 fi off sz c (flat_opt (e_mtime e)) (flat_opt (e_attr e)) :: s_plans r ef sr
    | [] => mkPlan (e_name e) 0 (-2) 0 0 None None None :: s_plans r ef []
    end.
Proof. reflexivity. Qed.

Definition is_data (e : fileent) : bool := negb (e_emptystream e).


(* ---- skip_zero: stepping over folders without sub-streams ---- *)
Lemma skip_zero_ge nums : forall fuel x, x <= skip_zero fuel nums x.
Proof.
  induction fuel as [|fuel IH]; intros x; simpl; [lia|].
  destruct ((x <? zlen nums - 1) && (0 <=? x)); [|lia].
  destruct (nth_error nums (Z.to_nat x)) as [[|p|p]|]; try lia. specialize (IH (x + 1)). lia.
Qed.
Lemma skip_zero_nonzero nums fuel x n : nthZ nums x = Ok n -> n <> 0 -> skip_zero fuel nums x = x.
Proof.
  unfold nthZ. destruct (x <? 0); [discriminate|].
  destruct (nth_error nums (Z.to_nat x)) as [v|] eqn:E; [|discriminate]. intros H Hn. injection H as ->.
  destruct fuel as [|fuel]; [reflexivity|]. simpl. rewrite E.
  destruct ((x <? zlen nums - 1) && (0 <=? x)); [|reflexivity]. destruct n; [congruence|reflexivity|reflexivity].
Qed.
Lemma skip_zero_fuel nums : forall fuel fuel' x, 0 <= x ->
  (length nums <= fuel + Z.to_nat x)%nat -> (length nums <= fuel' + Z.to_nat x)%nat ->
  skip_zero fuel nums x = skip_zero fuel' nums x.
Proof.
  induction fuel as [|fuel IH]; intros [|fuel'] x Hx H1 H2; simpl; try reflexivity.
  - replace ((x <? zlen nums - 1) && (0 <=? x)) with false by (unfold zlen; lia). reflexivity.
  - replace ((x <? zlen nums - 1) && (0 <=? x)) with false by (unfold zlen; lia). reflexivity.
  - destruct ((x <? zlen nums - 1) && (0 <=? x)); [|reflexivity].
    destruct (nth_error nums (Z.to_nat x)) as [[|p|p]|]; try reflexivity. apply IH; lia.
Qed.
Lemma skip_zero_step nums x : nthZ nums x = Ok 0 -> 0 <= x < zlen nums - 1 ->
  skip_zero (length nums) nums x = skip_zero (length nums) nums (x + 1).
Proof.
  intros H Hx. unfold nthZ in H. destruct (x <? 0); [discriminate|].
  destruct (nth_error nums (Z.to_nat x)) as [v|] eqn:E; [|discriminate]. injection H as ->.
  destruct (length nums) as [|L] eqn:EL; [unfold zlen in Hx; lia|].
  simpl skip_zero at 1. rewrite E. replace ((x <? zlen nums - 1) && (0 <=? x)) with true by lia.
  apply skip_zero_fuel; lia.
Qed.

Definition cur_folder (nums : list Z) (folder input : Z) : Z :=
  if input =? 0 then skip_zero (length nums) nums folder else folder.

Section Track.
Variables (nums sizes : list Z) (crcs : list (option Z)) (nf : Z) (multi : bool).

(* the ParseStatus cursor (folder, outstreams, input) and the byte offset reached in the current
   folder follow the list of sub-streams still to be handed out *)
Fixpoint tracks (folder outstreams input bytes : Z) (R : list (Z * Z * Z * option Z)) : Prop :=
  match R with
  | [] => True
  | (fi, off, sz, c) :: R' =>
      let fo := cur_folder nums folder input in
      fi = fo /\ off = bytes /\ 0 <= fo < nf /\ 0 <= input /\
      exists n, nthZ nums fo = Ok n /\ nthZ sizes outstreams = Ok sz /\ nthZ crcs outstreams = Ok c /\
      (if n <=? input + 1 then tracks (fo + 1) (outstreams + 1) 0 0 R'
       else tracks fo (outstreams + 1) (input + 1) (bytes + sz) R')
  end.

(* the per-folder bookkeeping knows nothing of folders not yet entered and, inside a folder,
   the number of members and bytes handed out so far *)
Definition Finv (fstats : list (Z * fstat)) (folder input bytes : Z) : Prop :=
  if input =? 0 then (forall k, folder <= k -> flook fstats k = None) /\ bytes = 0
  else (forall k, folder < k -> flook fstats k = None) /\
       exists first, flook fstats folder = Some (mkFstat first input bytes).

Lemma loop_ok : forall files fid folder outstreams input bytes fstats ef R,
  tracks folder outstreams input bytes R ->
  length (filter is_data files) = length R ->
  Finv fstats folder input bytes ->
  forallb kind_consistent (s_plans files ef R) = true ->
  exists ps, assign_loop multi files ef fid nums sizes (map is_some crcs) (map or0 crcs)
                         folder outstreams input fstats nf = Ok ps /\
             plans_agree fid (s_plans files ef R) ps = true.
Proof.
  induction files as [|e r IH]; intros fid folder outstreams input bytes fstats ef R HT HL HF HK.
  - exists []. split; reflexivity.
  - rewrite assign_loop_cons. rewrite s_plans_cons in *. cbn zeta.
    unfold is_data in HL. simpl filter in HL. fold is_data in HL.
    destruct (e_emptystream e) eqn:Ee.
    + (* empty-stream entry: the cursor does not move *)
      simpl negb in HL. cbn iota in HL.
      simpl forallb in HK. apply andb_prop in HK. destruct HK as [HK1 HK2].
      destruct (IH (fid + 1) folder outstreams input bytes fstats (tl ef) R HT HL HF HK2) as [ps [E1 E2]].
      rewrite E1. cbn [bind]. eexists. split; [reflexivity|].
      simpl plans_agree. rewrite E2, Bool.andb_true_r.
      (* the kind is the format's: EmptyFile bit set -> empty file, clear -> directory *)
      apply plan_agrees_refl.
    + (* data entry *)
      simpl negb in HL. cbn iota in HL.
      destruct R as [|[[[fi off] sz] c] R']; [discriminate HL|].
      simpl length in HL. injection HL as HL.
      cbn [tracks] in HT. cbn zeta in HT. fold (cur_folder nums folder input).
      pose proof (skip_zero_ge nums (length nums) folder) as Hge.
      assert (Hfo : folder <= cur_folder nums folder input /\
                    (input =? 0 = false -> cur_folder nums folder input = folder)).
      { unfold cur_folder. destruct (input =? 0); split; (lia || reflexivity || discriminate). }
      set (fo := cur_folder nums folder input) in *. clearbody fo. clear Hge. destruct Hfo as [Hge Hsame].
      destruct HT as [-> [-> [Hr [Hi [n [Hn [Hs [Hc HT]]]]]]]].
      simpl forallb in HK. apply andb_prop in HK. destruct HK as [HK1 HK2].
      replace ((fo <? 0) || (nf <=? fo)) with false by lia.
      rewrite Hn, Hs, (nthZ_map is_some _ _ _ Hc), (nthZ_map or0 _ _ _ Hc). cbn [bind].
      rewrite crc_roundtrip.
      pose proof (upd_fstat_spec fstats fo fid sz) as HU. cbn zeta in HU.
      destruct (upd_fstat fstats fo fid sz) as [fstats' old] eqn:EU. cbn [fst snd] in HU.
      destruct HU as [HU1 HU2]. rewrite <- HU1 in HU2.
      (* kind *)
      unfold kind_consistent in HK1. cbn [pl_kind pl_attr] in HK1.
      rewrite attr_is_dir_flat.
      assert (HKd : attr_dir (flat_opt (e_attr e)) = false).
      { destruct (attr_dir (flat_opt (e_attr e))); simpl in HK1; congruence. }
      rewrite HKd.
      (* offset *)
      unfold Finv in HF.
      assert (Hold : fs_bytes old = bytes /\ fs_count old = input /\ forall k, fo < k -> flook fstats k = None).
      { destruct (input =? 0) eqn:Ei.
        - destruct HF as [A ->]. rewrite (A fo Hge) in HU1. subst old. cbn.
          repeat split; try lia. intros k Hk. apply A. lia.
        - destruct HF as [A [first B]]. rewrite (Hsame eq_refl) in *. rewrite B in HU1. subst old. cbn.
          repeat split. exact A. }
      destruct Hold as [Hb [Hcnt Hlater]].
      destruct (n <=? input + 1) eqn:En.
      * destruct (IH (fid + 1) (fo + 1) (outstreams + 1) 0 0 fstats' ef R' HT HL) as [ps [E1 E2]].
        { unfold Finv. simpl. split; [|reflexivity]. intros k Hk. rewrite HU2.
          replace (k =? fo) with false by lia. apply Hlater. lia. }
        { exact HK2. }
        rewrite E1. cbn [bind]. eexists. split; [reflexivity|].
        simpl plans_agree. rewrite E2, Bool.andb_true_r, Hb. apply plan_agrees_refl.
      * destruct (IH (fid + 1) fo (outstreams + 1) (input + 1) (bytes + sz) fstats' ef R' HT HL) as [ps [E1 E2]].
        { unfold Finv. replace (input + 1 =? 0) with false by lia. split.
          - intros k Hk. rewrite HU2. replace (k =? fo) with false by lia. apply Hlater. lia.
          - exists (fs_first old). rewrite HU2, Z.eqb_refl. rewrite Hb, Hcnt. reflexivity. }
        { exact HK2. }
        rewrite E1. cbn [bind]. eexists. split; [reflexivity|].
        simpl plans_agree. rewrite E2, Bool.andb_true_r, Hb. apply plan_agrees_refl.
Qed.
End Track.

(* ---- the sub-stream list of the specification, folder by folder ---- *)
Fixpoint go_streams (fi off : Z) (szs : list Z) (cs : list (option Z)) : list (Z * Z * Z * option Z) :=
  match szs with
  | [] => []
  | s :: sr => (fi, off, s, hd None cs) :: go_streams fi (off + s) sr (tl cs)
  end.
Lemma go_streams_eq fi : forall szs off cs,
  (fix go (off : Z) (szs : list Z) (cs : list (option Z)) :=
     match szs with
     | [] => []
     | s :: sr => (fi, off, s, hd None cs) :: go (off + s) sr (tl cs)
     end) off szs cs = go_streams fi off szs cs.
Proof. induction szs as [|s sr IH]; intros off cs; simpl; [reflexivity|]. f_equal. apply IH. Qed.
Lemma s_streams_of_cons fi n nr sizes crcs :
  s_streams_of fi (n :: nr) sizes crcs =
  go_streams fi 0 (firstn (Z.to_nat (Z.max n 0)) sizes) (firstn (Z.to_nat (Z.max n 0)) crcs)
  ++ s_streams_of (fi + 1) nr (skipn (Z.to_nat (Z.max n 0)) sizes) (skipn (Z.to_nat (Z.max n 0)) crcs).
Proof. rewrite <- go_streams_eq. reflexivity. Qed.
Lemma go_streams_length fi off szs cs : length (go_streams fi off szs cs) = length szs.
Proof. revert off cs. induction szs as [|s sr IH]; intros; simpl; [reflexivity|]. rewrite IH. reflexivity. Qed.

Lemma zlen_firstn {A} (l : list A) k : Z.of_nat k <= zlen l -> zlen (firstn k l) = Z.of_nat k.
Proof. unfold zlen. intros H. rewrite firstn_length. lia. Qed.
Lemma zlen_skipn {A} (l : list A) k : zlen (skipn k l) = zlen l - Z.min (Z.of_nat k) (zlen l).
Proof. unfold zlen. rewrite skipn_length. lia. Qed.

Lemma streams_length : forall nums fi sizes crcs,
  forallb (fun n => 0 <=? n) nums = true -> zlen sizes = sumZ nums ->
  zlen (s_streams_of fi nums sizes crcs) = sumZ nums.
Proof.
  induction nums as [|n nr IH]; intros fi sizes crcs Hp Hs; [reflexivity|].
  simpl forallb in Hp. apply andb_prop in Hp. destruct Hp as [Hn Hp].
  rewrite sumZ_cons in *. rewrite s_streams_of_cons, zlen_app.
  assert (Hnr : 0 <= sumZ nr).
  { clear - Hp. induction nr as [|x nr IH]; [rewrite sumZ_nil; lia|]. simpl forallb in Hp.
    apply andb_prop in Hp. destruct Hp as [Hx Hp]. rewrite sumZ_cons. specialize (IH Hp). lia. }
  rewrite IH; [|exact Hp|rewrite zlen_skipn; lia].
  unfold zlen at 1. rewrite go_streams_length. fold (zlen (firstn (Z.to_nat (Z.max n 0)) sizes)).
  rewrite zlen_firstn; lia.
Qed.


Lemma sumZ_nonneg l : forallb (fun n => 0 <=? n) l = true -> 0 <= sumZ l.
Proof.
  induction l as [|x l IH]; intros H; [rewrite sumZ_nil; lia|]. simpl forallb in H. apply andb_prop in H.
  destruct H as [Hx H]. rewrite sumZ_cons. specialize (IH H). lia.
Qed.

Section TrackStreams.
Variables (nums sizes : list Z) (crcs : list (option Z)) (nf : Z).

Lemma cur_folder_nonzero fi j n : nthZ nums fi = Ok n -> n <> 0 -> cur_folder nums fi j = fi.
Proof. intros H Hn. unfold cur_folder. destruct (j =? 0); [|reflexivity]. apply (skip_zero_nonzero _ _ _ _ H Hn). Qed.

Lemma tracks_go : forall sr s cs spre cpre srest crest fi n j bytes Rrest,
  sizes = spre ++ (s :: sr) ++ srest ->
  crcs = cpre ++ cs ++ crest -> length cs = length (s :: sr) -> length cpre = length spre ->
  nthZ nums fi = Ok n -> 0 <= fi < nf -> 0 <= j -> j + zlen (s :: sr) = n ->
  tracks nums sizes crcs nf (fi + 1) (zlen spre + zlen (s :: sr)) 0 0 Rrest ->
  tracks nums sizes crcs nf fi (zlen spre) j bytes (go_streams fi bytes (s :: sr) cs ++ Rrest).
Proof.
  induction sr as [|s' sr IH]; intros s cs spre cpre srest crest fi n j bytes Rrest Hs Hc Hlc Hlp Hn Hfi Hj Hjn HT;
    (destruct cs as [|c cs]; [discriminate Hlc|]); simpl in Hlc; injection Hlc as Hlc;
    simpl go_streams; cbn [app tracks hd tl]; cbn zeta;
    (assert (Hn0 : n <> 0) by (unfold zlen in Hjn; simpl length in Hjn; lia));
    rewrite (cur_folder_nonzero fi j n Hn Hn0).
  - repeat split; try lia. exists n. split; [exact Hn|]. split; [|split].
    + rewrite Hs. apply nthZ_app.
    + rewrite Hc. replace (zlen spre) with (zlen cpre) by (unfold zlen; lia). apply nthZ_app.
    + rewrite zlen_cons in Hjn. change (zlen (@nil Z)) with 0 in Hjn.
      replace (n <=? j + 1) with true by lia.
      rewrite zlen_cons in HT. change (zlen (@nil Z)) with 0 in HT.
      replace (zlen spre + 1) with (zlen spre + (1 + 0)) by lia. exact HT.
  - repeat split; try lia. exists n. split; [exact Hn|]. split; [|split].
    + rewrite Hs. apply nthZ_app.
    + rewrite Hc. replace (zlen spre) with (zlen cpre) by (unfold zlen; lia). apply nthZ_app.
    + rewrite !zlen_cons in Hjn. pose proof (zlen_nonneg sr).
      replace (n <=? j + 1) with false by lia.
      replace (zlen spre + 1) with (zlen (spre ++ [s])) by (rewrite zlen_app; reflexivity).
      apply (IH s' cs (spre ++ [s]) (cpre ++ [c]) srest crest fi n (j + 1) (bytes + s) Rrest).
      * rewrite Hs, <- app_assoc. reflexivity.
      * rewrite Hc, <- app_assoc. reflexivity.
      * exact Hlc.
      * rewrite !app_length. simpl. lia.
      * exact Hn.
      * exact Hfi.
      * lia.
      * rewrite !zlen_cons. lia.
      * match goal with |- tracks _ _ _ _ _ ?a _ _ _ =>
          replace a with (zlen spre + zlen (s :: s' :: sr))
            by (rewrite zlen_app; unfold zlen; simpl length; lia) end.
        exact HT.
Qed.

(* a folder without sub-streams is stepped over when the next member arrives *)
Lemma tracks_skip fi o R : nthZ nums fi = Ok 0 -> 0 <= fi -> (fi < zlen nums - 1 \/ R = []) ->
  tracks nums sizes crcs nf (fi + 1) o 0 0 R -> tracks nums sizes crcs nf fi o 0 0 R.
Proof.
  intros Hn Hfi [Hlt | ->] HT; [|exact I]. destruct R as [|[[[a b] c] d] R']; [exact I|].
  cbn [tracks] in *. cbn zeta in *. unfold cur_folder in *. simpl (0 =? 0) in *. cbv iota in *.
  rewrite (skip_zero_step nums fi Hn) by lia. exact HT.
Qed.

Lemma tracks_streams : forall nums' pre spre cpre sizes' crcs',
  nums = pre ++ nums' -> sizes = spre ++ sizes' -> crcs = cpre ++ crcs' -> length cpre = length spre ->
  forallb (fun n => 0 <=? n) nums' = true -> zlen sizes' = sumZ nums' -> zlen crcs' = sumZ nums' ->
  zlen nums = nf ->
  tracks nums sizes crcs nf (zlen pre) (zlen spre) 0 0 (s_streams_of (zlen pre) nums' sizes' crcs').
Proof.
  induction nums' as [|n nr IH]; intros pre spre cpre sizes' crcs' Hn Hs Hc Hl Hp Hzs Hzc Hnf; [exact I|].
  simpl forallb in Hp. apply andb_prop in Hp. destruct Hp as [Hn1 Hp].
  pose proof (sumZ_nonneg nr Hp) as Hnr.
  rewrite sumZ_cons in Hzs, Hzc.
  rewrite s_streams_of_cons. set (k := Z.to_nat (Z.max n 0)).
  assert (Hk : Z.of_nat k = n) by lia. clearbody k.
  assert (Hnext : tracks nums sizes crcs nf (zlen pre + 1) (zlen spre + n) 0 0
                    (s_streams_of (zlen pre + 1) nr (skipn k sizes') (skipn k crcs'))).
  { pose proof (firstn_skipn k sizes') as Es. pose proof (firstn_skipn k crcs') as Ec.
    assert (Hfs : zlen (firstn k sizes') = n) by (rewrite zlen_firstn; lia).
    assert (Hfc : zlen (firstn k crcs') = n) by (rewrite zlen_firstn; lia).
    replace (zlen pre + 1) with (zlen (pre ++ [n])) by (rewrite zlen_app; reflexivity).
    replace (zlen spre + n) with (zlen (spre ++ firstn k sizes')) by (rewrite zlen_app; lia).
    apply (IH (pre ++ [n]) (spre ++ firstn k sizes') (cpre ++ firstn k crcs')).
    + rewrite Hn, <- app_assoc. reflexivity.
    + rewrite Hs, <- app_assoc, Es. reflexivity.
    + rewrite Hc, <- app_assoc, Ec. reflexivity.
    + rewrite !app_length. unfold zlen in Hfs, Hfc. lia.
    + exact Hp.
    + rewrite zlen_skipn. lia.
    + rewrite zlen_skipn. lia.
    + exact Hnf. }
  assert (Hnth : nthZ nums (zlen pre) = Ok n) by (rewrite Hn; apply nthZ_app).
  assert (Hrange : 0 <= zlen pre < nf).
  { rewrite <- Hnf, Hn, zlen_app, zlen_cons. pose proof (zlen_nonneg pre). pose proof (zlen_nonneg nr). lia. }
  destruct (n =? 0) eqn:E0.
  - (* no sub-stream in this folder *)
    assert (n = 0) by lia. assert (Hk0 : k = 0%nat) by lia. subst k. subst n. change (Z.of_nat 0) with 0 in *. simpl firstn. simpl go_streams. simpl app.
    replace (zlen spre + 0) with (zlen spre) in Hnext by lia.
    apply tracks_skip; [exact Hnth | lia | | exact Hnext].
    destruct nr as [|n' nr']; [right; reflexivity|left].
    rewrite Hn, zlen_app, !zlen_cons. pose proof (zlen_nonneg nr'). lia.
  - pose proof (firstn_skipn k sizes') as Es. pose proof (firstn_skipn k crcs') as Ec.
    assert (Hfs : zlen (firstn k sizes') = n) by (rewrite zlen_firstn; lia).
    assert (Hfc : zlen (firstn k crcs') = n) by (rewrite zlen_firstn; lia).
    destruct (firstn k sizes') as [|s sr] eqn:Ef.
    { change (zlen (@nil Z)) with 0 in Hfs. lia. }
    apply (tracks_go sr s (firstn k crcs') spre cpre (skipn k sizes') (skipn k crcs') (zlen pre) n 0 0).
    + rewrite Hs. f_equal. symmetry. exact Es.
    + rewrite Hc, Ec. reflexivity.
    + unfold zlen in Hfs, Hfc. lia.
    + exact Hl.
    + exact Hnth.
    + exact Hrange.
    + lia.
    + lia.
    + rewrite Hfs. exact Hnext.
Qed.
End TrackStreams.

(* ------------------------------------------------------------------ *)
(* A. conformance                                                      *)
(* ------------------------------------------------------------------ *)
Ltac split_andb :=
  repeat match goal with H : _ && _ = true |- _ => apply andb_prop in H; destruct H end.

Lemma zlen_map {A B} (f : A -> B) l : zlen (map f l) = zlen l.
Proof. unfold zlen. rewrite map_length. reflexivity. Qed.

Lemma data_count_streams h : nice h = true ->
  length (filter is_data (sh_files h)) = length (s_streams_of 0 (sh_nums h) (sh_sizes h) (sh_crcs h)).
Proof.
  intros Hnice. unfold nice, s_valid, nums_nonneg in Hnice. split_andb.
  apply Nat2Z.inj. fold (zlen (s_streams_of 0 (sh_nums h) (sh_sizes h) (sh_crcs h))).
  rewrite streams_length by (assumption || lia). unfold is_data. unfold zlen in *. lia.
Qed.

Theorem assign_conforms : forall h, nice h = true ->
  exists ps, impl_plans (embed h) = Ok ps /\ plans_agree 0 (spec_plans h) ps = true.
Proof.
  intros h Hnice. pose proof (data_count_streams h Hnice) as HL.
  unfold nice, s_valid, nums_nonneg, kinds_consistent in Hnice. split_andb.
  match goal with H : forallb kind_consistent _ = true |- _ => rename H into HK end.
  match goal with H : forallb (fun n => 0 <=? n) _ = true |- _ => rename H into HP end.
  unfold impl_plans, embed. cbn [h_files h_streams si_folders si_pack si_sub embed_sub s_sizes s_nums
                                 Header.s_digestsdefined Header.s_digests bind].
  rewrite zlen_map. unfold spec_plans in *.
  apply (loop_ok (sh_nums h) (sh_sizes h) (sh_crcs h) (zlen (sh_folders h)) (negb (zlen (sh_folders h) =? 1))
                 (sh_files h) 0 0 0 0 0 [] (sh_emptyfile h) _).
  - apply (tracks_streams (sh_nums h) (sh_sizes h) (sh_crcs h) (zlen (sh_folders h)) (sh_nums h) [] [] []);
      try reflexivity; try assumption; lia.
  - exact HL.
  - unfold Finv. simpl. split; reflexivity.
  - exact HK.
Qed.

(* ---- the EmptyFile vector: consulted for the kind of the entries without data, one bit per such entry in
   order, `next(flags, False)`: a vector that is too short stands for one padded with False, surplus bits are
   never read (this is how the vector is written back, Header.write_files / HeaderProofs.norm_emptyfiles) ---- *)
Lemma nempty_cons e r : nempty (e :: r) = ((if e_emptystream e then 1 else 0) + nempty r)%nat.
Proof. unfold nempty. simpl. destruct (e_emptystream e); reflexivity. Qed.
Lemma nempty_app a b : nempty (a ++ b) = (nempty a + nempty b)%nat.
Proof. unfold nempty. rewrite filter_app, app_length. reflexivity. Qed.
Lemma count_true_nempty files : count_true (map e_emptystream files) = Z.of_nat (nempty files).
Proof.
  unfold count_true, nempty, zlen. f_equal.
  induction files as [|e r IH]; [reflexivity|]. simpl. destruct (e_emptystream e); simpl; rewrite IH; reflexivity.
Qed.

Lemma hd_pad (ef : list bool) n k : (1 <= n)%nat -> (n <= k)%nat ->
  hd false (firstn n (ef ++ repeat false k)) = hd false ef /\
  tl (firstn n (ef ++ repeat false k)) = firstn (n - 1) (tl ef ++ repeat false (k - 1)).
Proof.
  intros Hn Hk. destruct n as [|n]; [lia|]. destruct ef as [|b ef].
  - destruct k as [|k]; [lia|]. simpl. rewrite !Nat.sub_0_r. split; reflexivity.
  - simpl. rewrite Nat.sub_0_r. split; [reflexivity|]. destruct k as [|k]; [lia|].
    cbn [repeat]. rewrite Nat.sub_succ, Nat.sub_0_r.
    (* one False more at the end is beyond the first n elements *)
    replace (false :: repeat false k) with (repeat false k ++ [false]).
    2:{ clear. induction k as [|k IH]; [reflexivity|]. simpl. rewrite IH. reflexivity. }
    rewrite app_assoc, firstn_app.
    replace (n - length (ef ++ repeat false k))%nat with 0%nat by (rewrite app_length, repeat_length; lia).
    simpl. rewrite app_nil_r. reflexivity.
Qed.

Lemma assign_loop_ef_pad multi nums sizes dd dg nf : forall files ef n k fid folder outstreams input fstats,
  (nempty files <= n)%nat -> (n <= k)%nat ->
  assign_loop multi files (firstn n (ef ++ repeat false k)) fid nums sizes dd dg folder outstreams input fstats nf =
  assign_loop multi files ef fid nums sizes dd dg folder outstreams input fstats nf.
Proof.
  induction files as [|e r IH]; intros ef n k fid folder outstreams input fstats Hn Hk; [reflexivity|].
  rewrite !assign_loop_cons. cbn zeta. rewrite nempty_cons in Hn.
  destruct (e_emptystream e).
  - destruct (hd_pad ef n k ltac:(lia) Hk) as [-> ->]. rewrite IH by lia. reflexivity.
  - destruct (_ || _); [reflexivity|].
    destruct (nthZ nums _) as [x|]; [|reflexivity]. cbn [bind].
    destruct (nthZ sizes outstreams) as [size|]; [|reflexivity]. cbn [bind].
    destruct (nthZ dd outstreams) as [d|]; [|reflexivity]. cbn [bind].
    destruct (nthZ dg outstreams) as [g|]; [|reflexivity]. cbn [bind].
    destruct (upd_fstat _ _ _ _) as [f1 old].
    destruct (x <=? input + 1); rewrite IH by lia; reflexivity.
Qed.
Lemma nostream_plans_ef_pad : forall files ef n k fid, (nempty files <= n)%nat -> (n <= k)%nat ->
  nostream_plans files (firstn n (ef ++ repeat false k)) fid = nostream_plans files ef fid.
Proof.
  induction files as [|e r IH]; intros ef n k fid Hn Hk; [reflexivity|].
  cbn [nostream_plans]. rewrite nempty_cons in Hn. destruct (e_emptystream e).
  - destruct (hd_pad ef n k ltac:(lia) Hk) as [-> ->]. rewrite IH by lia. reflexivity.
  - rewrite IH by lia. reflexivity.
Qed.

(* the assignment reads the EmptyFile vector only through the bit of each entry without data *)
Lemma impl_plans_emptyfiles_aligned st fl ef :
  let nes := Z.to_nat (count_true (map e_emptystream fl)) in
  impl_plans (mkHeader st (Some fl) (firstn nes (ef ++ repeat false nes))) = impl_plans (mkHeader st (Some fl) ef).
Proof.
  cbv zeta. rewrite count_true_nempty, Nat2Z.id. unfold impl_plans. cbn [h_files h_streams h_emptyfiles].
  destruct st as [st|]; [|rewrite nostream_plans_ef_pad by lia; reflexivity].
  destruct (si_folders st) as [folders|]; [|reflexivity]. destruct (si_pack st); [|reflexivity].
  destruct (match s_sizes _ with Some sz => Ok sz | None => _ end) as [sizes|]; [|reflexivity].
  cbn [bind]. apply assign_loop_ef_pad; lia.
Qed.

(* ------------------------------------------------------------------ *)
(* C. every member is delivered once, from the right position          *)
(* ------------------------------------------------------------------ *)
Lemma name_eq_true : forall a b : list Z,
  (fix eq (a b : list Z) := match a, b with
                            | [], [] => true | x :: a', y :: b' => (x =? y) && eq a' b'
                            | _, _ => false end) a b = true -> a = b.
Proof.
  induction a as [|x a IH]; destruct b as [|y b]; intros H; try discriminate H; [reflexivity|].
  apply andb_prop in H. destruct H as [H1 H2]. f_equal; [lia | apply IH, H2].
Qed.

Lemma plan_agrees_elim i s p : plan_agrees i s p = true ->
  pl_name s = ip_name p /\ pl_kind s = ip_kind p /\ ip_id p = i /\
  (pl_kind s = 0 -> pl_folder s = ip_folder p /\ pl_offset s = ip_offset p /\ pl_size s = ip_size p).
Proof.
  unfold plan_agrees. intros H. split_andb.
  match goal with H : match pl_name s with _ => _ end = true |- _ => rename H into Hn end.
  match goal with H : negb _ || _ = true |- _ => rename H into Hd end.
  repeat split; try lia.
  destruct (pl_name s) as [a|], (ip_name p) as [b|]; try discriminate Hn; [|reflexivity].
  f_equal. apply name_eq_true, Hn.
Qed.

Lemma plans_agree_nth : forall ss ps i, plans_agree i ss ps = true ->
  length ss = length ps /\
  forall k s p, nth_error ss k = Some s -> nth_error ps k = Some p -> plan_agrees (i + Z.of_nat k) s p = true.
Proof.
  induction ss as [|s0 ss IH]; destruct ps as [|p0 ps]; intros i H; try discriminate H.
  - split; [reflexivity|]. intros [|k] s p Hs; discriminate Hs.
  - simpl in H. apply andb_prop in H. destruct H as [H0 H]. destruct (IH ps (i + 1) H) as [HL HN].
    split; [simpl; congruence|]. intros [|k] s p Hs Hp; simpl in Hs, Hp.
    + injection Hs as <-. injection Hp as <-. replace (i + Z.of_nat 0) with i by lia. exact H0.
    + replace (i + Z.of_nat (S k)) with (i + 1 + Z.of_nat k) by lia. apply (HN k s p Hs Hp).
Qed.

Lemma s_plans_nth : forall files ef R k e, nth_error files k = Some e ->
  exists s, nth_error (s_plans files ef R) k = Some s /\ pl_name s = e_name e /\
            (pl_kind s =? 0) = negb (e_emptystream e).
Proof.
  induction files as [|e0 r IH]; intros ef R [|k] e H; try discriminate H; rewrite s_plans_cons; simpl in H.
  - injection H as ->. destruct (e_emptystream e).
    + eexists. split; [reflexivity|]. split; [reflexivity|]. simpl. destruct (hd false ef); reflexivity.
    + destruct R as [|[[[fi off] sz] c] R']; eexists; (split; [reflexivity|]); split; reflexivity.
  - destruct (e_emptystream e0).
    + apply (IH (tl ef) R k e H).
    + destruct R as [|[[[fi off] sz] c] R']; simpl; apply (IH _ _ k e H).
Qed.

Definition pview (s : plan) : Z * Z * Z := (pl_folder s, pl_offset s, pl_size s).
Definition iview (p : iplan) : Z * Z * Z := (ip_folder p, ip_offset p, ip_size p).
Definition offsz (v : Z * Z * Z) : Z * Z := (snd (fst v), snd v).

Lemma agree_data_view : forall ss ps i, plans_agree i ss ps = true ->
  map pview (filter (fun s => pl_kind s =? 0) ss) = map iview (filter (fun p => ip_kind p =? 0) ps).
Proof.
  induction ss as [|s0 ss IH]; destruct ps as [|p0 ps]; intros i H; try discriminate H; [reflexivity|].
  simpl in H. apply andb_prop in H. destruct H as [H0 H].
  destruct (plan_agrees_elim _ _ _ H0) as [_ [Hk [_ Hd]]].
  simpl. rewrite <- Hk. destruct (pl_kind s0 =? 0) eqn:E.
  - simpl. destruct Hd as [A [B C]]; [lia|]. unfold pview, iview. rewrite A, B, C. f_equal. apply (IH ps (i + 1) H).
  - apply (IH ps (i + 1) H).
Qed.

Lemma spec_data_view : forall files ef R, length (filter is_data files) = length R ->
  map pview (filter (fun s => pl_kind s =? 0) (s_plans files ef R)) = map fst R.
Proof.
  induction files as [|e r IH]; intros ef R H.
  - destruct R; [reflexivity | discriminate H].
  - rewrite s_plans_cons. unfold is_data in H. simpl filter in H. fold is_data in H.
    destruct (e_emptystream e).
    + simpl. destruct (hd false ef); simpl; apply IH, H.
    + simpl in H. destruct R as [|[[[fi off] sz] c] R']; [discriminate H|].
      simpl in H. injection H as H. simpl. f_equal. apply IH, H.
Qed.

Lemma view_filter_folder F : forall l,
  map (fun p => (ip_offset p, ip_size p)) (filter (in_folder F) l) =
  map offsz (filter (fun v => fst (fst v) =? F) (map iview (filter (fun p => ip_kind p =? 0) l))).
Proof.
  induction l as [|a l IH]; [reflexivity|]. unfold in_folder in *. simpl.
  destruct (ip_kind a =? 0); simpl; [|exact IH].
  destruct (ip_folder a =? F); simpl; [f_equal|]; exact IH.
Qed.

Lemma skipn_skipn {A} : forall b a (l : list A), skipn a (skipn b l) = skipn (b + a) l.
Proof. induction b as [|b IH]; intros a l; [reflexivity|]. destruct l; [rewrite !skipn_nil; reflexivity|]. apply IH. Qed.

Lemma forallb_firstn {A} (f : A -> bool) : forall k l, forallb f l = true -> forallb f (firstn k l) = true.
Proof.
  induction k as [|k IH]; intros l H; [reflexivity|]. destruct l as [|x l]; [reflexivity|].
  simpl in *. apply andb_prop in H. destruct H as [-> H]. apply IH, H.
Qed.

Lemma go_streams_folder fi : forall szs off cs s, In s (go_streams fi off szs cs) -> fst (fst (fst s)) = fi.
Proof.
  induction szs as [|x szs IH]; intros off cs s H; [destruct H|]. destruct H as [<-|H]; [reflexivity|].
  apply (IH _ _ _ H).
Qed.
Lemma go_streams_view fi : forall szs off cs, map offsz (map fst (go_streams fi off szs cs)) = tiling off szs.
Proof. induction szs as [|x szs IH]; intros off cs; [reflexivity|]. simpl. f_equal. apply IH. Qed.

Lemma streams_folder_bounds : forall nums fi sizes crcs s,
  In s (s_streams_of fi nums sizes crcs) -> fi <= fst (fst (fst s)) < fi + zlen nums.
Proof.
  induction nums as [|n nr IH]; intros fi sizes crcs s H; [destruct H|].
  rewrite s_streams_of_cons in H. rewrite zlen_cons. pose proof (zlen_nonneg nr).
  apply in_app_or in H. destruct H as [H|H].
  - apply go_streams_folder in H. lia.
  - apply IH in H. lia.
Qed.

Lemma filter_none {A} (f : A -> bool) l : (forall x, In x l -> f x = false) -> filter f l = [].
Proof.
  induction l as [|a l IH]; intros H; [reflexivity|]. simpl. rewrite (H a (or_introl eq_refl)).
  apply IH. intros x Hx. apply H. right. exact Hx.
Qed.
Lemma filter_all {A} (f : A -> bool) l : (forall x, In x l -> f x = true) -> filter f l = l.
Proof.
  induction l as [|a l IH]; intros H; [reflexivity|]. simpl. rewrite (H a (or_introl eq_refl)).
  f_equal. apply IH. intros x Hx. apply H. right. exact Hx.
Qed.

(* the members of folder fi + f, in order, occupy consecutive intervals starting at 0 *)
Lemma streams_filter_folder : forall nums fi sizes crcs f,
  (f < length nums)%nat -> forallb (fun n => 0 <=? n) nums = true ->
  map offsz (filter (fun v => fst (fst v) =? fi + Z.of_nat f) (map fst (s_streams_of fi nums sizes crcs)))
  = tiling 0 (folder_chunk nums sizes f).
Proof.
  induction nums as [|n nr IH]; intros fi sizes crcs f Hf Hp; [simpl in Hf; lia|].
  simpl forallb in Hp. apply andb_prop in Hp. destruct Hp as [Hn Hp].
  rewrite s_streams_of_cons, map_app, filter_app, map_app.
  replace (Z.to_nat (Z.max n 0)) with (Z.to_nat n) by lia.
  destruct f as [|f].
  - rewrite filter_all, (filter_none _ (map fst (s_streams_of _ _ _ _))), app_nil_r.
    + rewrite go_streams_view. unfold folder_chunk. simpl. reflexivity.
    + intros x Hx. apply in_map_iff in Hx. destruct Hx as [s [<- Hs]]. apply streams_folder_bounds in Hs. lia.
    + intros x Hx. apply in_map_iff in Hx. destruct Hx as [s [<- Hs]]. apply go_streams_folder in Hs. lia.
  - rewrite filter_none.
    + simpl app.
      rewrite (filter_ext _ (fun v => fst (fst v) =? fi + 1 + Z.of_nat f)) by (intros a; f_equal; lia).
      rewrite IH; [|simpl in Hf; lia|exact Hp].
      unfold folder_chunk. cbn [nth firstn]. rewrite sumZ_cons, skipn_skipn. do 3 f_equal.
      pose proof (sumZ_nonneg _ (forallb_firstn _ f nr Hp)). lia.
    + intros x Hx. apply in_map_iff in Hx. destruct Hx as [s [<- Hs]]. apply go_streams_folder in Hs. lia.
Qed.

Lemma tiling_length off szs : length (tiling off szs) = length szs.
Proof. revert off. induction szs as [|s r IH]; intros off; simpl; [reflexivity|]. rewrite IH. reflexivity. Qed.
(* the k-th interval starts where the k earlier ones end *)
Lemma tiling_nth : forall szs off k o s, nth_error (tiling off szs) k = Some (o, s) ->
  o = off + sumZ (firstn k szs) /\ nth_error szs k = Some s.
Proof.
  induction szs as [|x szs IH]; intros off [|k] o s H; try discriminate H; simpl in H.
  - injection H as <- <-. simpl firstn. rewrite sumZ_nil. split; [lia | reflexivity].
  - apply IH in H. destruct H as [-> H]. simpl firstn. rewrite sumZ_cons. split; [lia | exact H].
Qed.
(* consecutive intervals covering [off, total) *)
Fixpoint tiles (off : Z) (l : list (Z * Z)) (total : Z) : Prop :=
  match l with [] => off = total | (o, s) :: r => o = off /\ tiles (off + s) r total end.
Lemma tiling_tiles : forall szs off, tiles off (tiling off szs) (off + sumZ szs).
Proof.
  induction szs as [|x szs IH]; intros off; simpl; [rewrite sumZ_nil; lia|]. split; [reflexivity|].
  rewrite sumZ_cons. replace (off + (x + sumZ szs)) with (off + x + sumZ szs) by lia. apply IH.
Qed.

Lemma nth_split_Z : forall f (l : list Z), (f < length l)%nat ->
  l = firstn f l ++ nth f l 0 :: skipn (S f) l.
Proof.
  induction f as [|f IH]; intros [|x l] H; simpl in H; try lia; [reflexivity|].
  simpl. f_equal. apply IH. lia.
Qed.
Lemma folder_chunk_length nums sizes f :
  (f < length nums)%nat -> forallb (fun n => 0 <=? n) nums = true -> zlen sizes = sumZ nums ->
  zlen (folder_chunk nums sizes f) = nth f nums 0.
Proof.
  intros Hf Hp Hs. pose proof (nth_split_Z f nums Hf) as E.
  assert (Ha : 0 <= sumZ (firstn f nums)) by (apply sumZ_nonneg, forallb_firstn, Hp).
  assert (Hn : 0 <= nth f nums 0).
  { rewrite forallb_forall in Hp. specialize (Hp (nth f nums 0) (nth_In _ _ Hf)). lia. }
  assert (Hb : 0 <= sumZ (skipn (S f) nums)).
  { apply sumZ_nonneg. rewrite forallb_forall in *. intros x Hx. apply Hp.
    rewrite <- (firstn_skipn (S f) nums). apply in_or_app. right. exact Hx. }
  rewrite E, sumZ_app, sumZ_cons in Hs. unfold folder_chunk.
  rewrite zlen_firstn; [lia|]. rewrite zlen_skipn. lia.
Qed.

Theorem extract_plan_complete : forall h, nice h = true ->
  exists ps, impl_plans (embed h) = Ok ps /\
    length ps = length (sh_files h) /\
    (* the i-th plan is the i-th entry's, looked up under i, and is a data plan iff the entry has a stream *)
    (forall i e p, nth_error (sh_files h) i = Some e -> nth_error ps i = Some p ->
       ip_id p = Z.of_nat i /\ ip_name p = e_name e /\ (ip_kind p =? 0) = negb (e_emptystream e)) /\
    (* every data plan belongs to an existing folder *)
    (forall p, In p ps -> ip_kind p = 0 -> 0 <= ip_folder p < zlen (sh_folders h)) /\
    (* the members of folder f, in archive order, tile [0, sum of the folder's sub-stream sizes) *)
    (forall f, (f < length (sh_folders h))%nat ->
       let chunk := folder_chunk (sh_nums h) (sh_sizes h) f in
       let ivs := map (fun p => (ip_offset p, ip_size p)) (filter (in_folder (Z.of_nat f)) ps) in
       ivs = tiling 0 chunk /\ tiles 0 ivs (sumZ chunk) /\ zlen chunk = nth f (sh_nums h) 0).
Proof.
  intros h Hnice. destruct (assign_conforms h Hnice) as [ps [E A]]. exists ps. split; [exact E|].
  pose proof (data_count_streams h Hnice) as HL.
  unfold nice, s_valid, nums_nonneg in Hnice. split_andb.
  match goal with H : forallb (fun n => 0 <=? n) _ = true |- _ => rename H into HP end.
  assert (HV : map iview (filter (fun p => ip_kind p =? 0) ps)
               = map fst (s_streams_of 0 (sh_nums h) (sh_sizes h) (sh_crcs h))).
  { rewrite <- (agree_data_view _ _ _ A). unfold spec_plans. apply spec_data_view, HL. }
  destruct (plans_agree_nth _ _ _ A) as [HLen HN].
  assert (Hsl : forall files ef R, length (s_plans files ef R) = length files).
  { induction files as [|e r IH]; intros ef R; [reflexivity|]. rewrite s_plans_cons.
    destruct (e_emptystream e); [simpl; f_equal; apply IH|].
    destruct R as [|[[[fi off] sz] c] R']; simpl; f_equal; apply IH. }
  split; [|split; [|split]].
  - rewrite <- HLen. apply Hsl.
  - intros i e p He Hp.
    destruct (s_plans_nth (sh_files h) (sh_emptyfile h) (s_streams_of 0 (sh_nums h) (sh_sizes h) (sh_crcs h)) i e He)
      as [s [Hs [Hname Hkind]]].
    specialize (HN i s p Hs Hp). apply plan_agrees_elim in HN. destruct HN as [N1 [N2 [N3 _]]].
    split; [lia|]. split; [congruence|]. rewrite <- N2. exact Hkind.
  - intros p Hin Hk.
    assert (Hv : In (iview p) (map iview (filter (fun p => ip_kind p =? 0) ps))).
    { apply in_map. apply filter_In. split; [exact Hin | lia]. }
    rewrite HV in Hv. apply in_map_iff in Hv. destruct Hv as [s [Es Hs]].
    apply streams_folder_bounds in Hs. unfold iview in Es.
    assert (fst (fst (fst s)) = ip_folder p) by (rewrite Es; reflexivity). lia.
  - intros f Hf. cbn zeta.
    assert (Hiv : map (fun p => (ip_offset p, ip_size p)) (filter (in_folder (Z.of_nat f)) ps)
                  = tiling 0 (folder_chunk (sh_nums h) (sh_sizes h) f)).
    { rewrite view_filter_folder, HV.
      rewrite <- (streams_filter_folder (sh_nums h) 0 (sh_sizes h) (sh_crcs h) f); [reflexivity| |exact HP].
      unfold zlen in *. lia. }
    split; [exact Hiv|]. split.
    + rewrite Hiv. apply (tiling_tiles _ 0).
    + apply folder_chunk_length; [unfold zlen in *; lia | exact HP | lia].
Qed.

(* ---- the intervals of a folder end at the folder's unpack size ---- *)
(* the sub-stream sizes of every folder that has sub-streams add up to the folder's unpack size;
   headers accepted by the specification reader have this property (s_header_fills) *)
Fixpoint fills (nums : list Z) (fs : list sfolder) (sizes : list Z) : Prop :=
  match nums, fs with
  | n :: nr, f :: fr =>
      (1 <= n -> sfolder_unpack_size f = Ok (sumZ (firstn (Z.to_nat n) sizes))) /\
      fills nr fr (skipn (Z.to_nat n) sizes)
  | _, _ => True
  end.

Lemma rd_rep_length {A} (rd : reader A) : forall fuel n bs xs r,
  rd_rep fuel n rd bs = Ok (xs, r) -> zlen xs = Z.max n 0.
Proof.
  induction fuel as [|fuel IH]; intros n bs xs r H; simpl in H.
  - destruct (n <=? 0) eqn:E; [|discriminate H]. injection H as <- _. unfold zlen; simpl; lia.
  - destruct (n <=? 0) eqn:E; [injection H as <- _; unfold zlen; simpl; lia|].
    destruct (rd bs) as [[x r1]|] eqn:E1; [|discriminate H]. cbn [bind] in H.
    destruct (rd_rep fuel (n - 1) rd r1) as [[xs1 r2]|] eqn:E2; [|discriminate H]. cbn [bind] in H.
    injection H as <- _. apply IH in E2. rewrite zlen_cons. lia.
Qed.
Lemma s_many_length {A} lim n (rd : reader A) bs xs r : s_many lim n rd bs = Ok (xs, r) -> zlen xs = Z.max n 0.
Proof.
  unfold s_many, rd_many. destruct (lim <? n); [discriminate|].
  destruct (rd_rep _ _ _ _) as [[xs1 r1]|e] eqn:E; [|destruct e; discriminate].
  intros H; injection H as <- _. apply (rd_rep_length _ _ _ _ _ _ E).
Qed.

Lemma s_default_fills : forall nums fs sizes, s_default_sizes nums fs = Ok sizes ->
  forallb (fun n => 0 <=? n) nums = true -> fills nums fs sizes.
Proof.
  induction nums as [|n nr IH]; intros fs sizes H Hp; [exact I|]. destruct fs as [|f fr]; [exact I|].
  cbn [s_default_sizes] in H. cbn [forallb] in Hp. apply andb_prop in Hp. destruct Hp as [Hn Hp].
  destruct (s_default_sizes nr fr) as [rest|] eqn:E; [|discriminate H]. cbn [bind] in H.
  destruct (n =? 0) eqn:E0.
  - injection H as <-. replace n with 0 by lia. simpl. split; [lia|]. apply IH; assumption.
  - destruct (n =? 1) eqn:E1; [|discriminate H].
    destruct (sfolder_unpack_size f) as [t|] eqn:Et; [|discriminate H]. cbn [bind] in H. injection H as <-.
    replace n with 1 by lia. simpl. split; [intros _; rewrite Et, sumZ_cons, sumZ_nil; f_equal; lia|].
    apply IH; assumption.
Qed.

Lemma s_sub_sizes_fills lim : forall nums fs bs sizes r, s_sub_sizes lim nums fs bs = Ok (sizes, r) ->
  forallb (fun n => 0 <=? n) nums = true -> fills nums fs sizes.
Proof.
  induction nums as [|n nr IH]; intros fs bs sizes r H Hp; [exact I|]. destruct fs as [|f fr]; [exact I|].
  cbn [s_sub_sizes] in H. cbn [forallb] in Hp. apply andb_prop in Hp. destruct Hp as [Hn Hp].
  destruct (n =? 0) eqn:E0.
  - replace n with 0 by lia. simpl. split; [lia|]. apply (IH _ _ _ _ H Hp).
  - destruct (s_many lim (n - 1) s_number bs) as [[explicit r1]|] eqn:E1; [|discriminate H]. cbn [bind] in H.
    destruct (sfolder_unpack_size f) as [t|] eqn:Et; [|discriminate H]. cbn [bind] in H.
    destruct (t <? sumZ explicit); [discriminate H|].
    destruct (s_sub_sizes lim nr fr r1) as [[rest r2]|] eqn:E2; [|discriminate H]. cbn [bind] in H.
    injection H as <- _. apply s_many_length in E1.
    assert (Hk : Z.to_nat n = length (explicit ++ [t - sumZ explicit])).
    { rewrite app_length. unfold zlen in E1. simpl. lia. }
    cbn [fills]. rewrite Hk.
    replace (explicit ++ (t - sumZ explicit) :: rest) with ((explicit ++ [t - sumZ explicit]) ++ rest)
      by (rewrite <- app_assoc; reflexivity).
    rewrite firstn_app_exact, skipn_app_exact.
    split; [|apply (IH _ _ _ _ E2 Hp)]. intros _. rewrite Et, sumZ_app, sumZ_cons, sumZ_nil. f_equal. lia.
Qed.

Ltac binv H E :=
  match type of H with
  | bind ?r _ = Ok _ => destruct r eqn:E; [cbn [bind] in H | discriminate H]
  end;
  repeat match type of H with context [match ?x with (_, _) => _ end] => is_var x; destruct x end.

Ltac cinv H :=
  match type of H with (if ?c then _ else _) = Ok _ => destruct c; try discriminate H end.

Lemma s_substreams_fills lim fs bs nums sizes crcs r :
  s_substreams lim fs bs = Ok ((nums, sizes, crcs), r) ->
  forallb (fun n => 0 <=? n) nums = true -> fills nums fs sizes.
Proof.
  unfold s_substreams. intros H Hp.
  binv H E0. binv H E1. cinv H.
  binv H E2. binv H E3. binv H E4. cinv H.
  injection H as -> -> _ _.
  cinv E2.
  - binv E2 E5. binv E2 E6. injection E2 as -> _ _. apply (s_sub_sizes_fills _ _ _ _ _ _ E5 Hp).
  - binv E2 E5. injection E2 as -> _ _. apply (s_default_fills _ _ _ E5 Hp).
Qed.

Theorem s_header_fills lim bs h : s_header lim bs = Ok h -> nums_nonneg h = true ->
  fills (sh_nums h) (sh_folders h) (sh_sizes h).
Proof.
  unfold s_header, nums_nonneg. intros H.
  binv H E0. binv H E1. binv H E2. cinv H.
  binv H E3. binv H E4. cinv H.
  match type of H with match ?l with _ => _ end = _ => destruct l; [|discriminate H] end.
  repeat match type of H with context [match ?x with (_, _) => _ end] => is_var x; destruct x end.
  injection H as <-. cbn [sh_nums sh_folders sh_sizes]. intros Hp.
  cinv E3.
  - binv E3 E5. binv E3 E6. binv E3 E7. binv E3 E8. cinv E3.
    binv E3 E9. injection E3 as _ -> -> _ _.
    cinv E8.
    + binv E8 E10. binv E8 E11. injection E8 as -> _ _. apply (s_substreams_fills _ _ _ _ _ _ _ E10 Hp).
    + binv E8 E10. injection E8 as <- <- _ _ _. apply (s_default_fills _ _ _ E10 Hp).
  - injection E3 as _ _ _ <- <- <- _ _ _. exact I.
Qed.

Lemma fills_chunk : forall nums fs sizes f fo,
  fills nums fs sizes -> forallb (fun n => 0 <=? n) nums = true ->
  nth_error fs f = Some fo -> (f < length nums)%nat -> 1 <= nth f nums 0 ->
  sfolder_unpack_size fo = Ok (sumZ (folder_chunk nums sizes f)).
Proof.
  induction nums as [|n nr IH]; intros fs sizes f fo HF Hp Hfo Hf H1; [simpl in Hf; lia|].
  destruct fs as [|f0 fr]; [destruct f; discriminate Hfo|].
  cbn [fills] in HF. destruct HF as [HF0 HF]. cbn [forallb] in Hp. apply andb_prop in Hp. destruct Hp as [Hn Hp].
  destruct f as [|f].
  - simpl in Hfo. injection Hfo as <-. simpl in H1. unfold folder_chunk. simpl. apply HF0, H1.
  - simpl in Hfo, H1. simpl in Hf.
    rewrite (IH fr (skipn (Z.to_nat n) sizes) f fo HF Hp Hfo) by lia.
    unfold folder_chunk. cbn [nth firstn]. rewrite sumZ_cons, skipn_skipn. do 4 f_equal.
    pose proof (sumZ_nonneg _ (forallb_firstn _ f nr Hp)). lia.
Qed.

(* C, last part: sequential decoding of a folder delivers every member and ends exactly at the
   folder's unpack size *)
Theorem extract_plan_tiles_unpack_size : forall h, nice h = true ->
  fills (sh_nums h) (sh_folders h) (sh_sizes h) ->
  exists ps, impl_plans (embed h) = Ok ps /\
    forall f fo, nth_error (sh_folders h) f = Some fo -> 1 <= nth f (sh_nums h) 0 ->
      exists total, sfolder_unpack_size fo = Ok total /\
        tiles 0 (map (fun p => (ip_offset p, ip_size p)) (filter (in_folder (Z.of_nat f)) ps)) total.
Proof.
  intros h Hnice HF. destruct (extract_plan_complete h Hnice) as [ps [E [_ [_ [_ HT]]]]].
  exists ps. split; [exact E|]. intros f fo Hfo H1.
  assert (Hf : (f < length (sh_folders h))%nat) by (apply nth_error_Some; congruence).
  destruct (HT f Hf) as [_ [Ht _]]. eexists. split; [|exact Ht].
  unfold nice, s_valid, nums_nonneg in Hnice. split_andb.
  apply (fills_chunk _ (sh_folders h)); try assumption. unfold zlen in *. lia.
Qed.

(* ---- archives without MainStreamsInfo (only empty files / directories): py7zr's header has no
   `main_streams`; the same conditions suffice ---- *)
Definition embed_nostreams (h : sheader) : header := mkHeader None (Some (sh_files h)) (sh_emptyfile h).

Lemma nostreams_agree : forall files i ef,
  filter is_data files = [] ->
  plans_agree i (s_plans files ef []) (nostream_plans files ef i) = true.
Proof.
  induction files as [|e r IH]; intros i ef HD; [reflexivity|].
  rewrite s_plans_cons in *. unfold is_data in HD. simpl filter in HD. fold is_data in HD.
  destruct (e_emptystream e) eqn:Ee; [|discriminate HD]. simpl in HD.
  cbn [nostream_plans]. unfold entry_kind. rewrite Ee. simpl plans_agree.
  rewrite (IH (i + 1) (tl ef) HD), Bool.andb_true_r. apply plan_agrees_refl.
Qed.

Theorem assign_conforms_nostreams : forall h, nice h = true -> sh_folders h = [] ->
  exists ps, impl_plans (embed_nostreams h) = Ok ps /\ plans_agree 0 (spec_plans h) ps = true.
Proof.
  intros h Hnice Hf. pose proof (data_count_streams h Hnice) as HL.
  unfold nice, s_valid, kinds_consistent in Hnice. split_andb.
  match goal with H : forallb kind_consistent _ = true |- _ => rename H into HK end.
  assert (Hn : sh_nums h = []).
  { destruct (sh_nums h); [reflexivity|]. rewrite Hf in *. unfold zlen in *. simpl in *. lia. }
  unfold spec_plans in *. rewrite Hn in *. simpl s_streams_of in *.
  eexists. split; [reflexivity|]. cbn [embed_nostreams h_emptyfiles]. apply nostreams_agree.
  destruct (filter is_data (sh_files h)); [reflexivity | discriminate HL].
Qed.

(* ------------------------------------------------------------------ *)
(* B. what is, and what is no longer, necessary                        *)
(* ------------------------------------------------------------------ *)
Definition w_coder : coder := mkCoder [0] 1 1 None.                       (* COPY *)
Definition w_folder (size : Z) : sfolder := mkSFolder [w_coder] [] [0] [size] None.
Definition w_data (name attr : Z) : fileent := mkFile false (Some [name]) None None None (Some (Some attr)).
Definition w_dir (name : Z) (attr : option (option Z)) : fileent := mkFile true (Some [name]) None None None attr.

Definition disagrees (h : sheader) : Prop :=
  match impl_plans (embed h) with Ok ps => plans_agree 0 (spec_plans h) ps = false | Err _ => True end.
Definition iplan_view (p : iplan) := (ip_id p, ip_kind p, ip_folder p, ip_offset p, ip_size p).

(* (1) folders without sub-streams, leading, in the middle and trailing: NumUnpackStream [0;1;0;0;2;0].
   Since the repair (step over such folders when the next member arrives) these layouts conform;
   a trailing one is never reached by the cursor at all. *)
Definition w_zero_folder : sheader :=
  mkSHeader 0 [0; 5; 0; 0; 7; 0] [None; None; None; None; None; None]
            [w_folder 0; w_folder 5; w_folder 0; w_folder 0; w_folder 7; w_folder 0]
            [0; 1; 0; 0; 2; 0] [5; 3; 4] [None; Some 7; None]
            [w_data 97 32; w_data 98 32; w_dir 100 (Some (Some 16)); w_data 99 32] [false].
Theorem assign_zero_folder_conforms :
  nice w_zero_folder = true /\
  exists ps, impl_plans (embed w_zero_folder) = Ok ps /\
    map iplan_view ps = [(0, 0, 1, 0, 5); (1, 0, 4, 0, 3); (2, 2, -1, 0, 0); (3, 0, 4, 3, 4)] /\
    plans_agree 0 (spec_plans w_zero_folder) ps = true.
Proof. vm_compute. split; [reflexivity|]. eexists. repeat split; reflexivity. Qed.

(* (2) two folders, entries [data f0; data f1; DIR; data f1]: since the repair (each member keeps
   its own index in the per-folder list) the last member is looked up under 3, not 1 + 1 = 2 *)
Definition w_multi_id : sheader :=
  mkSHeader 0 [3; 9] [None; None] [w_folder 3; w_folder 9] [1; 2] [3; 4; 5] [None; None; None]
            [w_data 97 32; w_data 98 32; w_dir 100 (Some (Some 16)); w_data 99 32] [false].
Theorem assign_multifolder_id_conforms :
  nice w_multi_id = true /\
  exists ps, impl_plans (embed w_multi_id) = Ok ps /\ map ip_id ps = [0; 1; 2; 3] /\
    plans_agree 0 (spec_plans w_multi_id) ps = true.
Proof. vm_compute. split; [reflexivity|]. eexists. repeat split; reflexivity. Qed.

(* a NEGATIVE count (which no NUMBER field can hold, so no header read by s_header has one) is a
   folder without sub-streams for the specification but not for `== 0`: nums_nonneg is needed
   for the model-level statement *)
Definition w_negative : sheader :=
  mkSHeader 0 [0; 5] [None; None] [w_folder 0; w_folder 5] [-1; 2] [5] [None] [w_data 97 32] [].
Theorem assign_negative_count_refuted :
  s_valid w_negative = true /\ kinds_consistent w_negative = true /\ nums_nonneg w_negative = false /\
  map pl_folder (spec_plans w_negative) = [1] /\
  (exists ps, impl_plans (embed w_negative) = Ok ps /\ map ip_folder ps = [0]) /\
  disagrees w_negative.
Proof. vm_compute. repeat split; try reflexivity. eexists; split; reflexivity. Qed.

(* (3) the kind of an entry.  Since the repair of ArchiveFile.is_directory an entry without data is what its
   EmptyFile bit says: a directory (bit clear) without attributes, or whose attribute word lacks the directory
   bit, is a directory; an empty file (bit set) whose attribute word carries the directory bit is an empty file.
   These headers satisfy `nice` and conform.  What remains necessary: a DATA entry whose attributes carry the
   directory bit is still taken for a directory (its data is not delivered). *)
Definition w_dir_noattr : sheader :=
  mkSHeader 0 [3] [None] [w_folder 3] [1] [3] [None] [w_data 97 32; w_dir 100 None] [false].
Definition w_dir_attr_nobit : sheader :=
  mkSHeader 0 [3] [None] [w_folder 3] [1] [3] [None]
            [w_dir 100 (Some (Some 32)); w_data 97 32; w_dir 101 (Some None); w_dir 102 (Some (Some 16))] [false; false; false].
Definition w_file_dirattr : sheader :=
  mkSHeader 0 [3] [None] [w_folder 3] [1] [3] [None] [w_data 97 32; w_dir 101 (Some (Some 16))] [true].
Definition w_data_dirattr : sheader :=
  mkSHeader 0 [3] [None] [w_folder 3] [1] [3] [None] [w_data 97 48] [].
Theorem assign_dir_without_attribute_conforms :
  (nice w_dir_noattr = true /\
   map pl_kind (spec_plans w_dir_noattr) = [0; 2] /\
   exists ps, impl_plans (embed w_dir_noattr) = Ok ps /\ map ip_kind ps = [0; 2] /\
     plans_agree 0 (spec_plans w_dir_noattr) ps = true) /\
  (nice w_dir_attr_nobit = true /\
   map pl_kind (spec_plans w_dir_attr_nobit) = [2; 0; 2; 2] /\
   exists ps, impl_plans (embed w_dir_attr_nobit) = Ok ps /\ map ip_kind ps = [2; 0; 2; 2] /\
     plans_agree 0 (spec_plans w_dir_attr_nobit) ps = true).
Proof. vm_compute. repeat split; try reflexivity; eexists; repeat split; reflexivity. Qed.
Theorem assign_emptyfile_with_dir_attribute_conforms :
  nice w_file_dirattr = true /\
  map pl_kind (spec_plans w_file_dirattr) = [0; 1] /\
  exists ps, impl_plans (embed w_file_dirattr) = Ok ps /\ map ip_kind ps = [0; 1] /\
    plans_agree 0 (spec_plans w_file_dirattr) ps = true.
Proof. vm_compute. repeat split; try reflexivity; eexists; repeat split; reflexivity. Qed.
Theorem assign_data_with_dir_attribute_refuted :
  s_valid w_data_dirattr && nums_nonneg w_data_dirattr = true /\ kinds_consistent w_data_dirattr = false /\
  map pl_kind (spec_plans w_data_dirattr) = [0] /\
  (exists ps, impl_plans (embed w_data_dirattr) = Ok ps /\ map ip_kind ps = [2]) /\
  disagrees w_data_dirattr.
Proof. vm_compute. repeat split; try reflexivity; eexists; split; reflexivity. Qed.

(* the kind decision as it was before the repair -- from the attribute word alone, the EmptyFile vector never
   consulted -- kept for the regression examples: on the first two headers above it took the directory without
   attributes for an empty file and the empty file with the directory bit for a directory *)
Definition kind_before_repair (e : fileent) : Z :=
  if attr_is_dir (e_attr e) then 2 else if e_emptystream e then 1 else 0.
Example assign_kind_before_repair_refuted :
  (map kind_before_repair (sh_files w_dir_noattr) = [0; 1] /\ map pl_kind (spec_plans w_dir_noattr) = [0; 2]) /\
  (map kind_before_repair (sh_files w_dir_attr_nobit) = [1; 0; 1; 2] /\
   map pl_kind (spec_plans w_dir_attr_nobit) = [2; 0; 2; 2]) /\
  (map kind_before_repair (sh_files w_file_dirattr) = [0; 2] /\ map pl_kind (spec_plans w_file_dirattr) = [0; 1]).
Proof. vm_compute. repeat split; reflexivity. Qed.
(* where the two decisions coincide: on every entry with data, and on an entry without data exactly when
   "EmptyFile bit clear <-> attributes defined with the directory bit" -- the old clause of `nice` *)
Lemma kind_before_repair_agrees e ef :
  entry_kind e ef = kind_before_repair e <->
  (e_emptystream e = true -> negb ef = attr_is_dir (e_attr e)).
Proof.
  unfold entry_kind, kind_before_repair.
  destruct (e_emptystream e), ef, (attr_is_dir (e_attr e)); simpl; split; intros H; try reflexivity;
    try discriminate H; try (intros; discriminate); try (specialize (H eq_refl); discriminate H).
Qed.

(* (4) no SubStreamsInfo.  `embed` always produces one; py7zr's own parser builds a graph WITHOUT one for a
   legal header that omits the section (the format then says: one sub-stream per folder, its size and CRC are the
   folder's).  Before the repair the assignment raised on such a graph as soon as an entry had data (`subinfo`
   was None and was dereferenced); since the repair (_real_get_contents installs SubstreamsInfo.default(folders))
   these headers conform: assign_conforms_no_substreams below.  The behaviour before the repair is kept as
   `impl_plans_before_repair` for the regression example.  Header bytes of w_nosub_bytes:
     01 | 04 | 06 pos=0 n=1 09 5 00 | 07 0B 1 00 (1 coder: 01 00) 0C 5 00 | 00 | 05 1 (11 5 00 'a' 00 00) 00 | 00 *)
Definition w_nosub_bytes : bytes :=
  [1; 4; 6; 0; 1; 9; 5; 0; 7; 11; 1; 0; 1; 1; 0; 12; 5; 0; 0; 5; 1; 17; 5; 0; 97; 0; 0; 0; 0; 0].

(* the graph py7zr's parser builds for a specification header whose SubStreamsInfo is absent *)
Definition embed_nosub (h : sheader) : header :=
  mkHeader (Some (mkStreams (Some (embed_pack h)) (Some (map embed_folder (sh_folders h))) None))
           (Some (sh_files h)) (sh_emptyfile h).
(* what the specification reader (Spec.s_header, the `else` of its SubStreamsInfo step) yields for the three
   sub-stream vectors when the section is absent *)
Definition absent_sub (h : sheader) : Prop :=
  sh_nums h = repeat 1 (length (sh_folders h)) /\
  s_default_sizes (sh_nums h) (sh_folders h) = Ok (sh_sizes h) /\
  sh_crcs h = map sf_crc (sh_folders h).
(* py7zr takes a folder's size from the LAST unpack size, the format from the out-stream that is not bound:
   they name the same value in every folder py7zr's decoder chain supports (coders listed last-applied first) *)
Definition sf_last_is_main (f : sfolder) : bool :=
  match sfolder_unpack_size f, py_index (sf_unpacksizes f) (-1) with
  | Ok a, Ok b => a =? b
  | _, _ => false
  end.
Definition sizes_from_last (h : sheader) : bool := forallb sf_last_is_main (sh_folders h).

(* _real_get_contents as it was before the repair: no SubStreamsInfo and an entry with data -> AttributeError *)
Definition impl_plans_before_repair (h : header) : res (list iplan) :=
  match h_files h, h_streams h with
  | Some files, Some st =>
      match si_folders st, si_pack st, si_sub st with
      | Some _, Some _, None =>
          if existsb (fun e => negb (e_emptystream e)) files then Err EOther else impl_plans h
      | _, _, _ => impl_plans h
      end
  | _, _ => impl_plans h
  end.

Lemma default_digests_embed : forall fs : list sfolder,
  default_digests (repeat 1 (length (map embed_folder fs))) (map embed_folder fs) =
  (map is_some (map sf_crc fs), map or0 (map sf_crc fs)).
Proof.
  induction fs as [|f r IH]; [reflexivity|].
  cbn [map length repeat default_digests]. rewrite IH.
  cbn [embed_folder f_digestdefined f_crc Z.eqb Pos.eqb andb].
  destruct (sf_crc f) as [c|]; reflexivity.
Qed.

Lemma last_sizes_embed : forall (fs : list sfolder) sizes,
  forallb sf_last_is_main fs = true ->
  s_default_sizes (repeat 1 (length fs)) fs = Ok sizes ->
  last_sizes (map embed_folder fs) (repeat 1 (length fs)) = Ok sizes.
Proof.
  induction fs as [|f r IH]; intros sizes HL HS.
  - simpl in HS. injection HS as <-. reflexivity.
  - cbn [forallb] in HL. apply andb_prop in HL. destruct HL as [Hf Hr].
    cbn [length repeat s_default_sizes] in HS.
    destruct (s_default_sizes (repeat 1 (length r)) r) as [rest|e] eqn:Er; [|discriminate HS].
    cbn [bind Z.eqb Pos.eqb] in HS.
    unfold sf_last_is_main in Hf.
    destruct (sfolder_unpack_size f) as [a|e] eqn:Ea; [|discriminate Hf].
    destruct (py_index (sf_unpacksizes f) (-1)) as [b|e] eqn:Eb; [|discriminate Hf].
    cbn [bind] in HS. injection HS as <-.
    cbn [map length repeat last_sizes Z.leb Z.compare embed_folder f_unpacksizes].
    rewrite Eb. cbn [bind]. rewrite (IH rest Hr eq_refl). cbn [bind Z.to_nat].
    change (Pos.to_nat 1) with 1%nat. cbn [repeat app]. f_equal. f_equal. lia.
Qed.

(* on such a header the repaired assignment does exactly what it does on the graph WITH the section *)
Lemma impl_plans_nosub_embed : forall h, absent_sub h -> sizes_from_last h = true ->
  impl_plans (embed_nosub h) = impl_plans (embed h).
Proof.
  intros h [Hn [Hs Hc]] HL. unfold sizes_from_last in HL.
  unfold impl_plans, embed_nosub, embed.
  cbn [h_files h_streams si_folders si_pack si_sub embed_sub s_sizes s_nums Header.s_digestsdefined Header.s_digests].
  unfold default_sub. rewrite default_digests_embed.
  cbn [s_sizes s_nums Header.s_digestsdefined Header.s_digests].
  rewrite map_length. rewrite Hn in Hs. rewrite (last_sizes_embed _ _ HL Hs).
  rewrite <- Hc, <- Hn. reflexivity.
Qed.

Theorem assign_conforms_no_substreams : forall h, nice h = true -> absent_sub h -> sizes_from_last h = true ->
  exists ps, impl_plans (embed_nosub h) = Ok ps /\ plans_agree 0 (spec_plans h) ps = true.
Proof.
  intros h Hnice Habs HL. rewrite (impl_plans_nosub_embed h Habs HL). exact (assign_conforms h Hnice).
Qed.

(* the graph _real_get_contents leaves behind carries the installed object, and reading it again changes nothing *)
Lemma impl_plans_install_sub h : impl_plans (install_sub h) = impl_plans h.
Proof.
  destruct h as [[[pk fo sb]|] [fl|] ef]; try reflexivity.
  destruct fo as [fs|], pk as [p|], sb as [s|]; reflexivity.
Qed.
Lemma install_sub_idem h : install_sub (install_sub h) = install_sub h.
Proof.
  destruct h as [[[pk fo sb]|] [fl|] ef]; try reflexivity.
  destruct fo as [fs|], pk as [p|], sb as [s|]; reflexivity.
Qed.
Lemma install_sub_embed_nosub h :
  install_sub (embed_nosub h) =
  mkHeader (Some (mkStreams (Some (embed_pack h)) (Some (map embed_folder (sh_folders h)))
                            (Some (mkSub (repeat 1 (length (sh_folders h))) None
                                         (map is_some (map sf_crc (sh_folders h))) (map or0 (map sf_crc (sh_folders h)))))))
           (Some (sh_files h)) (sh_emptyfile h).
Proof.
  unfold install_sub, embed_nosub. cbn [h_files h_streams si_folders si_pack si_sub h_emptyfiles].
  unfold default_sub. rewrite default_digests_embed, map_length. reflexivity.
Qed.

(* the header bytes above, read by both parsers: the hypotheses hold of what the specification reader yields, py7zr's
   parser yields embed_nosub of it, and the member is assigned as the format says -- where it raised before *)
Theorem assign_no_substreams_conforms :
  exists h, s_header 100 w_nosub_bytes = Ok h /\ nice h = true /\ absent_sub h /\ sizes_from_last h = true /\
    parse_header 100 w_nosub_bytes = Ok (embed_nosub h) /\
    map (fun p => (pl_kind p, pl_folder p, pl_offset p, pl_size p)) (spec_plans h) = [(0, 0, 0, 5)] /\
    (exists ps, impl_plans (embed_nosub h) = Ok ps /\ map iplan_view ps = [(0, 0, 0, 0, 5)] /\
                plans_agree 0 (spec_plans h) ps = true) /\
    impl_plans_before_repair (embed_nosub h) = Err EOther.
Proof.
  vm_compute. eexists. split; [reflexivity|]. repeat split; try reflexivity.
  eexists. repeat split; reflexivity.
Qed.
Theorem assign_before_repair_refuted :
  forall pk fs fl ef, existsb (fun e => negb (e_emptystream e)) fl = true ->
    impl_plans_before_repair (mkHeader (Some (mkStreams (Some pk) (Some fs) None)) (Some fl) ef) = Err EOther.
Proof.
  intros pk fs fl ef H. unfold impl_plans_before_repair. cbn [h_files h_streams si_folders si_pack si_sub].
  rewrite H. reflexivity.
Qed.

(* three folders (sizes 3, 0, 4; two-coder chain in the last; folder CRCs defined, undefined, defined), empty-stream
   entries before, between and after the members, PackPos 7 *)
Definition w_nosub3 : sheader :=
  mkSHeader 7 [3; 0; 9] [None; None; Some 5]
            [mkSFolder [w_coder] [] [0] [3] (Some 11); mkSFolder [w_coder] [] [0] [0] None;
             mkSFolder [w_coder; w_coder] [(1, 0)] [0] [9; 4] (Some 13)]
            [1; 1; 1] [3; 0; 4] [Some 11; None; Some 13]
            [w_dir 100 (Some (Some 16)); w_data 97 32; w_dir 101 None; w_data 98 32; w_dir 102 (Some (Some 16));
             w_data 99 32; w_dir 103 (Some (Some 16))]
            [false; true; false; false].
Example assign_no_substreams_example :
  nice w_nosub3 = true /\ absent_sub w_nosub3 /\ sizes_from_last w_nosub3 = true /\
  exists ps, impl_plans (embed_nosub w_nosub3) = Ok ps /\
    map (fun p => (ip_id p, ip_kind p, ip_folder p, ip_offset p, ip_size p, ip_crc p)) ps =
      [(0, 2, -1, 0, 0, None); (1, 0, 0, 0, 3, Some 11); (2, 1, -1, 0, 0, None); (3, 0, 1, 0, 0, None);
       (4, 2, -1, 0, 0, None); (5, 0, 2, 0, 4, Some 13); (6, 2, -1, 0, 0, None)] /\
    plans_agree 0 (spec_plans w_nosub3) ps = true /\
    impl_plans_before_repair (embed_nosub w_nosub3) = Err EOther.
Proof. vm_compute. repeat split; try reflexivity. eexists. repeat split; reflexivity. Qed.

(* ------------------------------------------------------------------ *)
(* D. non-vacuity                                                      *)
(* ------------------------------------------------------------------ *)
(* four folders with 2, 0, 3 and 0 members; directories and empty files before, after and
   between the members of a folder; CRCs partly defined *)
Definition w_nice : sheader :=
  mkSHeader 32 [7; 0; 6; 0] [None; Some 1; None; None] [w_folder 7; w_folder 0; w_folder 6; w_folder 0]
            [2; 0; 3; 0] [3; 4; 1; 2; 3] [Some 11; None; Some 14; None; Some 16]
            [w_dir 100 (Some (Some 16)); w_data 97 32; w_dir 101 (Some None); w_data 98 32;
             w_dir 102 (Some (Some 16)); w_dir 103 None;
             w_data 104 32; w_data 105 32; w_dir 106 (Some (Some 16)); w_data 107 32; w_dir 108 (Some (Some 16))]
            [false; true; false; true; false; false].
Example nice_example : nice w_nice = true /\ fills (sh_nums w_nice) (sh_folders w_nice) (sh_sizes w_nice).
Proof. vm_compute. repeat split; reflexivity. Qed.
Example nice_example_plans :
  exists ps, impl_plans (embed w_nice) = Ok ps /\
    map (fun p => (ip_id p, ip_kind p, ip_folder p, ip_offset p, ip_size p, ip_crc p)) ps =
    [(0, 2, -1, 0, 0, None); (1, 0, 0, 0, 3, Some 11); (2, 1, -1, 0, 0, None); (3, 0, 0, 3, 4, None);
     (4, 2, -1, 0, 0, None); (5, 1, -1, 0, 0, None);
     (6, 0, 2, 0, 1, Some 14); (7, 0, 2, 1, 2, None); (8, 2, -1, 0, 0, None); (9, 0, 2, 3, 3, Some 16);
     (10, 2, -1, 0, 0, None)] /\
    plans_agree 0 (spec_plans w_nice) ps = true.
Proof. vm_compute. eexists. repeat split; reflexivity. Qed.
(* a header read from bytes by the specification reader: one folder with two members "a" (2 bytes) and
   "b" (3 bytes) and a directory "d" (attribute 0x10) between them *)
Definition w_read_bytes : bytes :=
  [1; 4; 6; 0; 1; 9; 5; 0; 7; 11; 1; 0; 1; 1; 0; 12; 5; 0; 8; 13; 2; 9; 2; 0; 0;
   5; 3; 14; 1; 64; 17; 13; 0; 97; 0; 0; 0; 100; 0; 0; 0; 98; 0; 0; 0;
   21; 14; 1; 0; 32; 0; 0; 0; 16; 0; 0; 0; 32; 0; 0; 0; 0; 0].
Example nice_read_example :
  exists h, s_header 100 w_read_bytes = Ok h /\ nice h = true /\
    map (fun p => (pl_kind p, pl_folder p, pl_offset p, pl_size p)) (spec_plans h) =
      [(0, 0, 0, 2); (2, -1, 0, 0); (0, 0, 2, 3)] /\
    exists g, parse_header 100 w_read_bytes = Ok g /\ impl_plans g = impl_plans (embed h).
Proof. vm_compute. eexists. repeat split; try reflexivity. eexists. split; reflexivity. Qed.
Example nice_nostreams_example :
  let h := mkSHeader 0 [] [] [] [] [] [] [w_dir 100 (Some (Some 16)); w_dir 101 None] [false; true] in
  nice h = true /\ sh_folders h = [] /\
  exists ps, impl_plans (embed_nostreams h) = Ok ps /\ map iplan_view ps = [(0, 2, -1, 0, 0); (1, 1, -1, 0, 0)].
Proof. vm_compute. repeat split; try reflexivity. eexists. split; reflexivity. Qed.
