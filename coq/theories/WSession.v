(* WSession.v -- the write session of py7zr.SevenZipFile (modes w/x) as a state machine with
   fault points.  Mirrors, in the order of effects of the code:

     SevenZipFile.write        py7zr.py  l.1078-1095   sanitise arcname; header.initialize();
                                                       _make_file_info (lstat); files_info.files.append;
                                                       emptyfiles.append; self.files.append; worker.archive
     SevenZipFile.writef/_writef          l.1097-1131  check_archive_path; size probing; initialize;
                                                       _make_file_info_from_name; 3 appends; worker.archive
     SevenZipFile.writestr/_writestr      l.1133-1146  check_archive_path; type checks; _writef(BytesIO)
     SevenZipFile.writeall/_writeall      l.1067-1076, 708-728  exists(); then write() per member, sorted
     Worker.archive/write/writestr/_after_write  l.1533-1593
     SevenZipCompressor.compress          compressor.py l.893-908 (blocks already fed stay in the stream)
     close/_write_flush/flush_archive     l.1148-1164, 689-694, 1561-1575

   The member is registered (three appends) before Worker.archive opens / reads its source, and
   Worker.archive works on files[worker.current_file_index].  Since the repair of the poisoning
   defect (SevenZipFile._register_and_archive) a failure of Worker.archive pops the three lists
   again, so that current_file_index = len(files) holds between calls.  What cannot be undone:
   the bytes of the source that were already fed to the folder's compressor when read() raised.

   Representation: the Python lists  files / header.files_info.files / emptyfiles  (always equal
   in length and content) are  map fst ws_done ++ ws_pend  and  worker.current_file_index  is
   length ws_done  (the code keeps 0 <= current_file_index <= len(files)).
   The digest function is a parameter (Section variable): CRC-32 in the executable instance.
   stdlib only; no axioms. *)
From P7 Require Import Prelude Crc32.
Open Scope Z_scope.

(* ------------------------------------------------------------------ *)
(** * Sources, faults, operations                                       *)
(* ------------------------------------------------------------------ *)

(* what the caller hands over: a regular file by path, a directory by path, a symbolic link by
   path (dereference=False: the link target is archived), in-memory data / a file object *)
Inductive skind := KFile | KDir | KLink | KData.

(* FStat : write(): lstat raises (source missing, EACCES, EIO) / writef: tell/seek raises,
           unsupported object / writestr: unsupported data type / writeall: is_symlink raises
   FName : arcname rejected (AbsolutePathError in write, ValueError from check_archive_path)
   FOpen : Path.open raises (file removed after lstat, EACCES, EIO); readlink raises for a link
   FRead k : read() raises once k bytes of the source have been delivered *)
Inductive fkind := FStat | FName | FOpen | FRead (k : nat).
(* sticky = the environment still has the fault when the source is touched again *)
Record fault := mkFault { f_kind : fkind; f_sticky : bool }.
(* s_eloop: the exception of the fault is an OSError with errno ELOOP (only _writeall looks at it).
   The class of the exception otherwise plays no role anywhere in the write path: the rollback of
   _register_and_archive catches BaseException, nothing else between the source and the caller
   catches anything (checked by the harness with ValueError, RuntimeError and a BaseException
   subclass raised at open and at read). *)
Record src := mkSrc { s_name : Z; s_kind : skind; s_data : bytes; s_fault : option fault; s_eloop : bool }.

Inductive api := AWrite | AWritestr | AWritef.
Inductive wop :=
| OCall (a : api) (s : src)
| OWriteall (root_missing : bool) (deref : bool) (l : list src).
   (* l = the tree in the order _writeall visits it; deref = SevenZipFile(dereference=True): symbolic
      links are presented to the machine as what they point to (KFile / KDir) *)
Inductive wout := Returned | Raised.

(* ------------------------------------------------------------------ *)
(** * State                                                             *)
(* ------------------------------------------------------------------ *)

(* a registered member (a file_info dict) together with the state of its source *)
Record wfile := mkFile { w_name : Z; w_kind : skind; w_data : bytes; w_pos : nat; w_fault : option fault }.

Definition is_dir (f : wfile) : bool := match w_kind f with KDir => true | _ => false end.

Record wstate {D : Type} := mkState {
  ws_init : bool;                    (* header._initialized *)
  ws_done : list (wfile * nat);      (* files[0 .. current_file_index), with the source position the data was read from *)
  ws_pend : list wfile;              (* files[current_file_index ..] *)
  ws_last : Z;                       (* worker.last_file_index *)
  ws_subs : list (nat * D);          (* substreamsinfo.unpacksizes / digests *)
  ws_stream : bytes;                 (* every byte fed to the folder's compressor so far *)
  ws_garb : nat                      (* ghost: how many of those bytes belong to no sub-stream *)
}.
Arguments wstate D : clear implicits.

Definition ws_files {D} (st : wstate D) : list wfile := map fst (ws_done st) ++ ws_pend st.
Definition ws_cur {D} (st : wstate D) : nat := length (ws_done st).

Definition st0 {D} : wstate D := mkState D false [] [] (-1) [] [] O.

Definition post_fault (o : option fault) : option fault :=
  match o with
  | Some (mkFault FOpen _) => o
  | Some (mkFault (FRead _) _) => o
  | _ => None
  end.

(* the member the call registers *)
Definition file_of_src (a : api) (s : src) : wfile :=
  match a with
  | AWrite => mkFile (s_name s) (match s_kind s with KData => KFile | k => k end) (s_data s) O (post_fault (s_fault s))
  | AWritef => mkFile (s_name s) KData (s_data s) O (post_fault (s_fault s))
  | AWritestr => mkFile (s_name s) KData (s_data s) O None      (* the BytesIO is made by _writestr itself *)
  end.

Definition disarm (f : wfile) : wfile :=
  match w_fault f with
  | Some (mkFault _ false) => mkFile (w_name f) (w_kind f) (w_data f) (w_pos f) None
  | _ => f
  end.
Definition set_pos (f : wfile) (p : nat) : wfile := mkFile (w_name f) (w_kind f) (w_data f) p (w_fault f).

(* RdOk bs sk f': the whole rest of the source, read from offset sk, was fed to the compressor *)
Inductive rd := RdOk (bs : bytes) (sk : nat) (f' : wfile) | RdFail (consumed : bytes) (f' : wfile).

Definition is_kdata (f : wfile) : bool := match w_kind f with KData => true | _ => false end.

(* Worker.write / Worker.writestr up to and including compressor.compress(fd, fp) *)
Definition read_src (f : wfile) : rd :=
  match w_kind f with
  | KDir => RdOk [] O f
  | KLink =>
      (* _find_link_target: helpers.readlink raises (EINVAL for a dangling link); a relative link
         text is kept as it is (members without origin are skipped); then BytesIO(target) *)
      match w_fault f with
      | Some (mkFault FOpen _) => RdFail [] (disarm f)
      | _ => RdOk (w_data f) O f
      end
  | KFile =>                        (* f.origin.open(): every attempt starts at offset 0 *)
      match w_fault f with
      | Some (mkFault FOpen _) => RdFail [] (disarm f)
      | Some (mkFault (FRead k) _) =>
          if (k <? length (w_data f))%nat then RdFail (firstn k (w_data f)) (disarm f)
          else RdOk (w_data f) O f
      | _ => RdOk (w_data f) O f
      end
  | KData =>                        (* f.data(): the caller's object, it keeps its position *)
      let rest := skipn (w_pos f) (w_data f) in
      match w_fault f with
      | Some (mkFault (FRead k) _) =>
          if (k <? length (w_data f))%nat
          then RdFail (firstn (k - w_pos f) rest) (disarm (set_pos f (Nat.max (w_pos f) k)))
          else RdOk rest (w_pos f) (set_pos f (length (w_data f)))
      | _ => RdOk rest (w_pos f) (set_pos f (length (w_data f)))
      end
  end.

Section Model.
Context {D : Type}.
Variable dg : bytes -> D.            (* calculate_crc32 over the whole member *)
Variable deq : D -> D -> bool.
Notation wstate := (wstate D).

(* Worker.archive(fp, files, folder) *)
Definition archive (st : wstate) : wstate * wout :=
  match ws_pend st with
  | [] => (st, Raised)                                   (* files[current_file_index]: IndexError *)
  | f :: p =>
      if is_dir f then
        (mkState D (ws_init st) (ws_done st ++ [(f, O)]) p (ws_last st) (ws_subs st) (ws_stream st) (ws_garb st),
         Returned)
      else
        match read_src f with
        | RdOk bs sk f' =>                                   (* _after_write; last_file_index; current_file_index += 1 *)
            (mkState D (ws_init st) (ws_done st ++ [(f', sk)]) p (Z.of_nat (length (ws_done st)))
                     (ws_subs st ++ [(length bs, dg bs)]) (ws_stream st ++ bs) (ws_garb st), Returned)
        | RdFail c f' =>                                  (* the exception leaves archive() here *)
            (mkState D (ws_init st) (ws_done st) (f' :: p) (ws_last st) (ws_subs st) (ws_stream st ++ c)
                     (ws_garb st + length c), Raised)
        end
  end.

Definition set_init (st : wstate) : wstate :=
  mkState D true (ws_done st) (ws_pend st) (ws_last st) (ws_subs st) (ws_stream st) (ws_garb st).
Definition register (st : wstate) (f : wfile) : wstate :=
  mkState D (ws_init st) (ws_done st) (ws_pend st ++ [f]) (ws_last st) (ws_subs st) (ws_stream st) (ws_garb st).

(* SevenZipFile._register_and_archive: the three appends, Worker.archive, and on any exception the
   three pops (current_file_index was not advanced by the failed archive) *)
Definition pop_pend (st : wstate) : wstate :=
  mkState D (ws_init st) (ws_done st) (removelast (ws_pend st)) (ws_last st) (ws_subs st) (ws_stream st) (ws_garb st).
Definition reg_archive (st : wstate) (f : wfile) : wstate * wout :=
  match archive (register st f) with
  | (st', Returned) => (st', Returned)
  | (st', Raised) => (pop_pend st', Raised)
  end.

Definition fault_kind (s : src) : option fkind := option_map f_kind (s_fault s).

(* SevenZipFile.write *)
Definition call_write (st : wstate) (s : src) : wstate * wout :=
  match fault_kind s with
  | Some FName => (st, Raised)                            (* _sanitize_archive_arcname raises first *)
  | Some FStat => (set_init st, Raised)                   (* header.initialize() precedes _make_file_info *)
  | _ => reg_archive (set_init st) (file_of_src AWrite s)
  end.

(* SevenZipFile.writestr / writef *)
Definition call_data (a : api) (st : wstate) (s : src) : wstate * wout :=
  match fault_kind s with
  | Some FName => (st, Raised)
  | Some FStat => (st, Raised)                            (* argument checks precede header.initialize() *)
  | _ => reg_archive (set_init st) (file_of_src a s)
  end.

(* one member visited by _writeall: is_symlink()/is_file()/is_dir() come before write(); pathlib
   answers False for ELOOP instead of raising, so that an ELOOP of lstat surfaces inside write() *)
Definition elem_writeall (st : wstate) (s : src) : wstate * wout :=
  match fault_kind s with
  | Some FStat => if s_eloop s then (set_init st, Raised) else (st, Raised)
  | _ => call_write st s
  end.

(* the except clause of _writeall: `if self.dereference and ose.errno in [errno.ELOOP]: return`,
   everything else is re-raised.  (Members whose failure is swallowed are leaves of the tree.) *)
Definition swallows (deref : bool) (s : src) : bool := deref && s_eloop s.

Fixpoint writeall_loop (deref : bool) (st : wstate) (l : list src) : wstate * wout :=
  match l with
  | [] => (st, Returned)
  | s :: r =>
      match elem_writeall st s with
      | (st', Raised) => if swallows deref s then writeall_loop deref st' r else (st', Raised)
      | (st', Returned) => writeall_loop deref st' r
      end
  end.

Definition wstep (st : wstate) (op : wop) : wstate * wout :=
  match op with
  | OCall AWrite s => call_write st s
  | OCall a s => call_data a st s
  | OWriteall true _ _ => (st, Raised)                   (* "specified path does not exist." *)
  | OWriteall false deref l => writeall_loop deref st l
  end.

Fixpoint run (st : wstate) (ops : list wop) : wstate * list wout :=
  match ops with
  | [] => (st, [])
  | op :: r =>
      let '(st1, o) := wstep st op in
      let '(st2, os) := run st1 r in (st2, o :: os)
  end.

(* ------------------------------------------------------------------ *)
(** * close() and a conforming reader                                   *)
(* ------------------------------------------------------------------ *)

(* what close() commits: the header's file entries with their emptystream flag, the sub-stream
   table, and the folder whose decoded content is the compressor's input *)
Record adescr := mkDescr {
  ad_init : bool;                    (* main_streams present *)
  ad_files : list (Z * bool);        (* name, emptystream *)
  ad_subs : list (nat * D);
  ad_stream : bytes
}.

Definition wclose (st : wstate) : adescr :=
  mkDescr (ws_init st) (map (fun f => (w_name f, is_dir f)) (ws_files st)) (ws_subs st) (ws_stream st).

Inductive mres := MDir | MData (bs : bytes) | MCrc.

(* the folder content is cut by the sub-stream sizes; the size of the last sub-stream of a folder
   is not stored, it is the folder's unpack size minus the others *)
Fixpoint cut (subs : list (nat * D)) (stream : bytes) : option (list (bytes * D)) :=
  match subs with
  | [] => Some []
  | (n, c) :: r =>
      match r with
      | [] => Some [(stream, c)]
      | _ :: _ =>
          if (n <=? length stream)%nat
          then option_map (cons (firstn n stream, c)) (cut r (skipn n stream))
          else None
      end
  end.

(* entries with data are matched to sub-streams in order; a mismatch in counts = unreadable *)
Fixpoint assign (files : list (Z * bool)) (sl : list (bytes * D)) : option (list (Z * mres)) :=
  match files with
  | [] => match sl with [] => Some [] | _ :: _ => None end
  | (n, true) :: r => option_map (cons (n, MDir)) (assign r sl)
  | (n, false) :: r =>
      match sl with
      | [] => None
      | (bs, c) :: sl' => option_map (cons (n, if deq (dg bs) c then MData bs else MCrc)) (assign r sl')
      end
  end.

Definition readable (a : adescr) : option (list (Z * mres)) :=
  if ad_init a then
    match cut (ad_subs a) (ad_stream a) with
    | Some sl => assign (ad_files a) sl
    | None => None
    end
  else match ad_files a with [] => Some [] | _ :: _ => None end.

(* the observable meaning of a session state: what a reader gets after close() *)
Definition abs (st : wstate) : option (list (Z * mres)) := readable (wclose st).

Definition is_crc (m : Z * mres) : bool := match snd m with MCrc => true | _ => false end.
Definition all_pass (ms : list (Z * mres)) : bool := negb (existsb is_crc ms).

(* ------------------------------------------------------------------ *)
(** * What the property asks for                                        *)
(* ------------------------------------------------------------------ *)

Definition full_member (f : wfile) : Z * mres :=
  (w_name f, if is_dir f then MDir else MData (w_data f)).

(* does the fault of the source fire when it is handed to this entry point?  (an open fault on a
   directory, a read fault at or behind the end of the data, any open/read fault on the BytesIO
   that writestr makes itself, never fire) *)
Definition fires (a : api) (s : src) : bool :=
  match s_fault s with
  | None => false
  | Some (mkFault k _) =>
      match k with
      | FStat => true
      | FName => true
      | FOpen => match a with
                 | AWrite => match s_kind s with KDir => false | _ => true end
                 | _ => false
                 end
      | FRead n => (n <? length (s_data s))%nat &&
                   match a with
                   | AWrite => match s_kind s with KFile => true | KData => true | _ => false end
                   | AWritef => true
                   | AWritestr => false
                   end
      end
  end.

(* the failure leaves bytes of the source in the compressor *)
Definition dirty (a : api) (s : src) : bool :=
  fires a s && match s_fault s with Some (mkFault (FRead n) _) => (0 <? n)%nat | _ => false end.

(* members of the tree that are written: up to the first failure that propagates, without those
   whose failure _writeall swallows *)
Fixpoint ok_prefix (deref : bool) (l : list src) : list src :=
  match l with
  | [] => []
  | s :: r => if fires AWrite s then (if swallows deref s then ok_prefix deref r else [])
              else s :: ok_prefix deref r
  end.

(* the failure of this member propagates out of writeall *)
Definition stops (deref : bool) (s : src) : bool := fires AWrite s && negb (swallows deref s).

(* the members a call that behaves as the property demands leaves in the archive
   (writeall is the sequence of its write() calls) *)
Definition expected (op : wop) : list (Z * mres) :=
  match op with
  | OCall a s => if fires a s then [] else [full_member (file_of_src a s)]
  | OWriteall true _ _ => []
  | OWriteall false deref l => map (fun s => full_member (file_of_src AWrite s)) (ok_prefix deref l)
  end.

Definition expected_out (op : wop) : wout :=
  match op with
  | OCall a s => if fires a s then Raised else Returned
  | OWriteall true _ _ => Raised
  | OWriteall false deref l => if existsb (stops deref) l then Raised else Returned
  end.

(* histories none of whose failures leaves bytes behind: every fault except read() raising
   after k > 0 bytes *)
Definition clean_op (op : wop) : bool :=
  match op with
  | OCall a s => negb (dirty a s)
  | OWriteall _ _ l => forallb (fun s => negb (dirty AWrite s)) l
  end.

(* the sources of a history with the entry point that takes them *)
Definition op_srcs (op : wop) : list (api * src) :=
  match op with
  | OCall a s => [(a, s)]
  | OWriteall _ _ l => map (fun s => (AWrite, s)) l
  end.

(* a registered member and what a reader may get for it: the complete bytes of the source, or an error *)
Definition right_or_crc (f : wfile) (m : Z * mres) : Prop :=
  fst m = w_name f /\ (snd m = snd (full_member f) \/ snd m = MCrc).

End Model.

(* ------------------------------------------------------------------ *)
(** * Executable instance (CRC-32) and the dispatcher                   *)
(* ------------------------------------------------------------------ *)

Definition run32 := @run Z crc32.
Definition abs32 := @abs Z crc32 Z.eqb.

Definition of_nat_t (t : tree) : nat := Z.to_nat (of_TI t).
Definition of_skind (t : tree) : skind :=
  match of_TI t with 0 => KFile | 1 => KDir | 2 => KLink | _ => KData end.
Definition of_fault (t : tree) : option fault :=
  match of_TL t with
  | k :: n :: s :: _ =>
      Some (mkFault (match of_TI k with 0 => FStat | 1 => FName | 2 => FOpen | _ => FRead (of_nat_t n) end) (of_bool s))
  | _ => None
  end.
(* src = (name kind data fault eloop) ; fault = () | (kind k sticky) *)
Definition of_src (t : tree) : src :=
  mkSrc (of_TI (tnth t 0)) (of_skind (tnth t 1)) (of_bytes (tnth t 2)) (of_fault (tnth t 3)) (of_bool (tnth t 4)).
(* op = (0|1|2 src) | (3 root_missing (src ...) deref) *)
Definition of_op (t : tree) : wop :=
  match of_TI (tnth t 0) with
  | 0 => OCall AWrite (of_src (tnth t 1))
  | 1 => OCall AWritestr (of_src (tnth t 1))
  | 2 => OCall AWritef (of_src (tnth t 1))
  | _ => OWriteall (of_bool (tnth t 1)) (of_bool (tnth t 3)) (map of_src (of_TL (tnth t 2)))
  end.

Definition t_nat (n : nat) : tree := TI (Z.of_nat n).
Definition t_out (o : wout) : tree := TI (match o with Returned => 0 | Raised => 1 end).
Definition t_mres (m : Z * mres) : tree :=
  match snd m with
  | MDir => TL [TI (fst m); TI 0; TL []]
  | MData bs => TL [TI (fst m); TI 1; t_bytes bs]
  | MCrc => TL [TI (fst m); TI 2; TL []]
  end.
Definition t_state (st : wstate Z) : tree :=
  TL [t_bool (ws_init st); t_nat (ws_cur st); t_nat (length (ws_files st)); TI (ws_last st);
      TL (map (fun p => t_nat (fst p)) (ws_subs st)); TL (map (fun p => TI (snd p)) (ws_subs st));
      t_bytes (ws_stream st); TL (map (fun f => TI (w_name f)) (ws_files st))].

Definition wsession_dispatch (fn : Z) (a : tree) : tree :=
  match fn with
  (* FN 220 ws_run : (op ...) -> ((out ...) state readable) ; readable = () | ((name tag bytes) ...) *)
  | 220 =>
      let '(st, outs) := run32 st0 (map of_op (of_TL a)) in
      TL [TL (map t_out outs); t_state st; t_opt (fun ms => TL (map t_mres ms)) (abs32 st)]
  (* FN 221 ws_expected : (op ...) -> ((out ...) ((name tag bytes) ...)) what the property demands *)
  | 221 =>
      let ops := map of_op (of_TL a) in
      TL [TL (map (fun op => t_out (expected_out op)) ops); TL (map t_mres (flat_map expected ops))]
  | _ => TL [TI (-2)]
  end.
