(* Mem.v -- live-byte accounting over the Decomp.v state machine (property C20:
   streaming in bounded memory), and a model of the block loop of
   SevenZipCompressor.compress (compressor.py l.893-908).

   Part 1 "Model"  : computable definitions (extracted; FN 340-359).
   Part 2 "Proofs" : bounds for chains whose stages honour max_length, bounds
                     proportional to block_size x expansion for stages that
                     ignore it, the refutation/characterisation with the toy
                     expander, and the write-side bound.
   What is counted: the byte strings py7zr itself holds around one call of
   SevenZipDecompressor.decompress -- _buf before and after, the block read from
   fp, the chain's result tmp, the returned chunk -- plus an abstract term
   [held] for memory inside the codec objects (dictionaries, retained input),
   which is measured by the harness, not proved.
   stdlib only; no axioms. *)
From Coq Require Import ZifyBool.
From P7 Require Import Prelude Decomp.
Open Scope Z_scope.

(* ===================================================================== *)
(*                              PART 1 : MODEL                           *)
(* ===================================================================== *)

(* ---- toy decoder stages with a memory profile ------------------------ *)
(* state = (tag, k, pending), as Decomp.toy_state.
   tag 1 : lagging copy (Decomp.toy_dstep): honours max_length, retains input
   tag 2 : expander: every input byte k times; IGNORES max_length
           (Deflate64Decompressor shape; Deflate/Zstd/Brotli before their repair)
   tag 3 : expander that honours max_length: expands only as many whole input
           bytes as fit into max_length and keeps the rest of its INPUT inside
           (lzma/bz2/zstd/deflate shape: bounded output per call, unconsumed input retained)
   tag 4 : as tag 3, but rounds UP to whole input bytes: may exceed max_length by
           up to k-1 bytes (BrotliDecompressor with output_buffer_limit: the limit
           is honoured up to one internal output block)
   other : copy, ignores max_length (CopyDecompressor/BCJ shape) *)
Fixpoint rep_each (k : nat) (l : bytes) : bytes :=
  match l with [] => [] | x :: t => repeatZ x k ++ rep_each k t end.

Definition mtoy_dstep (s : toy_state) (data : bytes) (ml : Z) : toy_state * bytes :=
  let '(tag, k, pend) := s in
  if tag =? 1 then toy_dstep s data ml
  else if tag =? 2 then (s, rep_each (Z.to_nat k) data)
  else if tag =? 3 then
    let avail := pend ++ data in
    let n := if (ml <? 0) || (k <=? 0) then length avail
             else Nat.min (length avail) (Z.to_nat (ml / k)) in
    ((tag, k, skipn n avail), rep_each (Z.to_nat k) (firstn n avail))
  else if tag =? 4 then
    let avail := pend ++ data in
    let n := if (ml <? 0) || (k <=? 0) then length avail
             else Nat.min (length avail) (Z.to_nat ((ml + k - 1) / k)) in
    ((tag, k, skipn n avail), rep_each (Z.to_nat k) (firstn n avail))
  else (s, data).

Definition mtoy_held (s : toy_state) : Z := zlen (snd s).
(* which toy states meet which contract (Prop; not extracted) *)
Definition mtoy_honest (s : toy_state) : Prop := fst (fst s) = 1 \/ fst (fst s) = 3.
Definition mtoy_tame (K : Z) (s : toy_state) : Prop :=
  fst (fst s) <> 1 /\ fst (fst s) <> 3 /\ fst (fst s) <> 4 /\ snd (fst s) <= K.
(* honours max_length up to K bytes *)
Definition mtoy_slack (K : Z) (s : toy_state) : Prop := fst (fst s) = 4 /\ snd (fst s) <= K + 1.

Section Acct.
  Variable stage_st : Type.
  Variable dstep : stage_st -> bytes -> Z -> stage_st * bytes.
  Variable held : stage_st -> Z.

  Definition sum_held (ss : list stage_st) : Z := fold_right (fun s a => held s + a) 0 ss.

  (* bytes fp.read returned during the call *)
  Definition read_len (st st' : dstate stage_st) : Z := consumed st' - consumed st.

  (* length of tmp = self._decompress(...) in the call, recovered from the flow
     equation  _buf[_pos:] ++ tmp = res ++ _buf'[_pos':]  (Decomp.decompress_spec) *)
  Definition tmp_len (st st' : dstate stage_st) (out : bytes) : Z :=
    zlen out + (zlen (buf st') - pos st') - (zlen (buf st) - pos st).

  (* byte strings managed by py7zr that may be alive at once during the call:
     old _buf, new _buf, tmp, res, and the block read from fp *)
  Definition managed (st st' : dstate stage_st) (out : bytes) : Z :=
    zlen (buf st) + zlen (buf st') + zlen out + tmp_len st st' out + read_len st st'.

  Definition live (st st' : dstate stage_st) (out : bytes) : Z :=
    managed st st' out + sum_held (stages st').

  (* inside _decompress: the largest len(input)+len(output) of one stage *)
  Fixpoint chain_peak (ss : list stage_st) (up us : list Z) (data : bytes) (ml : Z) : Z :=
    match ss with
    | [] => 0
    | s :: ss' =>
      match up, us with
      | u :: up', z :: us' =>
        if u <? z then
          let '(_, out) := dstep s data ml in
          if stop_here ss' data (trim_out ss' out (z - u)) then zlen data + zlen out
          else Z.max (zlen data + zlen out) (chain_peak ss' up' us' (trim_out ss' out (z - u)) ml)
        else if zlen data =? 0 then chain_peak ss' up' us' [] ml
        else 0
      | _, _ => 0
      end
    end.

  (* the same for one call of decompress: 0 when the call is served from _buf,
     otherwise the chain runs on the bytes this call read from fp *)
  Definition call_chain_peak (st st' : dstate stage_st) (ml : Z) : Z :=
    if (0 <=? ml) && (zlen (buf st) - pos st >=? ml) then 0
    else chain_peak (stages st) (unpacked st) (unpacksizes st)
                    (firstn (Z.to_nat (read_len st st')) (fp_rest st)) ml.

  (* [len res; len _buf'; _pos'; bytes read; len tmp; managed; live; chain peak] *)
  Definition acct (st st' : dstate stage_st) (ml : Z) (out : bytes) : list Z :=
    [zlen out; zlen (buf st'); pos st'; read_len st st'; tmp_len st st' out;
     managed st st' out; live st st' out; call_chain_peak st st' ml].

  Fixpoint acct_trace (st : dstate stage_st) (calls : list (Z * nat))
    : list (res (bytes * list Z)) :=
    match calls with
    | [] => []
    | (ml, rd) :: calls' =>
      match decompress dstep st ml rd with
      | Ok (st', out) => Ok (out, acct st st' ml out) :: acct_trace st' calls'
      | Err e => [Err e]
      end
    end.

  (* Worker.decompress with the maximum of [managed] over its calls *)
  Fixpoint worker_peak (fuel : nat) (st : dstate stage_st) (size max_block : Z)
           (sched : list nat) : res (dstate stage_st * bytes * Z) :=
    if size >? 0 then
      match fuel with
      | O => Err EFuel
      | S fuel' =>
        do r <- decompress dstep st (Z.min size max_block) (sched_hd st sched);
        let '(st', tmp) := r in
        let m := managed st st' tmp in
        let rem := if zlen tmp >? 0 then size - zlen tmp else size in
        if rem <=? 0 then Ok (st', tmp, m)
        else
          do r' <- worker_peak fuel' st' rem max_block (tl sched);
          let '(st'', out, pk) := r' in
          Ok (st'', tmp ++ out, Z.max m pk)
      end
    else Ok (st, [], 0).

  (* what the carry-over buffer is after a sequence of calls *)
  Definition clean (st : dstate stage_st) : Prop :=
    buf st = [] /\ pos st = 0 /\ unused st = [].

  Definition buf_inv (st : dstate stage_st) : Prop :=
    0 <= pos st <= zlen (buf st) /\ unused st = [].

  (* ---- specification-level definitions (Prop; not extracted) -------- *)
  (* the last decoder of the chain satisfies [honest] *)
  Fixpoint last_ok (honest : stage_st -> Prop) (ss : list stage_st) : Prop :=
    match ss with
    | [] => False
    | s :: t => match t with [] => honest s | _ :: _ => last_ok honest t end
    end.

  (* what one call does to the carry-over buffer *)
  Definition buf_case (st st' : dstate stage_st) (ml : Z) (data tmp : bytes) : Prop :=
    let cur := zlen (buf st) - pos st in
    (* enough in _buf: nothing read, nothing decoded *)
    (0 <= ml <= cur /\ buf st' = buf st /\ pos st' = pos st + ml /\ data = [] /\ tmp = [] /\
     stages st' = stages st)
    \/ (* everything handed out *)
    ((ml < 0 \/ cur + zlen tmp <= ml) /\ buf st' = [] /\ pos st' = 0 /\
     chain_run dstep (stages st) (unpacked st) (unpacksizes st) data ml
       = Ok (stages st', unpacked st', tmp))
    \/ (* surplus of tmp kept *)
    (0 <= cur < ml /\ ml < cur + zlen tmp /\ pos st' = 0 /\
     zlen (buf st') = cur + zlen tmp - ml /\
     chain_run dstep (stages st) (unpacked st) (unpacksizes st) data ml
       = Ok (stages st', unpacked st', tmp)).

End Acct.

Arguments sum_held {stage_st}.
Arguments read_len {stage_st}.
Arguments tmp_len {stage_st}.
Arguments managed {stage_st}.
Arguments live {stage_st}.
Arguments acct {stage_st}.
Arguments chain_peak {stage_st}.
Arguments call_chain_peak {stage_st}.
Arguments acct_trace {stage_st}.
Arguments worker_peak {stage_st}.
Arguments clean {stage_st}.
Arguments buf_inv {stage_st}.
Arguments last_ok {stage_st}.
Arguments buf_case {stage_st}.

(* affine expansion iterated over a chain of n stages: x |-> r*x + c0 *)
Fixpoint exp_iter (r c0 : Z) (n : nat) (x : Z) : Z :=
  match n with O => x | S n' => exp_iter r c0 n' (r * x + c0) end.

(* ---- write side: SevenZipCompressor.compress -------------------------- *)
(* fd.read(n): a negative n reads everything *)
Definition fd_read (fd : bytes) (n : Z) (k : nat) : bytes * bytes :=
  if n <? 0 then (fd, []) else fp_read fd n k.

Section Comp.
  Variable cstage : Type.
  Variable cstep : cstage -> bytes -> cstage * bytes.   (* compressor.compress(data) *)

  (* for i, compressor in enumerate(self.chain): data = compressor.compress(data)
     result: stages', final data, max over stages of len(input)+len(output) *)
  Fixpoint cchain (ss : list cstage) (data : bytes) : list cstage * bytes * Z :=
    match ss with
    | [] => ([], data, zlen data)
    | s :: ss' =>
      let '(s', out) := cstep s data in
      let '(ss'', d, pk) := cchain ss' out in
      (s' :: ss'', d, Z.max (zlen data + zlen out) pk)
    end.

  (* the while loop; result: stages, bytes written to fp, insize, peak of
     (input + output of one stage), and per iteration (len read, len written).
     crc, digest, packsize and _unpacksizes are not modelled. *)
  Fixpoint compress_loop (fuel : nat) (ss : list cstage) (fd : bytes) (bs : Z)
           (sched : list nat) : res (list cstage * bytes * Z * Z * list (Z * Z)) :=
    match fuel with
    | O => Err EFuel
    | S fuel' =>
      let '(data, rest) := fd_read fd bs (hd (length fd) sched) in
      if zlen data =? 0 then Ok (ss, [], 0, 0, [])
      else
        let '(ss', out, pk) := cchain ss data in
        do r <- compress_loop fuel' ss' rest bs (tl sched);
        let '(ss'', w, n, pk', log) := r in
        Ok (ss'', out ++ w, zlen data + n, Z.max pk pk', (zlen data, zlen out) :: log)
    end.
End Comp.

Arguments cchain {cstage}.
Arguments compress_loop {cstage}.

(* toy compressor: state = (k, pending); keeps the last k bytes back *)
Definition ctoy_state : Type := (Z * bytes)%type.
Definition ctoy_step (s : ctoy_state) (data : bytes) : ctoy_state * bytes :=
  let '(k, pend) := s in
  let avail := pend ++ data in
  let n := (length avail - Z.to_nat k)%nat in
  ((k, skipn n avail), firstn n avail).
Definition ctoy_held (s : ctoy_state) : Z := zlen (snd s).
Definition ctoy_good (K : Z) (s : ctoy_state) : Prop := 0 <= fst s <= K /\ zlen (snd s) <= fst s.

(* ---- driver entry points ---------------------------------------------- *)
Definition t_acct (x : bytes * list Z) : tree := TL [t_bytes (fst x); TL (map TI (snd x))].

(* args: [states; unpacksizes; input_size; block_size; packed; calls] *)
Definition mem_toy_trace_t (t : tree) : tree :=
  TL (map (t_res t_acct)
          (acct_trace mtoy_dstep mtoy_held
             (init_state (map t_toy_state (of_TL (tnth t 0))) (map of_TI (of_TL (tnth t 1)))
                         (of_TI (tnth t 2)) (of_TI (tnth t 3)) (of_bytes (tnth t 4)))
             (map t_call (of_TL (tnth t 5))))).

(* args: [fuel; states; unpacksizes; input_size; block_size; packed; size; mb; sched] *)
Definition mem_toy_worker_t (t : tree) : tree :=
  t_res (fun r : dstate toy_state * bytes * Z =>
           let '(st, out, pk) := r in TL [t_bytes out; TI pk; TI (zlen (buf st))])
        (worker_peak mtoy_dstep (Z.to_nat (of_TI (tnth t 0)))
           (init_state (map t_toy_state (of_TL (tnth t 1))) (map of_TI (of_TL (tnth t 2)))
                       (of_TI (tnth t 3)) (of_TI (tnth t 4)) (of_bytes (tnth t 5)))
           (of_TI (tnth t 6)) (of_TI (tnth t 7))
           (map (fun x => Z.to_nat (of_TI x)) (of_TL (tnth t 8)))).

(* args: [fuel; states (k pending); fd; block_size; sched] *)
Definition mem_ctoy_compress_t (t : tree) : tree :=
  t_res (fun r : list ctoy_state * bytes * Z * Z * list (Z * Z) =>
           let '(ss, w, n, pk, log) := r in
           TL [t_bytes w; TI n; TI pk; TL (map (fun p => TL [TI (fst p); TI (snd p)]) log);
               TL (map (fun s => t_bytes (snd s)) ss)])
        (compress_loop ctoy_step (Z.to_nat (of_TI (tnth t 0)))
           (map (fun x => (of_TI (tnth x 0), of_bytes (tnth x 1))) (of_TL (tnth t 1)))
           (of_bytes (tnth t 2)) (of_TI (tnth t 3))
           (map (fun x => Z.to_nat (of_TI x)) (of_TL (tnth t 4)))).

Definition mem_dispatch (fn : Z) (a : tree) : tree :=
  match fn with
  (* FN 340 mem_toy_trace : (states unpacksizes input_size block_size packed calls) -> list (res (out (len_out len_buf pos read len_tmp managed live chain_peak))) *)
  | 340 => mem_toy_trace_t a
  (* FN 341 mem_toy_worker : (fuel states unpacksizes input_size block_size packed size max_block sched) -> res (out peak len_buf) *)
  | 341 => mem_toy_worker_t a
  (* FN 342 mem_ctoy_compress : (fuel states fd block_size sched) -> res (written insize peak log pendings) *)
  | 342 => mem_ctoy_compress_t a
  (* FN 343 mem_exp_iter : (r c0 n x) -> int *)
  | 343 => TI (exp_iter (of_TI (tnth a 0)) (of_TI (tnth a 1)) (Z.to_nat (of_TI (tnth a 2))) (of_TI (tnth a 3)))
  | _ => TL [TI (-2)]
  end.

(* ===================================================================== *)
(*                              PART 2 : PROOFS                          *)
(* ===================================================================== *)

Lemma zlen_repeatZ (x : Z) (k : nat) : zlen (repeatZ x k) = Z.of_nat k.
Proof. unfold zlen. induction k as [|k IH]; simpl; [reflexivity|]. lia. Qed.

Lemma zlen_rep_each (k : nat) (l : bytes) : zlen (rep_each k l) = Z.of_nat k * zlen l.
Proof.
  induction l as [|x l IH]; simpl; [rewrite zlen_nil; lia|].
  rewrite zlen_app, zlen_repeatZ, IH. unfold zlen; simpl length. lia.
Qed.

Lemma zlen_firstn_le (n : nat) (l : bytes) : zlen (firstn n l) <= Z.of_nat n.
Proof. unfold zlen. rewrite firstn_length. lia. Qed.

Section AcctProofs.
  Variable stage_st : Type.
  Variable dstep : stage_st -> bytes -> Z -> stage_st * bytes.
  Variable held : stage_st -> Z.

  Local Notation dst := (dstate stage_st).

  (* Decomp.decompress_spec with the max_length of the chain call and the
     branch taken exposed *)
  Lemma decompress_spec_ml (st st' : dst) (ml : Z) (rd : nat) (out : bytes) :
    buf_inv st ->
    decompress dstep st ml rd = Ok (st', out) ->
    exists data tmp,
      buf_case dstep st st' ml data tmp /\
      consumed st' = consumed st + zlen data /\
      zlen data <= Z.max 0 (Z.min (input_size st - consumed st) (block_size st)) /\
      block_size st' = block_size st /\ input_size st' = input_size st /\
      buf_inv st' /\
      py_from (buf st) (pos st) ++ tmp = out ++ py_from (buf st') (pos st') /\
      (0 <= ml -> zlen out <= ml).
  Proof.
    intros (Hpos & Hun) H. unfold decompress in H.
    destruct (ml <? 0) eqn:Eneg.
    - apply Z.ltb_lt in Eneg.
      destruct (read_data st rd) as [st1 data] eqn:Hrd.
      apply read_data_spec in Hrd.
      destruct Hrd as (R1 & R2 & R3 & R4 & R5 & R6 & R7 & R8 & R9 & R10 & R11).
      destruct (run_chain dstep st1 (unused st1 ++ data) ml) as [[st2 tmp]|e] eqn:Hrc;
        simpl in H; [|discriminate].
      apply run_chain_spec in Hrc.
      destruct Hrc as (C1 & C2 & C3 & C4 & C5 & C6 & C7 & C8 & C9).
      injection H as <- <-. simpl.
      rewrite R6, Hun, app_nil_l in C1. rewrite R1, R2, R3 in C1.
      rewrite Hun, zlen_nil in R11.
      exists data, tmp. unfold buf_case, buf_inv. simpl.
      split; [right; left; repeat split; auto|].
      rewrite C3, R10, C5, R5, C4, R4, R7, R8, zlen_nil.
      repeat split; try reflexivity; try lia.
      rewrite py_from_0, app_nil_r. reflexivity.
    - apply Z.ltb_ge in Eneg.
      destruct (zlen (buf st) - pos st >=? ml) eqn:Ehave.
      + assert (Hge : ml <= zlen (buf st) - pos st) by (apply Z.geb_le in Ehave; lia).
        injection H as <- <-.
        exists [], []. unfold buf_case, buf_inv. simpl.
        rewrite zlen_nil, app_nil_r.
        split; [left; repeat split; auto; lia|].
        repeat split; try reflexivity; try lia; try assumption.
        * apply py_from_split; lia.
        * intros _. rewrite zlen_py_slice by lia. lia.
      + assert (Hlt : zlen (buf st) - pos st < ml).
        { destruct (Z.geb_spec (zlen (buf st) - pos st) ml); [discriminate|lia]. }
        destruct (read_data st rd) as [st1 data] eqn:Hrd.
        apply read_data_spec in Hrd.
        destruct Hrd as (R1 & R2 & R3 & R4 & R5 & R6 & R7 & R8 & R9 & R10 & R11).
        rewrite R6, Hun in H. change (zlen [] >? 0) with false in H. cbv iota in H.
        destruct (run_chain dstep st1 data ml) as [[st2 tmp]|e] eqn:Hrc;
          simpl in H; [|discriminate].
        apply run_chain_spec in Hrc.
        destruct Hrc as (C1 & C2 & C3 & C4 & C5 & C6 & C7 & C8 & C9).
        rewrite R1, R2, R3 in C1. rewrite Hun, zlen_nil in R11.
        assert (Hpf : zlen (py_from (buf st) (pos st)) = zlen (buf st) - pos st)
          by (apply zlen_py_from; lia).
        pose proof (zlen_nonneg tmp) as Htn.
        destruct (zlen (buf st) - pos st + zlen tmp <=? ml) eqn:Efit.
        * apply Z.leb_le in Efit. injection H as <- <-.
          exists data, tmp. unfold buf_case, buf_inv. simpl.
          split; [right; left; repeat split; auto|].
          rewrite C3, R10, C5, R5, C4, R4, C6, R6, C7, R7, C8, R8, zlen_nil.
          repeat split; try reflexivity; try lia; try assumption.
          -- rewrite py_from_0, app_nil_r. reflexivity.
          -- intros _. rewrite zlen_app, Hpf. lia.
        * apply Z.leb_gt in Efit. injection H as <- <-.
          exists data, tmp. unfold buf_case, buf_inv. simpl.
          assert (Hbl : zlen (py_from tmp (ml - (zlen (buf st) - pos st)))
                        = zlen (buf st) - pos st + zlen tmp - ml)
            by (rewrite zlen_py_from by lia; lia).
          split; [right; right; repeat split; auto; lia|].
          rewrite C3, R10, C5, R5, C4, R4, C6, R6, C7, R7, C8, R8.
          repeat split; try reflexivity; try lia; try assumption.
          -- rewrite py_from_0, <- app_assoc, py_to_from by lia. reflexivity.
          -- intros _. rewrite zlen_app, Hpf, zlen_py_to by lia. lia.
  Qed.

  (* tmp_len is the length of tmp *)
  Lemma tmp_len_eq (st st' : dst) (out tmp : bytes) :
    buf_inv st -> buf_inv st' ->
    py_from (buf st) (pos st) ++ tmp = out ++ py_from (buf st') (pos st') ->
    tmp_len st st' out = zlen tmp.
  Proof.
    intros (Hp & _) (Hp' & _) Hflow. unfold tmp_len.
    apply (f_equal zlen) in Hflow. rewrite !zlen_app, !zlen_py_from in Hflow by lia. lia.
  Qed.

  Lemma chain_run_nonnil (ss : list stage_st) up us data ml ss' up' out :
    chain_run dstep ss up us data ml = Ok (ss', up', out) -> ss <> [] -> ss' <> [].
  Proof.
    intros H Hne. apply chain_run_length in H. destruct H as (Hl & _).
    destruct ss' as [|a b]; [|discriminate]. destruct ss; [congruence|discriminate].
  Qed.

  (* whatever the decoders are: a call whose tmp fits into max_length leaves
     the carry-over buffer empty (this is what the harness checks on the real
     codecs call by call) *)
  Theorem clean_if_tmp_fits (st st' : dst) (ml : Z) (rd : nat) (out : bytes) :
    clean st -> 0 <= ml ->
    decompress dstep st ml rd = Ok (st', out) ->
    tmp_len st st' out <= ml -> clean st'.
  Proof.
    intros (Hb & Hp & Hu) Hml H Hfit.
    assert (Hinv : buf_inv st) by (unfold buf_inv; rewrite Hb, Hp, zlen_nil; split; [lia|exact Hu]).
    destruct (decompress_spec_ml st st' ml rd out Hinv H)
      as (data & tmp & Hcase & _ & _ & _ & _ & Hinv' & Hflow & _).
    rewrite (tmp_len_eq st st' out tmp Hinv Hinv' Hflow) in Hfit.
    destruct Hinv' as (_ & Hu').
    unfold buf_case in Hcase. cbv zeta in Hcase. rewrite Hb, Hp, zlen_nil in Hcase.
    destruct Hcase as [(Hr & Hb' & Hp' & _)|[(_ & Hb' & Hp' & _)|(Hr1 & Hr2 & _)]].
    - unfold clean. rewrite Hb', Hp'. repeat split; [lia|exact Hu'].
    - unfold clean. repeat split; assumption.
    - lia.
  Qed.

  (* ==== 1. every stage honours max_length ============================== *)
  Section Honour.
    (* [honest s]: the decoder in state s honours max_length (lzma, bz2, PPMd);
       only the LAST stage of the chain has to be honest *)
    Variable honest : stage_st -> Prop.
    Hypothesis honest_step : forall s c ml, honest s -> honest (fst (dstep s c ml)).
    Hypothesis honours_max : forall s c ml,
        honest s -> 0 <= ml -> zlen (snd (dstep s c ml)) <= ml.

    Lemma chain_run_out_le (ss : list stage_st) :
      last_ok honest ss ->
      forall up us data ml ss' up' out,
        0 <= ml ->
        chain_run dstep ss up us data ml = Ok (ss', up', out) ->
        zlen out <= ml /\ last_ok honest ss'.
    Proof.
      induction ss as [|s ss IH]; intros Hok up us data ml ss' up' out Hml H; [destruct Hok|].
      simpl in H.
      destruct up as [|u up]; [discriminate|]. destruct us as [|z us]; [discriminate|].
      destruct (u <? z).
      - pose proof (honours_max s data ml) as Hh. pose proof (honest_step s data ml) as Hs.
        destruct (dstep s data ml) as [s1 o]. simpl in Hh, Hs.
        destruct (stop_here ss data (trim_out ss o (z - u))) eqn:Est.
        { apply stop_here_true in Est. destruct Est as (_ & _ & Hne). injection H as <- _ <-. rewrite zlen_nil.
          destruct ss as [|s2 ss]; [congruence|]. split; [lia|exact Hok]. }
        destruct (chain_run dstep ss up us (trim_out ss o (z - u)) ml) as [[[ss2 up2] d]|e] eqn:E;
          simpl in H; [|discriminate].
        injection H as <- _ <-.
        destruct ss as [|s2 ss].
        + simpl in E. injection E as <- _ <-. simpl in Hok. simpl. split; [apply Hh; assumption|apply Hs; exact Hok].
        + destruct (IH Hok _ _ _ _ _ _ _ Hml E) as (Hle & Hok2).
          split; [exact Hle|].
          pose proof (chain_run_length _ dstep _ _ _ _ _ _ _ _ E) as (Hl & _).
          destruct ss2 as [|a b]; [discriminate|]. exact Hok2.
      - destruct (zlen data =? 0); [|discriminate].
        destruct (chain_run dstep ss up us [] ml) as [[[ss2 up2] d]|e] eqn:E;
          simpl in H; [|discriminate].
        injection H as <- _ <-.
        destruct ss as [|s2 ss].
        + simpl in E. injection E as <- _ <-. rewrite zlen_nil. split; [exact Hml|exact Hok].
        + destruct (IH Hok _ _ _ _ _ _ _ Hml E) as (Hle & Hok2).
          split; [exact Hle|].
          pose proof (chain_run_length _ dstep _ _ _ _ _ _ _ _ E) as (Hl & _).
          destruct ss2 as [|a b]; [discriminate|]. exact Hok2.
    Qed.

    (* calls with max_length < 0 keep the last stage honest too *)
    Lemma chain_run_last_ok (ss : list stage_st) :
      last_ok honest ss ->
      forall up us data ml ss' up' out,
        chain_run dstep ss up us data ml = Ok (ss', up', out) -> last_ok honest ss'.
    Proof.
      induction ss as [|s ss IH]; intros Hok up us data ml ss' up' out H; [destruct Hok|].
      simpl in H.
      destruct up as [|u up]; [discriminate|]. destruct us as [|z us]; [discriminate|].
      destruct (u <? z).
      - pose proof (honest_step s data ml) as Hs.
        destruct (dstep s data ml) as [s1 o]. simpl in Hs.
        destruct (stop_here ss data (trim_out ss o (z - u))) eqn:Est.
        { apply stop_here_true in Est. destruct Est as (_ & _ & Hne). injection H as <- _ _.
          destruct ss as [|s2 ss]; [congruence|]. exact Hok. }
        destruct (chain_run dstep ss up us (trim_out ss o (z - u)) ml) as [[[ss2 up2] d]|e] eqn:E;
          simpl in H; [|discriminate].
        injection H as <- _ _.
        destruct ss as [|s2 ss].
        + simpl in E. injection E as <- _ _. simpl. apply Hs; exact Hok.
        + pose proof (IH Hok _ _ _ _ _ _ _ E) as Hok2.
          pose proof (chain_run_length _ dstep _ _ _ _ _ _ _ _ E) as (Hl & _).
          destruct ss2 as [|a b]; [discriminate|]. exact Hok2.
      - destruct (zlen data =? 0); [|discriminate].
        destruct (chain_run dstep ss up us [] ml) as [[[ss2 up2] d]|e] eqn:E;
          simpl in H; [|discriminate].
        injection H as <- _ _.
        destruct ss as [|s2 ss].
        + simpl in E. injection E as <- _ _. exact Hok.
        + pose proof (IH Hok _ _ _ _ _ _ _ E) as Hok2.
          pose proof (chain_run_length _ dstep _ _ _ _ _ _ _ _ E) as (Hl & _).
          destruct ss2 as [|a b]; [discriminate|]. exact Hok2.
    Qed.

    (* with a non-empty carry-over buffer: it never grows, the chunk and tmp
       are bounded by max_length *)
    Theorem carry_never_grows (st st' : dst) (ml : Z) (rd : nat) (out : bytes) :
      buf_inv st -> last_ok honest (stages st) -> 0 <= ml ->
      decompress dstep st ml rd = Ok (st', out) ->
      buf_inv st' /\ last_ok honest (stages st') /\
      zlen out <= ml /\ tmp_len st st' out <= ml /\
      zlen (buf st') <= zlen (buf st) /\
      read_len st st' <= Z.max 0 (block_size st) /\ block_size st' = block_size st.
    Proof.
      intros Hinv Hne Hml H.
      destruct (decompress_spec_ml st st' ml rd out Hinv H)
        as (data & tmp & Hcase & Hcons & Hdl & Hbs & His & Hinv' & Hflow & Hlen).
      rewrite (tmp_len_eq st st' out tmp Hinv Hinv' Hflow).
      unfold read_len. pose proof (zlen_nonneg (buf st)) as Hb0.
      destruct Hcase as [(Hr & Hb & Hp & Hd & Ht & Hs)|[(Hr & Hb & Hp & Hc)|(Hr1 & Hr2 & Hp & Hb & Hc)]].
      - subst tmp. rewrite Hb, Hs, zlen_nil.
        split; [exact Hinv'|]. split; [exact Hne|]. split; [apply Hlen; exact Hml|].
        repeat split; lia.
      - destruct (chain_run_out_le _ Hne _ _ _ _ _ _ _ Hml Hc) as (Ht & Hok').
        rewrite Hb, zlen_nil.
        split; [exact Hinv'|]. split; [exact Hok'|].
        split; [apply Hlen; exact Hml|]. repeat split; lia.
      - destruct (chain_run_out_le _ Hne _ _ _ _ _ _ _ Hml Hc) as (Ht & Hok').
        destruct Hinv as (Hpos & _).
        split; [exact Hinv'|]. split; [exact Hok'|].
        split; [apply Hlen; exact Hml|]. repeat split; lia.
    Qed.

    (* LIVE BYTES, one call from a state whose carry-over buffer is empty
       (every state reachable from __init__, see clean_reachable):
       at most 2*max_length + block_size bytes are managed by py7zr, whatever
       the member size *)
    Theorem live_bytes_bounded (st st' : dst) (ml : Z) (rd : nat) (out : bytes) :
      clean st -> last_ok honest (stages st) -> 0 <= ml ->
      decompress dstep st ml rd = Ok (st', out) ->
      clean st' /\ last_ok honest (stages st') /\
      zlen out <= ml /\ zlen (buf st') <= ml /\
      managed st st' out <= 2 * ml + Z.max 0 (block_size st) /\
      live held st st' out <= 2 * ml + Z.max 0 (block_size st) + sum_held held (stages st') /\
      block_size st' = block_size st.
    Proof.
      intros (Hb & Hp & Hu) Hne Hml H.
      assert (Hinv : buf_inv st) by (unfold buf_inv; rewrite Hb, Hp, zlen_nil; split; [lia|exact Hu]).
      destruct (carry_never_grows st st' ml rd out Hinv Hne Hml H)
        as ((Hp' & Hu') & Hne' & Hout & Htmp & Hbuf & Hrd & Hbs).
      rewrite Hb, zlen_nil in Hbuf. pose proof (zlen_nonneg (buf st')) as Hb0.
      assert (Hb' : buf st' = []) by (apply zlen_le0_nil; lia).
      assert (Hcl : clean st').
      { unfold clean. rewrite Hb' in Hp'. rewrite zlen_nil in Hp'.
        split; [exact Hb'|]. split; [lia|exact Hu']. }
      assert (Hm : managed st st' out <= 2 * ml + Z.max 0 (block_size st)).
      { unfold managed. rewrite Hb, Hb', zlen_nil. lia. }
      split; [exact Hcl|]. split; [exact Hne'|]. split; [exact Hout|].
      split; [rewrite Hb', zlen_nil; exact Hml|]. split; [exact Hm|].
      split; [unfold live; lia|exact Hbs].
    Qed.

    (* calls with max_length < 0 ("everything of this block") also leave the
       buffer empty, so [clean] is an invariant of every call sequence *)
    Lemma clean_step (st st' : dst) (ml : Z) (rd : nat) (out : bytes) :
      clean st -> last_ok honest (stages st) ->
      decompress dstep st ml rd = Ok (st', out) -> clean st' /\ last_ok honest (stages st').
    Proof.
      intros Hc Hne H. destruct (Z.ltb_spec ml 0) as [Hneg|Hge].
      - destruct Hc as (Hb & Hp & Hu).
        assert (Hinv : buf_inv st) by (unfold buf_inv; rewrite Hb, Hp, zlen_nil; split; [lia|exact Hu]).
        destruct (decompress_spec_ml st st' ml rd out Hinv H)
          as (data & tmp & Hcase & _ & _ & _ & _ & (_ & Hu') & _ & _).
        destruct Hcase as [(Hr & _)|[(_ & Hb' & Hp' & Hcr)|(Hr & _)]]; try lia.
        split; [repeat split; assumption|]. eapply chain_run_last_ok; eassumption.
      - destruct (live_bytes_bounded st st' ml rd out Hc Hne Hge H) as (Hc' & Hne' & _).
        split; assumption.
    Qed.

    Theorem clean_reachable (calls : list (Z * nat)) :
      forall (st st' : dst) (outs : bytes),
        fresh st -> last_ok honest (stages st) ->
        decompress_seq dstep st calls = Ok (st', outs) -> clean st' /\ last_ok honest (stages st').
    Proof.
      assert (G : forall (st st' : dst) (outs : bytes),
                 clean st -> last_ok honest (stages st) ->
                 decompress_seq dstep st calls = Ok (st', outs) -> clean st' /\ last_ok honest (stages st')).
      { induction calls as [|[ml rd] calls IH]; intros st st' outs Hc Hne H; simpl in H.
        - injection H as <- _. split; assumption.
        - destruct (decompress dstep st ml rd) as [[st1 o]|e] eqn:Hd; simpl in H; [|discriminate].
          destruct (decompress_seq dstep st1 calls) as [[st2 os]|e] eqn:Hs; simpl in H; [|discriminate].
          injection H as <- _.
          destruct (clean_step st st1 ml rd o Hc Hne Hd) as (Hc1 & Hne1).
          eapply IH; eassumption. }
      intros st st' outs (_ & Hu & Hb & Hp) Hne H.
      eapply G; [|exact Hne|exact H]. repeat split; assumption.
    Qed.

    (* the caller loop Worker.decompress: ml = min(remaining, max_block) *)
    Theorem worker_live_bounded (fuel : nat) :
      forall (st st' : dst) (size mb : Z) (sched : list nat) (out : bytes) (pk : Z),
        clean st -> last_ok honest (stages st) -> 0 <= mb ->
        worker_peak dstep fuel st size mb sched = Ok (st', out, pk) ->
        pk <= 2 * mb + Z.max 0 (block_size st) /\ clean st' /\ block_size st' = block_size st.
    Proof.
      induction fuel as [|fuel IH]; intros st st' size mb sched out pk Hc Hne Hmb H;
        simpl in H; destruct (size >? 0) eqn:Es;
        try discriminate;
        try (injection H as <- _ <-; split; [lia|split; [exact Hc|reflexivity]]).
      apply Z.gtb_lt in Es.
      destruct (decompress dstep st (Z.min size mb) (sched_hd st sched)) as [[st1 tmp]|e] eqn:Hd;
        simpl in H; [|discriminate].
      assert (Hml : 0 <= Z.min size mb) by lia.
      destruct (live_bytes_bounded st st1 _ _ tmp Hc Hne Hml Hd)
        as (Hc1 & Hne1 & _ & _ & Hm & _ & Hbs).
      destruct ((if zlen tmp >? 0 then size - zlen tmp else size) <=? 0).
      - injection H as <- _ <-. split; [lia|split; assumption].
      - destruct (worker_peak dstep fuel st1 _ mb (tl sched)) as [[[st2 o2] pk2]|e] eqn:Hw;
          simpl in H; [|discriminate].
        injection H as <- _ <-.
        destruct (IH _ _ _ _ _ _ _ Hc1 Hne1 Hmb Hw) as (Hpk & Hc2 & Hbs2).
        rewrite Hbs in Hpk. split; [lia|]. split; [exact Hc2|congruence].
    Qed.
  End Honour.

  (* ==== 1b. the last stage honours max_length up to c bytes ============== *)
  (* (brotli's output_buffer_limit stops at the end of an internal output block).  Every decoder is of this kind
     for SOME c -- its largest overshoot -- so this is also the bound the harness checks on all real chains. *)
  Section Slack.
    Variable nearly : stage_st -> Prop.
    Variable c : Z.
    Hypothesis c_nonneg : 0 <= c.
    Hypothesis nearly_step : forall s d ml, nearly s -> nearly (fst (dstep s d ml)).
    Hypothesis honours_slack : forall s d ml,
        nearly s -> 0 <= ml -> zlen (snd (dstep s d ml)) <= ml + c.

    Lemma chain_run_out_le_slack (ss : list stage_st) :
      last_ok nearly ss ->
      forall up us data ml ss' up' out,
        0 <= ml ->
        chain_run dstep ss up us data ml = Ok (ss', up', out) ->
        zlen out <= ml + c /\ last_ok nearly ss'.
    Proof.
      induction ss as [|s ss IH]; intros Hok up us data ml ss' up' out Hml H; [destruct Hok|].
      simpl in H.
      destruct up as [|u up]; [discriminate|]. destruct us as [|z us]; [discriminate|].
      destruct (u <? z).
      - pose proof (honours_slack s data ml) as Hh. pose proof (nearly_step s data ml) as Hs.
        destruct (dstep s data ml) as [s1 o]. simpl in Hh, Hs.
        destruct (stop_here ss data (trim_out ss o (z - u))) eqn:Est.
        { apply stop_here_true in Est. destruct Est as (_ & _ & Hne). injection H as <- _ <-. rewrite zlen_nil.
          destruct ss as [|s2 ss]; [congruence|]. split; [lia|exact Hok]. }
        destruct (chain_run dstep ss up us (trim_out ss o (z - u)) ml) as [[[ss2 up2] d]|e] eqn:E;
          simpl in H; [|discriminate].
        injection H as <- _ <-.
        destruct ss as [|s2 ss].
        + simpl in E. injection E as <- _ <-. simpl in Hok. simpl.
          split; [apply Hh; assumption|apply Hs; exact Hok].
        + destruct (IH Hok _ _ _ _ _ _ _ Hml E) as (Hle & Hok2).
          split; [exact Hle|].
          pose proof (chain_run_length _ dstep _ _ _ _ _ _ _ _ E) as (Hl & _).
          destruct ss2 as [|a b]; [discriminate|]. exact Hok2.
      - destruct (zlen data =? 0); [|discriminate].
        destruct (chain_run dstep ss up us [] ml) as [[[ss2 up2] d]|e] eqn:E;
          simpl in H; [|discriminate].
        injection H as <- _ <-.
        destruct ss as [|s2 ss].
        + simpl in E. injection E as <- _ <-. rewrite zlen_nil. split; [lia|exact Hok].
        + destruct (IH Hok _ _ _ _ _ _ _ Hml E) as (Hle & Hok2).
          split; [exact Hle|].
          pose proof (chain_run_length _ dstep _ _ _ _ _ _ _ _ E) as (Hl & _).
          destruct ss2 as [|a b]; [discriminate|]. exact Hok2.
    Qed.

    (* with every max_length of the caller at most M: _buf never exceeds M + c and the bytes managed during a
       call stay within 4*M + 3*c + block_size, whatever the member size and the expansion ratio *)
    Theorem live_bytes_bounded_slack (M : Z) (st st' : dst) (ml : Z) (rd : nat) (out : bytes) :
      buf_inv st -> last_ok nearly (stages st) -> 0 <= ml <= M ->
      zlen (buf st) <= M + c ->
      decompress dstep st ml rd = Ok (st', out) ->
      buf_inv st' /\ last_ok nearly (stages st') /\
      zlen out <= ml /\ tmp_len st st' out <= ml + c /\
      zlen (buf st') <= M + c /\
      managed st st' out <= 4 * M + 3 * c + Z.max 0 (block_size st) /\
      block_size st' = block_size st.
    Proof.
      intros Hinv Hne (Hml & HmlM) HbM H.
      destruct (decompress_spec_ml st st' ml rd out Hinv H)
        as (data & tmp & Hcase & Hcons & Hdl & Hbs & His & Hinv' & Hflow & Hlen).
      specialize (Hlen Hml).
      assert (Hrd : read_len st st' <= Z.max 0 (block_size st)) by (unfold read_len; lia).
      unfold managed. rewrite (tmp_len_eq st st' out tmp Hinv Hinv' Hflow).
      pose proof (zlen_nonneg (buf st)) as Hb0. pose proof (zlen_nonneg tmp) as Ht0.
      destruct Hinv as (Hpos & _).
      unfold buf_case in Hcase. cbv zeta in Hcase.
      destruct Hcase as [(Hr & Hb & Hp & Hd & Ht & Hs)|[(Hr & Hb & Hp & Hc)|(Hr1 & Hr2 & Hp & Hb & Hc)]].
      - subst tmp. rewrite Hb, Hs, zlen_nil.
        split; [exact Hinv'|]. split; [exact Hne|]. repeat split; lia.
      - destruct (chain_run_out_le_slack _ Hne _ _ _ _ _ _ _ Hml Hc) as (Ht & Hok').
        rewrite Hb, zlen_nil.
        split; [exact Hinv'|]. split; [exact Hok'|]. repeat split; lia.
      - destruct (chain_run_out_le_slack _ Hne _ _ _ _ _ _ _ Hml Hc) as (Ht & Hok').
        split; [exact Hinv'|]. split; [exact Hok'|]. repeat split; lia.
    Qed.

    (* Worker.decompress: every max_length is min(remaining, max_block) <= max_block *)
    Theorem worker_live_bounded_slack (fuel : nat) :
      forall (st st' : dst) (size mb : Z) (sched : list nat) (out : bytes) (pk : Z),
        buf_inv st -> last_ok nearly (stages st) -> 0 <= mb -> zlen (buf st) <= mb + c ->
        worker_peak dstep fuel st size mb sched = Ok (st', out, pk) ->
        pk <= 4 * mb + 3 * c + Z.max 0 (block_size st) /\ zlen (buf st') <= mb + c /\
        block_size st' = block_size st.
    Proof.
      induction fuel as [|fuel IH]; intros st st' size mb sched out pk Hinv Hne Hmb HbM H;
        simpl in H; destruct (size >? 0) eqn:Es;
        try discriminate;
        try (injection H as <- _ <-; split; [lia|split; [exact HbM|reflexivity]]).
      apply Z.gtb_lt in Es.
      destruct (decompress dstep st (Z.min size mb) (sched_hd st sched)) as [[st1 tmp]|e] eqn:Hd;
        simpl in H; [|discriminate].
      assert (Hml : 0 <= Z.min size mb <= mb) by lia.
      destruct (live_bytes_bounded_slack mb st st1 _ _ tmp Hinv Hne Hml HbM Hd)
        as (Hinv1 & Hne1 & _ & _ & Hb1 & Hm & Hbs).
      destruct ((if zlen tmp >? 0 then size - zlen tmp else size) <=? 0).
      - injection H as <- _ <-. split; [lia|split; assumption].
      - destruct (worker_peak dstep fuel st1 _ mb (tl sched)) as [[[st2 o2] pk2]|e] eqn:Hw;
          simpl in H; [|discriminate].
        injection H as <- _ <-.
        destruct (IH _ _ _ _ _ _ _ Hinv1 Hne1 Hmb Hb1 Hw) as (Hpk & Hb2 & Hbs2).
        rewrite Hbs in Hpk. split; [lia|]. split; [exact Hb2|congruence].
    Qed.
  End Slack.

  (* worker_peak is Worker.decompress (Decomp.worker_decompress) plus a counter *)
  Lemma worker_peak_erase (fuel : nat) :
    forall (st : dst) (size mb : Z) (sched : list nat),
      worker_decompress dstep fuel st size mb sched =
      match worker_peak dstep fuel st size mb sched with
      | Ok (st', out, _) => Ok (st', out) | Err e => Err e end.
  Proof.
    induction fuel as [|fuel IH]; intros st size mb sched; simpl;
      destruct (size >? 0); try reflexivity.
    destruct (decompress dstep st (Z.min size mb) (sched_hd st sched)) as [[st1 tmp]|e];
      simpl; [|reflexivity].
    destruct ((if zlen tmp >? 0 then size - zlen tmp else size) <=? 0); [reflexivity|].
    rewrite IH.
    destruct (worker_peak dstep fuel st1 _ mb (tl sched)) as [[[st2 o2] pk2]|e]; reflexivity.
  Qed.

  (* ==== 2. stages that ignore max_length: bounded by block x expansion === *)
  Section Expansion.
    (* [tame s]: whatever max_length is, one call returns at most r*len(input)+c0
       bytes (Copy, BCJ, AES: r = 1; Deflate: r ~ 1030; Zstd, Brotli: far more) *)
    Variable tame : stage_st -> Prop.
    Variables r c0 : Z.
    Hypothesis r_ge1 : 1 <= r.
    Hypothesis c0_nonneg : 0 <= c0.
    Hypothesis tame_step : forall s c ml, tame s -> tame (fst (dstep s c ml)).
    Hypothesis expansion : forall s c ml,
        tame s -> zlen (snd (dstep s c ml)) <= r * zlen c + c0.

    Local Notation E := (exp_iter r c0).

    Lemma exp_iter_mono (n : nat) : forall x y, x <= y -> E n x <= E n y.
    Proof. induction n as [|n IH]; intros x y Hxy; simpl; [exact Hxy|]. apply IH. nia. Qed.

    Lemma exp_iter_ge (n : nat) : forall x, 0 <= x -> x <= E n x.
    Proof.
      induction n as [|n IH]; intros x Hx; simpl; [lia|].
      assert (H1 : x <= r * x + c0) by nia.
      pose proof (IH (r * x + c0) ltac:(lia)). lia.
    Qed.

    Lemma chain_run_exp (ss : list stage_st) :
      Forall tame ss ->
      forall up us data ml ss' up' out,
        chain_run dstep ss up us data ml = Ok (ss', up', out) ->
        zlen out <= E (length ss) (zlen data) /\ Forall tame ss' /\
        chain_peak dstep ss up us data ml <= 2 * E (length ss) (zlen data).
    Proof.
      induction ss as [|s ss IH]; intros Ht up us data ml ss' up' out H; simpl in H.
      - injection H as <- _ <-. cbn [length exp_iter chain_peak]. pose proof (zlen_nonneg data).
        split; [lia|]. split; [apply Forall_nil|lia].
      - destruct up as [|u up]; [discriminate|]. destruct us as [|z us]; [discriminate|].
        inversion Ht as [|? ? Hts Htss]; subst. cbn [length exp_iter chain_peak].
        pose proof (zlen_nonneg data) as Hd0.
        destruct (u <? z) eqn:Eg.
        + apply Z.ltb_lt in Eg.
          pose proof (expansion s data ml Hts) as Hx. pose proof (tame_step s data ml Hts) as Hs1.
          destruct (dstep s data ml) as [s1 o0]. simpl in Hx, Hs1.
          pose proof (trim_out_le ss o0 (z - u) ltac:(lia)) as Htr.
          set (o := trim_out ss o0 (z - u)) in *.
          pose proof (exp_iter_ge (length ss) (r * zlen data + c0) ltac:(nia)) as Hg0.
          pose proof (zlen_nonneg o0) as Ho000.
          destruct (stop_here ss data o) eqn:Est.
          { injection H as <- _ <-. rewrite zlen_nil.
            split; [nia|]. split; [apply Forall_cons; assumption|nia]. }
          destruct (chain_run dstep ss up us o ml) as [[[ss2 up2] d]|e] eqn:Ec;
            simpl in H; [|discriminate].
          injection H as <- _ <-.
          destruct (IH Htss _ _ _ _ _ _ _ Ec) as (Hle & Ht2 & Hpk).
          assert (Hx' : zlen o <= r * zlen data + c0) by lia.
          pose proof (exp_iter_mono (length ss) _ _ Hx') as Hm.
          pose proof (zlen_nonneg o) as Ho0. pose proof (zlen_nonneg o0) as Ho00.
          pose proof (exp_iter_ge (length ss) (r * zlen data + c0) ltac:(nia)) as Hg.
          split; [lia|]. split; [apply Forall_cons; assumption|]. nia.
        + destruct (zlen data =? 0) eqn:Ez; [|discriminate].
          apply Z.eqb_eq in Ez.
          destruct (chain_run dstep ss up us [] ml) as [[[ss2 up2] d]|e] eqn:Ec;
            simpl in H; [|discriminate].
          injection H as <- _ <-.
          destruct (IH Htss _ _ _ _ _ _ _ Ec) as (Hle & Ht2 & Hpk).
          rewrite zlen_nil in Hle, Hpk.
          pose proof (exp_iter_mono (length ss) 0 (r * zlen data + c0) ltac:(nia)) as Hm.
          split; [lia|]. split; [apply Forall_cons; assumption|lia].
    Qed.

    (* CARRY-OVER BUFFER, any chain: after a call _buf holds at most what one
       input block expands to -- block_size x ratio, not the declared output *)
    Theorem carry_bounded_general (st st' : dst) (ml : Z) (rd : nat) (out : bytes) :
      buf_inv st -> Forall tame (stages st) ->
      decompress dstep st ml rd = Ok (st', out) ->
      let B := E (length (stages st)) (Z.max 0 (block_size st)) in
      zlen (buf st') <= Z.max (zlen (buf st)) B /\
      tmp_len st st' out <= B /\
      buf_inv st' /\ Forall tame (stages st') /\
      length (stages st') = length (stages st) /\ block_size st' = block_size st /\
      read_len st st' <= Z.max 0 (block_size st) /\
      (0 <= ml -> zlen out <= ml).
    Proof.
      intros Hinv Ht H B.
      destruct (decompress_spec_ml st st' ml rd out Hinv H)
        as (data & tmp & Hcase & Hcons & Hdl & Hbs & His & Hinv' & Hflow & Hlen).
      rewrite (tmp_len_eq st st' out tmp Hinv Hinv' Hflow).
      unfold read_len. pose proof (zlen_nonneg (buf st)) as Hb0.
      assert (HB0 : 0 <= B) by (pose proof (exp_iter_ge (length (stages st)) (Z.max 0 (block_size st))); lia).
      assert (Hrun : forall ml', chain_run dstep (stages st) (unpacked st) (unpacksizes st) data ml'
                         = Ok (stages st', unpacked st', tmp) ->
                     zlen tmp <= B /\ Forall tame (stages st') /\
                     length (stages st') = length (stages st)).
      { intros ml' Hc. destruct (chain_run_exp _ Ht _ _ _ _ _ _ _ Hc) as (Hle & Ht' & _).
        pose proof (chain_run_length _ dstep _ _ _ _ _ _ _ _ Hc) as (Hl & _).
        split; [|split; assumption].
        eapply Z.le_trans; [exact Hle|]. apply exp_iter_mono. lia. }
      destruct Hcase as [(Hr & Hb & Hp & Hd & Htm & Hs)|[(Hr & Hb & Hp & Hc)|(Hr1 & Hr2 & Hp & Hb & Hc)]].
      - subst tmp. rewrite Hb, Hs, zlen_nil. repeat split; try assumption; try lia; apply Hinv'.
      - destruct (Hrun _ Hc) as (Htl & Ht' & Hl). rewrite Hb, zlen_nil.
        repeat split; try assumption; try lia; apply Hinv'.
      - destruct (Hrun _ Hc) as (Htl & Ht' & Hl).
        repeat split; try assumption; try lia; apply Hinv'.
    Qed.

    (* the bytes py7zr manages during one call, any chain *)
    Theorem live_bounded_general (st st' : dst) (ml : Z) (rd : nat) (out : bytes) :
      buf_inv st -> Forall tame (stages st) -> 0 <= ml ->
      decompress dstep st ml rd = Ok (st', out) ->
      let B := E (length (stages st)) (Z.max 0 (block_size st)) in
      zlen (buf st) <= B ->
      managed st st' out <= 3 * B + ml + Z.max 0 (block_size st) /\
      call_chain_peak dstep st st' ml <= 2 * B /\ zlen (buf st') <= B.
    Proof.
      intros Hinv Ht Hml H B HbB.
      destruct (carry_bounded_general st st' ml rd out Hinv Ht H)
        as (Hb' & Htmp & _ & _ & _ & _ & Hrd & Hout).
      fold B in Hb', Htmp. specialize (Hout Hml).
      split; [unfold managed; lia|]. split; [|lia].
      assert (HB0 : 0 <= B) by (pose proof (exp_iter_ge (length (stages st)) (Z.max 0 (block_size st))); lia).
      unfold call_chain_peak.
      destruct ((0 <=? ml) && (zlen (buf st) - pos st >=? ml)) eqn:Eb; [lia|].
      destruct (decompress_spec_ml st st' ml rd out Hinv H)
        as (data & tmp & Hcase & Hcons & Hdl & _ & _ & _ & _ & _).
      assert (Hrl : read_len st st' = zlen data) by (unfold read_len; lia).
      pose proof (zlen_nonneg data) as Hd0.
      set (d := firstn (Z.to_nat (read_len st st')) (fp_rest st)).
      assert (Hd : zlen d <= zlen data).
      { unfold d. rewrite Hrl. eapply Z.le_trans; [apply zlen_firstn_le|]. lia. }
      pose proof (zlen_nonneg d) as Hdd.
      (* the bound on chain_peak holds for any input of that size *)
      assert (G : forall ss, Forall tame ss -> forall up us x ml',
                   chain_peak dstep ss up us x ml' <= 2 * E (length ss) (zlen x)).
      { induction ss as [|s ss IH]; intros Hts up us x ml'; cbn [length exp_iter chain_peak].
        - pose proof (zlen_nonneg x). lia.
        - inversion Hts as [|? ? Hs Hss]; subst.
          pose proof (zlen_nonneg x) as Hx0.
          pose proof (exp_iter_ge (length ss) (r * zlen x + c0) ltac:(nia)) as Hg.
          destruct up as [|u up]; [lia|]. destruct us as [|z us]; [lia|].
          destruct (u <? z) eqn:Eg.
          + apply Z.ltb_lt in Eg. pose proof (expansion s x ml' Hs) as Hx.
            destruct (dstep s x ml') as [s1 o]. simpl in Hx.
            pose proof (trim_out_le ss o (z - u) ltac:(lia)) as Htr.
            pose proof (IH Hss up us (trim_out ss o (z - u)) ml') as Hi.
            assert (Hx' : zlen (trim_out ss o (z - u)) <= r * zlen x + c0) by lia.
            pose proof (exp_iter_mono (length ss) _ _ Hx'). pose proof (zlen_nonneg o).
            pose proof (zlen_nonneg (trim_out ss o (z - u))).
            destruct (stop_here ss x (trim_out ss o (z - u))); nia.
          + destruct (zlen x =? 0); [|lia].
            pose proof (IH Hss up us [] ml') as Hi. rewrite zlen_nil in Hi.
            pose proof (exp_iter_mono (length ss) 0 (r * zlen x + c0) ltac:(nia)). lia. }
      eapply Z.le_trans; [apply G; exact Ht|].
      assert (E (length (stages st)) (zlen d) <= B) by (apply exp_iter_mono; lia). lia.
    Qed.

    (* ... and along every call sequence from a fresh decompressor *)
    Theorem carry_bounded_seq (calls : list (Z * nat)) :
      forall (st st' : dst) (outs : bytes),
        fresh st -> Forall tame (stages st) ->
        decompress_seq dstep st calls = Ok (st', outs) ->
        zlen (buf st') <= E (length (stages st)) (Z.max 0 (block_size st)).
    Proof.
      assert (G : forall (st st' : dst) (outs : bytes) n bs,
                 buf_inv st -> Forall tame (stages st) ->
                 length (stages st) = n -> block_size st = bs ->
                 zlen (buf st) <= E n (Z.max 0 bs) ->
                 decompress_seq dstep st calls = Ok (st', outs) ->
                 zlen (buf st') <= E n (Z.max 0 bs)).
      { induction calls as [|[ml rd] calls IH]; intros st st' outs n bs Hinv Ht Hn Hbs Hb H; simpl in H.
        - injection H as <- _. exact Hb.
        - destruct (decompress dstep st ml rd) as [[st1 o]|e] eqn:Hd; simpl in H; [|discriminate].
          destruct (decompress_seq dstep st1 calls) as [[st2 os]|e] eqn:Hs; simpl in H; [|discriminate].
          injection H as <- _.
          destruct (carry_bounded_general st st1 ml rd o Hinv Ht Hd)
            as (Hb1 & _ & Hinv1 & Ht1 & Hl1 & Hbs1 & _ & _).
          rewrite Hn, Hbs in Hb1.
          eapply (IH st1 st2 os n bs); try eassumption; try lia. }
      intros st st' outs (_ & Hu & Hb & Hp) Ht H.
      eapply G; try eassumption; try reflexivity.
      - unfold buf_inv. rewrite Hb, Hp, zlen_nil. split; [lia|exact Hu].
      - rewrite Hb, zlen_nil.
        pose proof (exp_iter_ge (length (stages st)) (Z.max 0 (block_size st))). lia.
    Qed.

    (* a single coder: r * block_size + c0 *)
    Corollary carry_bounded_single (st st' : dst) (calls : list (Z * nat)) (outs : bytes) :
      fresh st -> Forall tame (stages st) -> length (stages st) = 1%nat ->
      decompress_seq dstep st calls = Ok (st', outs) ->
      zlen (buf st') <= r * Z.max 0 (block_size st) + c0.
    Proof.
      intros Hf Ht Hl H. pose proof (carry_bounded_seq calls st st' outs Hf Ht H) as Hb.
      rewrite Hl in Hb. exact Hb.
    Qed.
  End Expansion.

  (* ==== 3. memory inside the first decoder: at most what it was fed ====== *)
  Section Held.
    (* a decoder retains at most the input it was given (lzma/bz2 keep the
       unconsumed part of every block when max_length stops them early) *)
    Hypothesis held_step : forall s c ml, held (fst (dstep s c ml)) <= held s + zlen c.

    Lemma chain_run_head (s : stage_st) (ss : list stage_st) up us data ml ss' up' out :
      chain_run dstep (s :: ss) up us data ml = Ok (ss', up', out) ->
      exists s' t', ss' = s' :: t' /\ held s' <= held s + zlen data.
    Proof.
      simpl. intros H.
      destruct up as [|u up]; [discriminate|]. destruct us as [|z us]; [discriminate|].
      pose proof (zlen_nonneg data) as Hd0.
      destruct (u <? z).
      - pose proof (held_step s data ml) as Hh.
        destruct (dstep s data ml) as [s1 o]. simpl in Hh.
        destruct (stop_here ss data (trim_out ss o (z - u)));
          [injection H as <- _ _; exists s1, ss; split; [reflexivity|exact Hh]|].
        destruct (chain_run dstep ss up us (trim_out ss o (z - u)) ml) as [[[ss2 up2] d]|e]; simpl in H; [|discriminate].
        injection H as <- _ _. exists s1, ss2. split; [reflexivity|exact Hh].
      - destruct (zlen data =? 0); [|discriminate].
        destruct (chain_run dstep ss up us [] ml) as [[[ss2 up2] d]|e]; simpl in H; [|discriminate].
        injection H as <- _ _. exists s, ss2. split; [reflexivity|lia].
    Qed.

    Theorem first_stage_held_bounded (L0 : Z) (calls : list (Z * nat)) :
      forall (st st' : dst) (outs : bytes) (s0 : stage_st) (t0 : list stage_st),
        book_inv L0 st -> consumed st <= input_size st -> stages st = s0 :: t0 ->
        decompress_seq dstep st calls = Ok (st', outs) ->
        exists s' t', stages st' = s' :: t' /\
                      held s' <= held s0 + (consumed st' - consumed st) /\
                      consumed st' <= input_size st.
    Proof.
      induction calls as [|[ml rd] calls IH]; intros st st' outs s0 t0 Hbk Hle Hs H; simpl in H.
      - injection H as <- _. exists s0, t0. split; [exact Hs|]. lia.
      - destruct (decompress dstep st ml rd) as [[st1 o]|e] eqn:Hd; simpl in H; [|discriminate].
        destruct (decompress_seq dstep st1 calls) as [[st2 os]|e] eqn:Hq; simpl in H; [|discriminate].
        injection H as <- _.
        destruct (decompress_book_inv _ dstep L0 st st1 ml rd o Hbk Hd)
          as (Hbk1 & Hc01 & Hle1 & _ & His & _).
        assert (Hinv : buf_inv st) by (destruct Hbk as (Hp & Hu & _); split; assumption).
        destruct (decompress_spec_ml st st1 ml rd o Hinv Hd)
          as (data & tmp & Hcase & Hcons & _).
        assert (Hhd : exists s1 t1, stages st1 = s1 :: t1 /\ held s1 <= held s0 + zlen data).
        { pose proof (zlen_nonneg data) as Hd0.
          destruct Hcase as [(_ & _ & _ & _ & _ & Hss)|[(_ & _ & _ & Hc)|(_ & _ & _ & _ & Hc)]].
          - exists s0, t0. split; [congruence|lia].
          - rewrite Hs in Hc. apply chain_run_head in Hc. exact Hc.
          - rewrite Hs in Hc. apply chain_run_head in Hc. exact Hc. }
        destruct Hhd as (s1 & t1 & Hs1 & Hh1).
        destruct (IH st1 st2 os s1 t1 Hbk1 (Hle1 Hle) Hs1 Hq) as (s' & t' & Hs' & Hh' & Hc').
        exists s', t'. split; [exact Hs'|]. split; lia.
    Qed.
  End Held.

End AcctProofs.

(* ---- the toy stages meet the contracts (non-vacuity) -------------------- *)

Lemma mtoy_tag (s : toy_state) (c : bytes) (ml : Z) :
  fst (fst (fst (mtoy_dstep s c ml))) = fst (fst s) /\
  snd (fst (fst (mtoy_dstep s c ml))) = snd (fst s).
Proof.
  destruct s as [[tag k] p]. unfold mtoy_dstep, toy_dstep.
  destruct (tag =? 1); [split; reflexivity|].
  destruct (tag =? 2); [split; reflexivity|].
  destruct (tag =? 3); [split; reflexivity|].
  destruct (tag =? 4); split; reflexivity.
Qed.

Lemma mtoy_honest_step (s : toy_state) (c : bytes) (ml : Z) :
  mtoy_honest s -> mtoy_honest (fst (mtoy_dstep s c ml)).
Proof. unfold mtoy_honest. destruct (mtoy_tag s c ml) as (-> & _). tauto. Qed.

Lemma mtoy_honours (s : toy_state) (c : bytes) (ml : Z) :
  mtoy_honest s -> 0 <= ml -> zlen (snd (mtoy_dstep s c ml)) <= ml.
Proof.
  destruct s as [[tag k] p]. unfold mtoy_honest, mtoy_dstep, toy_dstep. simpl fst.
  intros [-> | ->] Hml.
  - change (1 =? 1) with true. cbv iota. simpl snd.
    destruct (ml <? 0) eqn:E; [apply Z.ltb_lt in E; lia|].
    eapply Z.le_trans; [apply zlen_firstn_le|]. lia.
  - change (3 =? 1) with false. change (3 =? 2) with false. change (3 =? 3) with true.
    cbv iota. simpl snd. rewrite zlen_rep_each.
    destruct (ml <? 0) eqn:E; [apply Z.ltb_lt in E; lia|]. simpl orb.
    destruct (k <=? 0) eqn:Ek.
    + apply Z.leb_le in Ek. replace (Z.to_nat k) with 0%nat by lia. lia.
    + apply Z.leb_gt in Ek.
      pose proof (zlen_firstn_le (Nat.min (length (p ++ c)) (Z.to_nat (ml / k))) (p ++ c)) as Hf.
      pose proof (zlen_nonneg (firstn (Nat.min (length (p ++ c)) (Z.to_nat (ml / k))) (p ++ c))) as H0.
      pose proof (Z.mul_div_le ml k ltac:(lia)) as Hd.
      assert (0 <= ml / k) by (apply Z.div_pos; lia). nia.
Qed.

Lemma mtoy_tame_step (K : Z) (s : toy_state) (c : bytes) (ml : Z) :
  mtoy_tame K s -> mtoy_tame K (fst (mtoy_dstep s c ml)).
Proof. unfold mtoy_tame. destruct (mtoy_tag s c ml) as (-> & ->). tauto. Qed.

Lemma mtoy_expansion (K : Z) (s : toy_state) (c : bytes) (ml : Z) :
  mtoy_tame K s -> zlen (snd (mtoy_dstep s c ml)) <= Z.max 1 K * zlen c + 0.
Proof.
  destruct s as [[tag k] p]. unfold mtoy_tame, mtoy_dstep. simpl fst. simpl snd.
  intros (H1 & H3 & H4 & HK). pose proof (zlen_nonneg c) as Hc.
  destruct (tag =? 1) eqn:E1; [apply Z.eqb_eq in E1; lia|].
  destruct (tag =? 2) eqn:E2.
  - simpl snd. rewrite zlen_rep_each. nia.
  - destruct (tag =? 3) eqn:E3; [apply Z.eqb_eq in E3; lia|].
    destruct (tag =? 4) eqn:E4; [apply Z.eqb_eq in E4; lia|]. simpl snd. nia.
Qed.

Lemma mtoy_held_step (s : toy_state) (c : bytes) (ml : Z) :
  mtoy_held (fst (mtoy_dstep s c ml)) <= mtoy_held s + zlen c.
Proof.
  destruct s as [[tag k] p]. unfold mtoy_held, mtoy_dstep, toy_dstep. simpl snd.
  pose proof (zlen_nonneg c) as Hc.
  assert (Hsk : forall n, zlen (skipn n (p ++ c)) <= zlen p + zlen c).
  { intros n. unfold zlen. rewrite skipn_length, app_length. lia. }
  destruct (tag =? 1); [simpl; apply Hsk|].
  destruct (tag =? 2); [simpl; lia|].
  destruct (tag =? 3); [simpl; apply Hsk|].
  destruct (tag =? 4); [simpl; apply Hsk|simpl; lia].
Qed.

Lemma mtoy_slack_step (K : Z) (s : toy_state) (c : bytes) (ml : Z) :
  mtoy_slack K s -> mtoy_slack K (fst (mtoy_dstep s c ml)).
Proof. unfold mtoy_slack. destruct (mtoy_tag s c ml) as (-> & ->). tauto. Qed.

Lemma mtoy_honours_slack (K : Z) (s : toy_state) (c : bytes) (ml : Z) :
  mtoy_slack K s -> 0 <= ml -> zlen (snd (mtoy_dstep s c ml)) <= ml + Z.max 0 K.
Proof.
  destruct s as [[tag k] p]. unfold mtoy_slack, mtoy_dstep. simpl fst. simpl snd.
  intros (-> & HK) Hml.
  change (4 =? 1) with false. change (4 =? 2) with false. change (4 =? 3) with false.
  change (4 =? 4) with true. cbv iota. simpl snd. rewrite zlen_rep_each.
  destruct (ml <? 0) eqn:E; [apply Z.ltb_lt in E; lia|]. simpl orb.
  destruct (k <=? 0) eqn:Ek.
  - apply Z.leb_le in Ek. replace (Z.to_nat k) with 0%nat by lia. lia.
  - apply Z.leb_gt in Ek.
    set (q := (ml + k - 1) / k).
    pose proof (zlen_firstn_le (Nat.min (length (p ++ c)) (Z.to_nat q)) (p ++ c)) as Hf.
    pose proof (zlen_nonneg (firstn (Nat.min (length (p ++ c)) (Z.to_nat q)) (p ++ c))) as H0.
    pose proof (Z.mul_div_le (ml + k - 1) k ltac:(lia)) as Hd. fold q in Hd.
    assert (0 <= q) by (apply Z.div_pos; lia). nia.
Qed.

(* instances of the main theorems for the toy stages *)
Theorem toy_live_bytes_bounded (st st' : dstate toy_state) (ml : Z) (rd : nat) (out : bytes) :
  clean st -> last_ok mtoy_honest (stages st) -> 0 <= ml ->
  decompress mtoy_dstep st ml rd = Ok (st', out) ->
  clean st' /\ last_ok mtoy_honest (stages st') /\
  zlen out <= ml /\ zlen (buf st') <= ml /\
  managed st st' out <= 2 * ml + Z.max 0 (block_size st) /\
  live mtoy_held st st' out <= 2 * ml + Z.max 0 (block_size st) + sum_held mtoy_held (stages st') /\
  block_size st' = block_size st.
Proof.
  exact (live_bytes_bounded toy_state mtoy_dstep mtoy_held mtoy_honest
           mtoy_honest_step mtoy_honours st st' ml rd out).
Qed.

Theorem toy_carry_bounded (K : Z) (st st' : dstate toy_state) (calls : list (Z * nat)) (outs : bytes) :
  fresh st -> Forall (mtoy_tame K) (stages st) ->
  decompress_seq mtoy_dstep st calls = Ok (st', outs) ->
  zlen (buf st') <= exp_iter (Z.max 1 K) 0 (length (stages st)) (Z.max 0 (block_size st)).
Proof.
  intros Hf Ht H.
  exact (carry_bounded_seq toy_state mtoy_dstep (mtoy_tame K) (Z.max 1 K) 0
           ltac:(lia) ltac:(lia) (mtoy_tame_step K) (mtoy_expansion K) calls st st' outs Hf Ht H).
Qed.

Theorem toy_first_stage_held_bounded (calls : list (Z * nat)) (s0 : toy_state) (t0 : list toy_state)
        (us : list Z) (isz bsz : Z) (fp : bytes) (st' : dstate toy_state) (outs : bytes) :
  0 <= isz ->
  decompress_seq mtoy_dstep (init_state (s0 :: t0) us isz bsz fp) calls = Ok (st', outs) ->
  exists s' t', stages st' = s' :: t' /\ mtoy_held s' <= mtoy_held s0 + consumed st' /\ consumed st' <= isz.
Proof.
  intros Hisz H.
  destruct (first_stage_held_bounded toy_state mtoy_dstep mtoy_held mtoy_held_step (zlen fp) calls
              (init_state (s0 :: t0) us isz bsz fp) st' outs s0 t0
              (init_book_inv toy_state (s0 :: t0) us isz bsz fp) Hisz eq_refl H)
    as (s' & t' & Hs & Hh & Hc).
  exists s', t'. simpl in Hh, Hc. split; [exact Hs|]. split; lia.
Qed.

(* a lagging first stage behind small max_length: it holds input, never more than was read *)
Example first_stage_held_applies :
  exists st' outs,
    decompress_seq mtoy_dstep (init_state [toy_st 3 4 []] [1000] 9 4 [1; 2; 3; 4; 5; 6; 7; 8; 9])
                   [(4, 9%nat); (4, 9%nat)] = Ok (st', outs) /\
    sum_held mtoy_held (stages st') = 6 /\ consumed st' = 8.
Proof. eexists. eexists. split; [vm_compute; reflexivity|]. split; reflexivity. Qed.


Theorem toy_live_bytes_bounded_slack (K M : Z) (st st' : dstate toy_state) (ml : Z) (rd : nat) (out : bytes) :
  buf_inv st -> last_ok (mtoy_slack K) (stages st) -> 0 <= ml <= M ->
  zlen (buf st) <= M + Z.max 0 K ->
  decompress mtoy_dstep st ml rd = Ok (st', out) ->
  buf_inv st' /\ last_ok (mtoy_slack K) (stages st') /\
  zlen out <= ml /\ tmp_len st st' out <= ml + Z.max 0 K /\
  zlen (buf st') <= M + Z.max 0 K /\
  managed st st' out <= 4 * M + 3 * Z.max 0 K + Z.max 0 (block_size st) /\
  block_size st' = block_size st.
Proof.
  exact (live_bytes_bounded_slack toy_state mtoy_dstep (mtoy_slack K) (Z.max 0 K) ltac:(lia)
           (mtoy_slack_step K) (mtoy_honours_slack K) M st st' ml rd out).
Qed.

(* ratio 7, max_length 10: the stage returns 14 bytes, 4 stay in _buf; next call is served from them *)
Example live_bytes_bounded_slack_applies :
  let st := init_state [toy_st 0 0 []; toy_st 4 7 []] [100; 700] 9 4 [1; 2; 3; 4; 5; 6; 7; 8; 9] in
  buf_inv st /\ last_ok (mtoy_slack 6) (stages st) /\
  exists st' outs, decompress_seq mtoy_dstep st [(10, 9%nat); (3, 9%nat)] = Ok (st', outs) /\
                   zlen outs = 13 /\ zlen (buf st') = 4 /\ pos st' = 3.
Proof.
  cbv zeta. split; [split; [vm_compute; split; discriminate|reflexivity]|].
  split; [split; [reflexivity|simpl; lia]|].
  eexists. eexists. split; [vm_compute; reflexivity|]. repeat split.
Qed.

(* ---- the bound really depends on the ratio ------------------------------ *)
(* one call on a fresh decompressor whose chain returns more than max_length *)
Lemma decompress_fresh_overflow {S : Type} (dstep : S -> bytes -> Z -> S * bytes)
      (st st1 st2 : dstate S) (ml : Z) (rd : nat) (data tmp : bytes) :
  buf st = [] -> pos st = 0 -> unused st = [] -> 0 < ml ->
  read_data st rd = (st1, data) ->
  run_chain dstep st1 data ml = Ok (st2, tmp) ->
  ml < zlen tmp ->
  exists st', decompress dstep st ml rd = Ok (st', py_to tmp ml) /\
              buf st' = py_from tmp ml /\ pos st' = 0.
Proof.
  intros Hb Hp Hu Hml Hrd Hrc Hlt.
  pose proof (read_data_spec _ _ _ _ _ Hrd) as (_ & _ & _ & _ & _ & R6 & R7 & R8 & _).
  pose proof (run_chain_spec _ _ _ _ _ _ _ Hrc) as (_ & _ & _ & _ & _ & C6 & C7 & C8 & _).
  unfold decompress.
  destruct (ml <? 0) eqn:E0; [apply Z.ltb_lt in E0; lia|].
  rewrite Hb, Hp, zlen_nil. change (0 - 0) with 0.
  destruct (0 >=? ml) eqn:E1; [apply Z.geb_le in E1; lia|].
  rewrite Hrd, R6, Hu. change (zlen [] >? 0) with false. cbv iota.
  rewrite Hrc. simpl bind. cbv beta iota.
  rewrite ?Z.add_0_l, ?Z.sub_0_r, C7, R7, Hb, C8, R8, Hp.
  destruct (zlen tmp <=? ml) eqn:E2; [apply Z.leb_le in E2; lia|].
  eexists. split; [reflexivity|]. split; reflexivity.
Qed.

(* EXACT carry-over of the expander: with ratio k and one input block of bsz
   bytes, a call with any max_length below k*bsz leaves k*bsz - max_length
   bytes in _buf *)
Theorem expander_carry_exact (k bsz ml z : Z) (fp : bytes) :
  0 < ml -> 0 < bsz -> bsz <= zlen fp -> ml < k * bsz -> 0 < z ->
  exists st' out,
    decompress mtoy_dstep (init_state [toy_st 2 k []] [z] (zlen fp) bsz fp) ml (length fp)
      = Ok (st', out) /\
    zlen out = ml /\ zlen (buf st') = k * bsz - ml /\ pos st' = 0.
Proof.
  intros Hml Hbs Hfp Hk Hz.
  set (st := init_state [toy_st 2 k []] [z] (zlen fp) bsz fp).
  set (data := firstn (Z.to_nat bsz) fp).
  assert (Hdl : zlen data = bsz).
  { unfold data, zlen in *. rewrite firstn_length. lia. }
  assert (Hrd : exists st1, read_data st (length fp) = (st1, data) /\
                            stages st1 = [toy_st 2 k []] /\ unpacked st1 = [0] /\
                            unpacksizes st1 = [z]).
  { unfold read_data, st, init_state. simpl. rewrite zlen_nil.
    replace (Z.min (zlen fp - 0 - 0) (bsz - 0)) with bsz by lia.
    destruct (bsz >? 0) eqn:E; [|destruct (Z.gtb_spec bsz 0); [discriminate|lia]].
    unfold fp_read. replace (Nat.min (Z.to_nat bsz) (length fp)) with (Z.to_nat bsz)
      by (unfold zlen in Hfp; lia).
    eexists. split; [reflexivity|]. simpl. repeat split; reflexivity. }
  destruct Hrd as (st1 & Hrd & Hs1 & Hu1 & Hz1).
  set (tmp := rep_each (Z.to_nat k) data).
  assert (Htl : zlen tmp = k * bsz).
  { unfold tmp. rewrite zlen_rep_each, Hdl. nia. }
  assert (Hrc : exists st2, run_chain mtoy_dstep st1 data ml = Ok (st2, tmp)).
  { unfold run_chain. rewrite Hs1, Hu1, Hz1. simpl chain_run.
    destruct (0 <? z) eqn:E; [|destruct (Z.ltb_spec 0 z); [discriminate|lia]].
    unfold toy_st, mtoy_dstep. change (2 =? 1) with false. change (2 =? 2) with true.
    cbv iota. simpl. rewrite stop_here_last. eexists. reflexivity. }
  destruct Hrc as (st2 & Hrc).
  destruct (decompress_fresh_overflow mtoy_dstep st st1 st2 ml (length fp) data tmp
              eq_refl eq_refl eq_refl Hml Hrd Hrc ltac:(lia)) as (st' & Hd & Hb' & Hp').
  exists st', (py_to tmp ml). split; [exact Hd|].
  split; [apply zlen_py_to; lia|]. split; [|exact Hp'].
  rewrite Hb', zlen_py_from by lia. lia.
Qed.

(* no bound in terms of max_length and block_size alone: for any M some ratio
   leaves more than M bytes in _buf after a call that read ONE byte *)
Theorem carry_unbounded_in_ratio (ml M : Z) :
  0 < ml ->
  exists k st' out,
    decompress mtoy_dstep (init_state [toy_st 2 k []] [k] 1 1 [7]) ml 1 = Ok (st', out) /\
    zlen out = ml /\ M < zlen (buf st').
Proof.
  intros Hml. set (k := Z.max 0 M + ml + 1).
  destruct (expander_carry_exact k 1 ml k [7] Hml ltac:(lia) ltac:(reflexivity) ltac:(lia) ltac:(lia))
    as (st' & out & Hd & Ho & Hb & _).
  exists k, st', out. split; [exact Hd|]. split; [exact Ho|]. lia.
Qed.

(* the statement of live_bytes_bounded without the contract is false:
   block of 4 bytes, ratio 250, max_length 8 *)
Theorem live_bytes_bounded_any_chain_refuted :
  exists (st st' : dstate toy_state) (ml : Z) (rd : nat) (out : bytes),
    clean st /\ stages st <> [] /\ 0 <= ml /\
    decompress mtoy_dstep st ml rd = Ok (st', out) /\
    zlen out = ml /\ zlen (buf st') = 250 * block_size st - ml /\
    ~ zlen (buf st') <= ml /\
    ~ managed st st' out <= 2 * ml + Z.max 0 (block_size st).
Proof.
  exists (init_state [toy_st 2 250 []] [100000] 8 4 [1; 2; 3; 4; 5; 6; 7; 8]).
  eexists. exists 8, 8%nat. eexists.
  split; [repeat split|]. split; [discriminate|]. split; [lia|].
  split; [vm_compute; reflexivity|].
  split; [vm_compute; reflexivity|]. split; [vm_compute; reflexivity|].
  split; vm_compute; intros H; apply H; reflexivity.
Qed.

(* Worker.decompress over the same member (80 bytes declared, 8 packed bytes,
   blocks of 4, chunks of 8): the expander's peak follows the ratio, the
   honest expander's peak obeys 2*max_block + block_size *)
Example worker_peak_expander :
  mem_toy_worker_t (TL [TI 100; TL [TL [TI 2; TI 10; TL []]]; TL [TI 80]; TI 8; TI 4;
                        TL (map TI [1; 2; 3; 4; 5; 6; 7; 8]); TI 80; TI 8; TL []])
  = TL [TI 0; TL [t_bytes (rep_each 10 [1; 2; 3; 4; 5; 6; 7; 8]); TI 116; TI 32]].
Proof. vm_compute. reflexivity. Qed.

Example worker_peak_honest :
  mem_toy_worker_t (TL [TI 100; TL [TL [TI 3; TI 10; TL []]]; TL [TI 80]; TI 8; TI 4;
                        TL (map TI [1; 2; 3; 4; 5; 6; 7; 8]); TI 80; TI 10; TL []])
  = TL [TI 0; TL [t_bytes (rep_each 10 [1; 2; 3; 4; 5; 6; 7; 8]); TI 24; TI 0]].
Proof. vm_compute. reflexivity. Qed.

(* hypotheses of live_bytes_bounded met by a non-trivial state: AES-like copy
   stage in front of an honest expander *)
Example live_bytes_bounded_applies :
  let st := init_state [toy_st 0 0 []; toy_st 3 5 []] [100; 500] 9 4 [1; 2; 3; 4; 5; 6; 7; 8; 9] in
  clean st /\ last_ok mtoy_honest (stages st) /\
  exists st' out, decompress mtoy_dstep st 12 9 = Ok (st', out) /\ zlen out = 10 /\
                  managed st st' out = 24 /\ sum_held mtoy_held (stages st') = 2.
Proof.
  cbv zeta. split; [repeat split|]. split; [right; reflexivity|].
  eexists. eexists. split; [vm_compute; reflexivity|]. repeat split.
Qed.

Example carry_bounded_applies :
  let st := init_state [toy_st 2 7 []; toy_st 0 0 []] [1000; 1000] 9 4 [1; 2; 3; 4; 5; 6; 7; 8; 9] in
  fresh st /\ Forall (mtoy_tame 7) (stages st) /\
  exists st' outs, decompress_seq mtoy_dstep st [(5, 9%nat); (5, 9%nat)] = Ok (st', outs) /\
                   zlen (buf st') = 23 /\
                   exp_iter (Z.max 1 7) 0 (length (stages st)) (Z.max 0 (block_size st)) = 196.
Proof.
  cbv zeta. split; [repeat split|].
  split; [repeat constructor; simpl; lia|].
  eexists. eexists. split; [vm_compute; reflexivity|]. split; reflexivity.
Qed.

(* ==== 4. write side: SevenZipCompressor.compress ========================= *)
Section CompProofs.
  Variable cstage : Type.
  Variable cstep : cstage -> bytes -> cstage * bytes.
  (* bytes buffered inside a compressor object, and the contract: it emits at
     most what it holds plus what it is given (+eb), and never holds more than Hc *)
  Variable cheld : cstage -> Z.
  Variable cgood : cstage -> Prop.
  Variables Hc eb : Z.
  Hypothesis d_nonneg : 0 <= Hc + eb.
  Hypothesis cgood_step : forall s c, cgood s -> cgood (fst (cstep s c)).
  Hypothesis cheld_le : forall s, cgood s -> cheld s <= Hc.
  Hypothesis cout_le : forall s c, cgood s -> zlen (snd (cstep s c)) <= cheld s + zlen c + eb.

  Lemma cchain_bound (ss : list cstage) :
    forall data ss' out pk,
      Forall cgood ss -> cchain cstep ss data = (ss', out, pk) ->
      Forall cgood ss' /\ length ss' = length ss /\
      zlen out <= zlen data + Z.of_nat (length ss) * (Hc + eb) /\
      pk <= 2 * zlen data + 2 * Z.of_nat (length ss) * (Hc + eb).
  Proof.
    induction ss as [|s ss IH]; intros data ss' out pk Hg H; cbn [cchain] in H.
    - injection H as <- <- <-. pose proof (zlen_nonneg data). cbn [length].
      split; [apply Forall_nil|]. split; [reflexivity|]. lia.
    - inversion Hg as [|? ? Hs Hss]; subst.
      pose proof (cout_le s data Hs) as Ho. pose proof (cheld_le s Hs) as Hh.
      pose proof (cgood_step s data Hs) as Hs1.
      destruct (cstep s data) as [s1 o]. simpl in Ho, Hs1.
      destruct (cchain cstep ss o) as [[ss2 d] pk2] eqn:Ec.
      injection H as <- <- <-.
      destruct (IH o ss2 d pk2 Hss Ec) as (Hg2 & Hl & Hle & Hpk).
      pose proof (zlen_nonneg data). pose proof (zlen_nonneg o).
      cbn [length]. rewrite Nat2Z.inj_succ.
      split; [apply Forall_cons; assumption|]. split; [lia|]. nia.
  Qed.

  (* WRITE SIDE: whatever the member size, one iteration holds at most one
     block of input and the outputs of the stages it passes through *)
  Theorem compress_live_bounded (fuel : nat) :
    forall ss fd bs sched ss' w n pk log,
      Forall cgood ss -> 0 <= bs ->
      compress_loop cstep fuel ss fd bs sched = Ok (ss', w, n, pk, log) ->
      pk <= 2 * bs + 2 * Z.of_nat (length ss) * (Hc + eb) /\
      Forall (fun p => 0 < fst p <= bs) log /\ n <= zlen fd /\ Forall cgood ss'.
  Proof.
    induction fuel as [|fuel IH]; intros ss fd bs sched ss' w n pk log Hg Hbs H;
      cbn [compress_loop] in H; [discriminate|].
    unfold fd_read in H.
    destruct (bs <? 0) eqn:E; [apply Z.ltb_lt in E; lia|].
    unfold fp_read in H.
    set (m := Nat.min (Z.to_nat bs) (hd (length fd) sched)) in H.
    assert (Hdl : zlen (firstn m fd) <= bs) by (eapply Z.le_trans; [apply zlen_firstn_le|]; lia).
    assert (Hsplit : zlen fd = zlen (firstn m fd) + zlen (skipn m fd)).
    { rewrite <- zlen_app, firstn_skipn. reflexivity. }
    pose proof (zlen_nonneg (firstn m fd)) as Hd0.
    destruct (zlen (firstn m fd) =? 0) eqn:Ez.
    - injection H as <- _ <- <- <-. pose proof (zlen_nonneg fd).
      split; [nia|]. split; [apply Forall_nil|]. split; [lia|exact Hg].
    - apply Z.eqb_neq in Ez.
      destruct (cchain cstep ss (firstn m fd)) as [[ss1 out] pk1] eqn:Ec.
      destruct (cchain_bound ss _ _ _ _ Hg Ec) as (Hg1 & Hl1 & _ & Hpk1).
      destruct (compress_loop cstep fuel ss1 (skipn m fd) bs (tl sched))
        as [[[[[ss2 w2] n2] pk2] log2]|e] eqn:El; simpl in H; [|discriminate].
      injection H as <- _ <- <- <-.
      destruct (IH _ _ _ _ _ _ _ _ _ Hg1 Hbs El) as (Hpk2 & Hlog & Hn & Hg2).
      rewrite Hl1 in Hpk2.
      split; [nia|]. split; [apply Forall_cons; [simpl; lia|exact Hlog]|].
      split; [lia|exact Hg2].
  Qed.
End CompProofs.

(* the toy compressor meets the contract *)

Lemma ctoy_good_step (K : Z) (s : ctoy_state) (c : bytes) :
  ctoy_good K s -> ctoy_good K (fst (ctoy_step s c)).
Proof.
  destruct s as [k p]. unfold ctoy_good, ctoy_step. simpl. intros (Hk & Hp).
  split; [exact Hk|]. unfold zlen in *. rewrite skipn_length. lia.
Qed.

Lemma ctoy_held_le (K : Z) (s : ctoy_state) : ctoy_good K s -> ctoy_held s <= K.
Proof. destruct s as [k p]. unfold ctoy_good, ctoy_held. simpl. lia. Qed.

Lemma ctoy_out_le (K : Z) (s : ctoy_state) (c : bytes) :
  ctoy_good K s -> zlen (snd (ctoy_step s c)) <= ctoy_held s + zlen c + 0.
Proof.
  destruct s as [k p]. unfold ctoy_good, ctoy_held, ctoy_step. simpl. intros _.
  unfold zlen. rewrite firstn_length, app_length. lia.
Qed.

Theorem toy_compress_live_bounded (K : Z) (fuel : nat) ss fd bs sched ss' w n pk log :
  0 <= K -> Forall (ctoy_good K) ss -> 0 <= bs ->
  compress_loop ctoy_step fuel ss fd bs sched = Ok (ss', w, n, pk, log) ->
  pk <= 2 * bs + 2 * Z.of_nat (length ss) * (K + 0) /\
  Forall (fun p => 0 < fst p <= bs) log /\ n <= zlen fd /\ Forall (ctoy_good K) ss'.
Proof.
  intros HK. 
  exact (compress_live_bounded ctoy_state ctoy_step ctoy_held (ctoy_good K) K 0 ltac:(lia)
           (ctoy_good_step K) (ctoy_held_le K) (ctoy_out_le K) fuel ss fd bs sched ss' w n pk log).
Qed.

Example compress_loop_applies :
  Forall (ctoy_good 3) [(2, []); (3, [])] /\
  compress_loop ctoy_step 10 [(2, []); (3, [])] [1; 2; 3; 4; 5; 6; 7; 8; 9; 10] 4 [4%nat; 3%nat]
  = Ok ([(2, [9; 10]); (3, [6; 7; 8])], [1; 2; 3; 4; 5], 10, 6, [(4, 0); (3, 2); (3, 3)]).
Proof.
  split; [|vm_compute; reflexivity].
  apply Forall_cons; [unfold ctoy_good; simpl; rewrite zlen_nil; lia|].
  apply Forall_cons; [unfold ctoy_good; simpl; rewrite zlen_nil; lia|apply Forall_nil].
Qed.

(* a negative block size makes fd.read return the whole member at once *)
Theorem compress_negative_block_whole_member :
  compress_loop ctoy_step 3 [(0, [])] [1; 2; 3; 4; 5; 6; 7; 8; 9; 10] (-1) []
  = Ok ([(0, [])], [1; 2; 3; 4; 5; 6; 7; 8; 9; 10], 10, 20, [(10, 10)]).
Proof. vm_compute. reflexivity. Qed.

Print Assumptions clean_if_tmp_fits.
Print Assumptions live_bytes_bounded.
Print Assumptions worker_live_bounded.
Print Assumptions live_bytes_bounded_slack.
Print Assumptions worker_live_bounded_slack.
Print Assumptions toy_live_bytes_bounded_slack.
Print Assumptions clean_reachable.
Print Assumptions carry_bounded_general.
Print Assumptions carry_bounded_seq.
Print Assumptions live_bounded_general.
Print Assumptions first_stage_held_bounded.
Print Assumptions expander_carry_exact.
Print Assumptions carry_unbounded_in_ratio.
Print Assumptions live_bytes_bounded_any_chain_refuted.
Print Assumptions compress_live_bounded.
Print Assumptions toy_live_bytes_bounded.
Print Assumptions toy_carry_bounded.
Print Assumptions toy_first_stage_held_bounded.
Print Assumptions toy_compress_live_bounded.
