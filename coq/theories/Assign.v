(* Assign.v -- py7zr's assignment of header entries to sub-streams, folders and
   worker ids: SevenZipFile._real_get_contents / _get_fileinfo_sizes (py7zr.py
   430-527, 738-760), the id arithmetic of ArchiveFileList(offset) used by the
   multi-folder paths of Worker.extract (1288-1339), and the kind decision of
   _extract (ArchiveFile.is_directory: for an entry without data from its EmptyFile bit -- the
   key "emptyfile" FilesInfo._read stores with the entry --, for an entry with data from the
   attribute word).  Definitions first. *)
From P7 Require Import Prelude PyPrims Number Header Spec.
Open Scope Z_scope.

Record iplan := mkIPlan {
  ip_name : option (list Z); ip_kind : Z; ip_folder : Z; ip_offset : Z; ip_size : Z; ip_crc : option Z;
  ip_mtime : option Z; ip_attr : option Z;
  ip_id : Z;         (* the id under which the worker looks this member's output up *)
  (* the two keys of the entry's dict ArchiveFile.is_directory reads: "emptystream", and "emptyfile"
     (false where the key is absent: entries with data, entries added by a write session) *)
  ip_emptystream : bool; ip_emptyfile : bool }.

Definition attr_is_dir (a : option (option Z)) : bool :=
  match a with Some (Some v) => negb (Z.land v 16 =? 0) | _ => false end.

Definition nthZ {A} (l : list A) (i : Z) : res A :=
  if i <? 0 then Err EOther else match nth_error l (Z.to_nat i) with Some x => Ok x | None => Err EOther end.

(* ParseStatus: folder, outstreams, input ; plus per-folder bookkeeping we need for offsets and ids:
   for each folder index the (first file id, number of files so far, bytes so far) *)
Record fstat := mkFstat { fs_first : Z; fs_count : Z; fs_bytes : Z }.

Fixpoint upd_fstat (l : list (Z * fstat)) (fo : Z) (fid size : Z) : list (Z * fstat) * fstat :=
  match l with
  | [] => ([(fo, mkFstat fid 1 size)], mkFstat fid 0 0)
  | (k, s) :: r =>
      if k =? fo then ((k, mkFstat (fs_first s) (fs_count s + 1) (fs_bytes s + size)) :: r, s)
      else let '(r', old) := upd_fstat r fo fid size in ((k, s) :: r', old)
  end.

(* while nums[folder] == 0 and folder < len(nums) - 1: folder += 1 *)
Fixpoint skip_zero (fuel : nat) (nums : list Z) (folder : Z) : Z :=
  match fuel with
  | O => folder
  | S f => if (folder <? zlen nums - 1) && (0 <=? folder)
           then match nth_error nums (Z.to_nat folder) with
                | Some 0 => skip_zero f nums (folder + 1)
                | _ => folder
                end
           else folder
  end.

(* ArchiveFile.is_directory as a kind (0 data member, 1 empty file, 2 directory):
     if self._get_property("emptystream"): return not self._get_property("emptyfile")
     return self._test_attribute(FILE_ATTRIBUTE_DIRECTORY)
   `emptyfile`: the entry's "emptyfile" key (FilesInfo._read: f["emptyfile"] = next(flags, False) for the
   empty-stream entries in order; an absent key reads as None, i.e. as false) *)
Definition entry_kind (e : fileent) (emptyfile : bool) : Z :=
  if e_emptystream e then (if emptyfile then 1 else 2)
  else if attr_is_dir (e_attr e) then 2 else 0.

(* the number of entries without data = the number of EmptyFile bits a header graph holds *)
Definition nempty (files : list fileent) : nat := length (filter e_emptystream files).

(* efl: the EmptyFile bits not yet handed out (h_emptyfiles: one per empty-stream entry, in order; `hd false`
   is next(flags, False)) *)
Fixpoint assign_loop (multi : bool) (files : list fileent) (efl : list bool) (fid : Z)
         (nums sizes : list Z) (dd : list bool) (dg : list Z)
         (folder outstreams input : Z) (fstats : list (Z * fstat)) (nfolders : Z) : res (list iplan) :=
  match files with
  | [] => Ok []
  | e :: r =>
      if e_emptystream e then
        do rest <- assign_loop multi r (tl efl) (fid + 1) nums sizes dd dg folder outstreams input fstats nfolders;
        Ok (mkIPlan (e_name e) (if hd false efl then 1 else 2) (-1) 0 0 None (flat_opt (e_mtime e)) (flat_opt (e_attr e)) fid
                    true (hd false efl) :: rest)
      else
        (* a folder without sub-streams is stepped over (only while no file of the current folder was seen) *)
        let folder := if input =? 0 then skip_zero (length nums) nums folder else folder in
        (* folder = folders[pstat.folder] *)
        if (folder <? 0) || (nfolders <=? folder) then Err EOther else
        do n <- nthZ nums folder;
        do size <- nthZ sizes outstreams;
        do d <- nthZ dd outstreams;
        do g <- nthZ dg outstreams;
        let '(fstats', old) := upd_fstat fstats folder fid size in
        let id := fid in    (* the entry's own index is kept with it in the per-folder list *)
        let p := mkIPlan (e_name e) (if attr_is_dir (e_attr e) then 2 else 0) folder (fs_bytes old) size
                         (if d then Some g else None) (flat_opt (e_mtime e)) (flat_opt (e_attr e)) id false false in
        let input' := input + 1 in
        do rest <- (if n <=? input'
                    then assign_loop multi r efl (fid + 1) nums sizes dd dg (folder + 1) (outstreams + 1) 0 fstats' nfolders
                    else assign_loop multi r efl (fid + 1) nums sizes dd dg folder (outstreams + 1) input' fstats' nfolders);
        Ok (p :: rest)
  end.

(* the entries of a header without main streams: no folder, no size; the kind as above *)
Fixpoint nostream_plans (files : list fileent) (efl : list bool) (fid : Z) : list iplan :=
  match files with
  | [] => []
  | e :: r =>
      let ef := if e_emptystream e then hd false efl else false in
      mkIPlan (e_name e) (entry_kind e ef) (-1) 0 0 None (flat_opt (e_mtime e)) (flat_opt (e_attr e)) fid
              (e_emptystream e) ef
      :: nostream_plans r (if e_emptystream e then tl efl else efl) (fid + 1)
  end.

(* [x.unpacksizes[-1] for x, n in zip(folders, nums) for _ in range(n)]: the sizes when there is no SIZE record *)
Fixpoint last_sizes (fs : list folder) (ns : list Z) : res (list Z) :=
  match fs, ns with
  | f :: r, n :: nr =>
      if n <=? 0 then last_sizes r nr else
      do v <- py_index (f_unpacksizes f) (-1); do t <- last_sizes r nr;
      Ok (repeat v (Z.to_nat n) ++ t)
  | _, _ => Ok []
  end.

(* SubstreamsInfo.default(folders): what an absent SubStreamsInfo stands for -- one sub-stream per folder, no SIZE
   list (the size is the folder's), the folder's CRC when it is defined; the same object SubstreamsInfo._read
   builds for an empty record (Header.parse_substreams on [0]) *)
Definition default_sub (folders : list folder) : substreams :=
  let nums := repeat 1 (length folders) in
  let '(dd, dg) := default_digests nums folders in
  mkSub nums None dd dg.

(* _real_get_contents stores that object in the header graph it was handed (`main_streams.substreamsinfo = ...`):
   after `folders = unpackinfo.folders` and `packinfo.packsizes` have been evaluated, and only when there is a
   FilesInfo (the method returns before that otherwise) *)
Definition install_sub (h : header) : header :=
  match h_files h, h_streams h with
  | Some _, Some st =>
      match si_folders st, si_pack st, si_sub st with
      | Some folders, Some _, None =>
          mkHeader (Some (mkStreams (si_pack st) (si_folders st) (Some (default_sub folders)))) (h_files h) (h_emptyfiles h)
      | _, _, _ => h
      end
  | _, _ => h
  end.

(* _real_get_contents on a parsed header graph *)
Definition impl_plans (h : header) : res (list iplan) :=
  match h_files h with
  | None => Ok []
  | Some files =>
      match h_streams h with
      | None =>
          (* no main streams: every non-empty entry hits `folders is not None` = False -> treated as empty *)
          Ok (nostream_plans files (h_emptyfiles h) 0)
      | Some st =>
          match si_folders st, si_pack st with
          | Some folders, Some _ =>
              (* if main_streams.substreamsinfo is None: main_streams.substreamsinfo = SubstreamsInfo.default(folders) *)
              let sub := match si_sub st with Some sub => sub | None => default_sub folders end in
              do sizes <- (match s_sizes sub with
                           | Some sz => Ok sz
                           | None => last_sizes folders (s_nums sub)
                           end);
              assign_loop (negb (zlen folders =? 1)) files (h_emptyfiles h) 0 (s_nums sub) sizes
                          (Header.s_digestsdefined sub) (Header.s_digests sub) 0 0 0 [] (zlen folders)
          | _, _ => Err EOther                     (* AttributeError on None *)
          end
      end
  end.

(* what conformance means, entry by entry: same name, kind, folder, offset, size, CRC, time, attributes,
   and the output is looked up under the entry's own index *)
Definition plan_agrees (i : Z) (s : plan) (p : iplan) : bool :=
  let oeq := fun (a b : option Z) => match a, b with
                                      | Some x, Some y => x =? y | None, None => true | _, _ => false end in
  (match pl_name s, ip_name p with
   | Some a, Some b => (fix eq (a b : list Z) := match a, b with
                                                | [], [] => true | x :: a', y :: b' => (x =? y) && eq a' b'
                                                | _, _ => false end) a b
   | None, None => true | _, _ => false end)
  && (pl_kind s =? ip_kind p)
  && ((negb (pl_kind s =? 0)) || ((pl_folder s =? ip_folder p) && (pl_offset s =? ip_offset p)
                                  && (pl_size s =? ip_size p) && oeq (pl_crc s) (ip_crc p)))
  && oeq (pl_mtime s) (ip_mtime p) && oeq (pl_attr s) (ip_attr p)
  && (ip_id p =? i).

Fixpoint plans_agree (i : Z) (ss : list plan) (ps : list iplan) : bool :=
  match ss, ps with
  | [], [] => true
  | s :: sr, p :: pr => plan_agrees i s p && plans_agree (i + 1) sr pr
  | _, _ => false
  end.

(* ---- tree glue ---- *)
Definition t_plan (p : plan) : tree :=
  TL [t_opt (fun n => TL (map TI n)) (pl_name p); TI (pl_kind p); TI (pl_folder p); TI (pl_offset p); TI (pl_size p);
      t_opt TI (pl_crc p); t_opt TI (pl_mtime p); t_opt TI (pl_attr p)].
Definition t_iplan (p : iplan) : tree :=
  TL [t_opt (fun n => TL (map TI n)) (ip_name p); TI (ip_kind p); TI (ip_folder p); TI (ip_offset p); TI (ip_size p);
      t_opt TI (ip_crc p); t_opt TI (ip_mtime p); t_opt TI (ip_attr p); TI (ip_id p);
      t_bool (ip_emptystream p); t_bool (ip_emptyfile p)].

From P7 Require Import HeaderCodec.

Definition t_sfolder (f : sfolder) : tree :=
  TL [t_list t_coder (sf_coders f); t_list t_pair (sf_bonds f); t_Zs (sf_packed f); t_Zs (sf_unpacksizes f);
      t_opt TI (sf_crc f)].
Definition t_sheader (h : sheader) : tree :=
  TL [t_bool (s_valid h); t_list t_plan (spec_plans h); TI (sh_packpos h); t_Zs (sh_packsizes h);
      t_list (t_opt TI) (sh_packcrcs h); t_list t_sfolder (sh_folders h); t_Zs (sh_nums h); t_Zs (sh_sizes h);
      t_list (t_opt TI) (sh_crcs h)].

Definition assign_dispatch (fn : Z) (a : tree) : tree :=
  match fn with
  (* FN 160 spec_header : (lim bytes) -> res (valid plans packpos packsizes packcrcs folders nums sizes crcs) *)
  | 160 => t_res t_sheader (s_header (of_TI (tnth a 0)) (of_bytes (tnth a 1)))
  (* FN 161 impl_plans : header-tree -> res (list iplan) *)
  | 161 => t_res (t_list t_iplan) (impl_plans (of_header a))
  (* FN 162 impl_plans_of_bytes : (lim bytes) -> res (list iplan)  -- impl parser then impl assignment *)
  | 162 => t_res (t_list t_iplan) (do h <- parse_header (of_TI (tnth a 0)) (of_bytes (tnth a 1)); impl_plans h)
  (* FN 163 install_sub : header-tree -> header-tree  -- the graph as _real_get_contents leaves it *)
  | 163 => t_header (install_sub (of_header a))
  | _ => TL [TI (-2)]
  end.
