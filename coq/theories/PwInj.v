(* PwInj.v -- the 7zAES password enters the key derivation as the UTF-16LE code units of the string
   exactly as given (Enc.pw_utf16 = str.encode("utf-16LE"), tied to the Python by FilesGen.v /
   prims.py): the encoding is injective, so two different strings -- in particular a password and its
   NFC/NFD/NFKC normal form or a case-folded variant -- never hash the same message.  A writer or
   reader that normalises the password first (seeded change C07-10) derives a key no conforming
   implementation reproduces from the string the user typed. *)
From Coq Require Import ZArith List Lia.
From P7 Require Import Prelude Header HeaderPrims Enc.
Import ListNotations.
Open Scope Z_scope.

Theorem pw_utf16_injective : forall (s t : list Z) (b : bytes),
  pw_utf16 s = Ok b -> pw_utf16 t = Ok b -> s = t.
Proof.
  unfold pw_utf16. intros s t b Hs Ht.
  pose proof (wr_list_enc_inv s b Hs) as Ss. pose proof (wr_list_enc_inv t b Ht) as St.
  rewrite (wr_list_enc s Ss) in Hs. rewrite (wr_list_enc t St) in Ht.
  assert (Hu : utf16_units_of s = utf16_units_of t).
  { assert (H : utf16_units (units_bytes (utf16_units_of s)) = utf16_units (units_bytes (utf16_units_of t)))
      by congruence.
    rewrite !utf16_units_bytes in H. congruence. }
  pose proof (utf16_decode_units s Ss) as Ds. pose proof (utf16_decode_units t St) as Dt.
  rewrite Hu in Ds. congruence.
Qed.

(* "é" precomposed (U+00E9) and decomposed (e, U+0301): two passwords, two messages *)
Example pw_utf16_nfc_nfd_differ :
  pw_utf16 [233] = Ok [233; 0] /\ pw_utf16 [101; 769] = Ok [101; 0; 1; 3].
Proof. split; reflexivity. Qed.
