(* C20 -- Streaming in bounded memory, however large or compressible a member is.
   Only statements, `exact`, Print Assumptions, and Examples showing that the
   hypotheses are met by concrete non-trivial states.

   Model: theories/Decomp.v (SevenZipDecompressor.decompress, Worker.decompress) with
   the byte accounting of theories/Mem.v:
     managed st st' out = len(_buf before) + len(_buf after) + len(res) + len(tmp) + bytes read,
     live = managed + memory held inside the decoder objects (abstract [held]).
   [honest s]: the decoder honours max_length (lzma.LZMADecompressor, bz2.BZ2Decompressor,
   pyppmd; DeflateDecompressor and ZstdDecompressor since their repair);
   [nearly s] with c: it honours max_length up to c bytes (BrotliDecompressor since its
   repair: output_buffer_limit stops at the end of an internal output block);
   [tame s] with (r, c0): it ignores max_length and one call returns at most
   r*len(input)+c0 bytes (CopyDecompressor, BCJ, AES: r = 1; Deflate64Decompressor: r in
   the ten thousands; Deflate/Zstd/Brotli before the repair: r in the thousands).

   Verdict encoded below:
   * chains whose LAST decoder honours max_length: bounded by 2*max_length + block_size
     (+ held), whatever the member size             -- C20_live_bytes_bounded, C20_worker_live_bounded
   * chains whose last decoder honours max_length up to c bytes: _buf <= max_block + c and
     managed <= 4*max_block + 3*c + block_size       -- C20_live_bytes_bounded_slack, C20_worker_live_bounded_slack
   * any chain: bounded by block_size x expansion ratio, not by the declared output
                                                    -- C20_carry_bounded_general / _seq / _single
   * but not by any function of max_length and block_size alone: the bound grows with
     the ratio without limit                        -- C20_live_bytes_bounded_any_chain_refuted,
                                                       C20_expander_carry_exact, C20_carry_unbounded_in_ratio
   * write side: one block of input and its images   -- C20_compress_live_bounded *)
From P7 Require Import Prelude Decomp Mem.
From P7 Require DecompGen.
From P7gen Require DecompChain.
Open Scope Z_scope.

(* ---- decoders that honour max_length ------------------------------------- *)
Theorem C20_live_bytes_bounded :
  forall (S : Type) (dstep : S -> bytes -> Z -> S * bytes) (held : S -> Z) (honest : S -> Prop),
    (forall s c ml, honest s -> honest (fst (dstep s c ml))) ->
    (forall s c ml, honest s -> 0 <= ml -> zlen (snd (dstep s c ml)) <= ml) ->
    forall (st st' : dstate S) (ml : Z) (rd : nat) (out : bytes),
      clean st -> last_ok honest (stages st) -> 0 <= ml ->
      decompress dstep st ml rd = Ok (st', out) ->
      clean st' /\ last_ok honest (stages st') /\
      zlen out <= ml /\ zlen (buf st') <= ml /\
      managed st st' out <= 2 * ml + Z.max 0 (block_size st) /\
      live held st st' out <= 2 * ml + Z.max 0 (block_size st) + sum_held held (stages st') /\
      block_size st' = block_size st.
Proof. exact live_bytes_bounded. Qed.
Print Assumptions C20_live_bytes_bounded.

(* whatever the decoders are: a call whose tmp fits into max_length leaves _buf empty *)
Theorem C20_clean_if_tmp_fits :
  forall (S : Type) (dstep : S -> bytes -> Z -> S * bytes)
         (st st' : dstate S) (ml : Z) (rd : nat) (out : bytes),
    clean st -> 0 <= ml ->
    decompress dstep st ml rd = Ok (st', out) ->
    tmp_len st st' out <= ml -> clean st'.
Proof. exact clean_if_tmp_fits. Qed.
Print Assumptions C20_clean_if_tmp_fits.

(* every state reachable from __init__ by any sequence of calls is [clean] *)
Theorem C20_clean_reachable :
  forall (S : Type) (dstep : S -> bytes -> Z -> S * bytes) (honest : S -> Prop),
    (forall s c ml, honest s -> honest (fst (dstep s c ml))) ->
    (forall s c ml, honest s -> 0 <= ml -> zlen (snd (dstep s c ml)) <= ml) ->
    forall (calls : list (Z * nat)) (st st' : dstate S) (outs : bytes),
      fresh st -> last_ok honest (stages st) ->
      decompress_seq dstep st calls = Ok (st', outs) ->
      clean st' /\ last_ok honest (stages st').
Proof. intros S dstep honest. exact (clean_reachable S dstep (fun _ => 0) honest). Qed.
Print Assumptions C20_clean_reachable.

(* from any state satisfying the buffer invariant the carry-over never grows *)
Theorem C20_carry_never_grows :
  forall (S : Type) (dstep : S -> bytes -> Z -> S * bytes) (honest : S -> Prop),
    (forall s c ml, honest s -> honest (fst (dstep s c ml))) ->
    (forall s c ml, honest s -> 0 <= ml -> zlen (snd (dstep s c ml)) <= ml) ->
    forall (st st' : dstate S) (ml : Z) (rd : nat) (out : bytes),
      buf_inv st -> last_ok honest (stages st) -> 0 <= ml ->
      decompress dstep st ml rd = Ok (st', out) ->
      buf_inv st' /\ last_ok honest (stages st') /\
      zlen out <= ml /\ tmp_len st st' out <= ml /\
      zlen (buf st') <= zlen (buf st) /\
      read_len st st' <= Z.max 0 (block_size st) /\ block_size st' = block_size st.
Proof. exact carry_never_grows. Qed.
Print Assumptions C20_carry_never_grows.

(* Worker.decompress passes min(remaining, get_memory_limit()): the peak over the whole
   member is independent of its size *)
Theorem C20_worker_live_bounded :
  forall (S : Type) (dstep : S -> bytes -> Z -> S * bytes) (honest : S -> Prop),
    (forall s c ml, honest s -> honest (fst (dstep s c ml))) ->
    (forall s c ml, honest s -> 0 <= ml -> zlen (snd (dstep s c ml)) <= ml) ->
    forall (fuel : nat) (st st' : dstate S) (size mb : Z) (sched : list nat) (out : bytes) (pk : Z),
      clean st -> last_ok honest (stages st) -> 0 <= mb ->
      worker_peak dstep fuel st size mb sched = Ok (st', out, pk) ->
      pk <= 2 * mb + Z.max 0 (block_size st) /\ clean st' /\ block_size st' = block_size st.
Proof. intros S dstep honest. exact (worker_live_bounded S dstep (fun _ => 0) honest). Qed.
Print Assumptions C20_worker_live_bounded.

(* worker_peak is Decomp.worker_decompress with a counter *)
Theorem C20_worker_peak_erase :
  forall (S : Type) (dstep : S -> bytes -> Z -> S * bytes) (fuel : nat) (st : dstate S)
         (size mb : Z) (sched : list nat),
    worker_decompress dstep fuel st size mb sched =
    match worker_peak dstep fuel st size mb sched with
    | Ok (st', out, _) => Ok (st', out) | Err e => Err e end.
Proof. exact worker_peak_erase. Qed.
Print Assumptions C20_worker_peak_erase.

(* memory inside the first decoder: at most what it was fed, i.e. at most the PACKED size *)
Theorem C20_first_stage_held_bounded :
  forall (S : Type) (dstep : S -> bytes -> Z -> S * bytes) (held : S -> Z),
    (forall s c ml, held (fst (dstep s c ml)) <= held s + zlen c) ->
    forall (L0 : Z) (calls : list (Z * nat)) (st st' : dstate S) (outs : bytes) (s0 : S) (t0 : list S),
      book_inv L0 st -> consumed st <= input_size st -> stages st = s0 :: t0 ->
      decompress_seq dstep st calls = Ok (st', outs) ->
      exists s' t', stages st' = s' :: t' /\
                    held s' <= held s0 + (consumed st' - consumed st) /\
                    consumed st' <= input_size st.
Proof. exact first_stage_held_bounded. Qed.
Print Assumptions C20_first_stage_held_bounded.

(* ---- decoders that honour max_length up to c bytes ------------------------- *)
Theorem C20_live_bytes_bounded_slack :
  forall (S : Type) (dstep : S -> bytes -> Z -> S * bytes) (nearly : S -> Prop) (c : Z),
    0 <= c ->
    (forall s d ml, nearly s -> nearly (fst (dstep s d ml))) ->
    (forall s d ml, nearly s -> 0 <= ml -> zlen (snd (dstep s d ml)) <= ml + c) ->
    forall (M : Z) (st st' : dstate S) (ml : Z) (rd : nat) (out : bytes),
      buf_inv st -> last_ok nearly (stages st) -> 0 <= ml <= M ->
      zlen (buf st) <= M + c ->
      decompress dstep st ml rd = Ok (st', out) ->
      buf_inv st' /\ last_ok nearly (stages st') /\
      zlen out <= ml /\ tmp_len st st' out <= ml + c /\
      zlen (buf st') <= M + c /\
      managed st st' out <= 4 * M + 3 * c + Z.max 0 (block_size st) /\
      block_size st' = block_size st.
Proof. exact live_bytes_bounded_slack. Qed.
Print Assumptions C20_live_bytes_bounded_slack.

Theorem C20_worker_live_bounded_slack :
  forall (S : Type) (dstep : S -> bytes -> Z -> S * bytes) (nearly : S -> Prop) (c : Z),
    0 <= c ->
    (forall s d ml, nearly s -> nearly (fst (dstep s d ml))) ->
    (forall s d ml, nearly s -> 0 <= ml -> zlen (snd (dstep s d ml)) <= ml + c) ->
    forall (fuel : nat) (st st' : dstate S) (size mb : Z) (sched : list nat) (out : bytes) (pk : Z),
      buf_inv st -> last_ok nearly (stages st) -> 0 <= mb -> zlen (buf st) <= mb + c ->
      worker_peak dstep fuel st size mb sched = Ok (st', out, pk) ->
      pk <= 4 * mb + 3 * c + Z.max 0 (block_size st) /\ zlen (buf st') <= mb + c /\
      block_size st' = block_size st.
Proof. exact worker_live_bounded_slack. Qed.
Print Assumptions C20_worker_live_bounded_slack.

Theorem C20_toy_live_bytes_bounded_slack :
  forall (K M : Z) (st st' : dstate toy_state) (ml : Z) (rd : nat) (out : bytes),
    buf_inv st -> last_ok (mtoy_slack K) (stages st) -> 0 <= ml <= M ->
    zlen (buf st) <= M + Z.max 0 K ->
    decompress mtoy_dstep st ml rd = Ok (st', out) ->
    buf_inv st' /\ last_ok (mtoy_slack K) (stages st') /\
    zlen out <= ml /\ tmp_len st st' out <= ml + Z.max 0 K /\
    zlen (buf st') <= M + Z.max 0 K /\
    managed st st' out <= 4 * M + 3 * Z.max 0 K + Z.max 0 (block_size st) /\
    block_size st' = block_size st.
Proof. exact toy_live_bytes_bounded_slack. Qed.
Print Assumptions C20_toy_live_bytes_bounded_slack.

Example C20_live_bytes_bounded_slack_applies :
  let st := init_state [toy_st 0 0 []; toy_st 4 7 []] [100; 700] 9 4 [1; 2; 3; 4; 5; 6; 7; 8; 9] in
  buf_inv st /\ last_ok (mtoy_slack 6) (stages st) /\
  exists st' outs, decompress_seq mtoy_dstep st [(10, 9%nat); (3, 9%nat)] = Ok (st', outs) /\
                   zlen outs = 13 /\ zlen (buf st') = 4 /\ pos st' = 3.
Proof. exact live_bytes_bounded_slack_applies. Qed.

(* ---- decoders that ignore max_length -------------------------------------- *)
Theorem C20_carry_bounded_general :
  forall (S : Type) (dstep : S -> bytes -> Z -> S * bytes) (tame : S -> Prop) (r c0 : Z),
    1 <= r -> 0 <= c0 ->
    (forall s c ml, tame s -> tame (fst (dstep s c ml))) ->
    (forall s c ml, tame s -> zlen (snd (dstep s c ml)) <= r * zlen c + c0) ->
    forall (st st' : dstate S) (ml : Z) (rd : nat) (out : bytes),
      buf_inv st -> Forall tame (stages st) ->
      decompress dstep st ml rd = Ok (st', out) ->
      let B := exp_iter r c0 (length (stages st)) (Z.max 0 (block_size st)) in
      zlen (buf st') <= Z.max (zlen (buf st)) B /\
      tmp_len st st' out <= B /\
      buf_inv st' /\ Forall tame (stages st') /\
      length (stages st') = length (stages st) /\ block_size st' = block_size st /\
      read_len st st' <= Z.max 0 (block_size st) /\
      (0 <= ml -> zlen out <= ml).
Proof. exact carry_bounded_general. Qed.
Print Assumptions C20_carry_bounded_general.

Theorem C20_carry_bounded_seq :
  forall (S : Type) (dstep : S -> bytes -> Z -> S * bytes) (tame : S -> Prop) (r c0 : Z),
    1 <= r -> 0 <= c0 ->
    (forall s c ml, tame s -> tame (fst (dstep s c ml))) ->
    (forall s c ml, tame s -> zlen (snd (dstep s c ml)) <= r * zlen c + c0) ->
    forall (calls : list (Z * nat)) (st st' : dstate S) (outs : bytes),
      fresh st -> Forall tame (stages st) ->
      decompress_seq dstep st calls = Ok (st', outs) ->
      zlen (buf st') <= exp_iter r c0 (length (stages st)) (Z.max 0 (block_size st)).
Proof. exact carry_bounded_seq. Qed.
Print Assumptions C20_carry_bounded_seq.

(* a single coder: one input block's expansion *)
Theorem C20_carry_bounded_single :
  forall (S : Type) (dstep : S -> bytes -> Z -> S * bytes) (tame : S -> Prop) (r c0 : Z),
    1 <= r -> 0 <= c0 ->
    (forall s c ml, tame s -> tame (fst (dstep s c ml))) ->
    (forall s c ml, tame s -> zlen (snd (dstep s c ml)) <= r * zlen c + c0) ->
    forall (st st' : dstate S) (calls : list (Z * nat)) (outs : bytes),
      fresh st -> Forall tame (stages st) -> length (stages st) = 1%nat ->
      decompress_seq dstep st calls = Ok (st', outs) ->
      zlen (buf st') <= r * Z.max 0 (block_size st) + c0.
Proof. exact carry_bounded_single. Qed.
Print Assumptions C20_carry_bounded_single.

Theorem C20_live_bounded_general :
  forall (S : Type) (dstep : S -> bytes -> Z -> S * bytes) (tame : S -> Prop) (r c0 : Z),
    1 <= r -> 0 <= c0 ->
    (forall s c ml, tame s -> tame (fst (dstep s c ml))) ->
    (forall s c ml, tame s -> zlen (snd (dstep s c ml)) <= r * zlen c + c0) ->
    forall (st st' : dstate S) (ml : Z) (rd : nat) (out : bytes),
      buf_inv st -> Forall tame (stages st) -> 0 <= ml ->
      decompress dstep st ml rd = Ok (st', out) ->
      let B := exp_iter r c0 (length (stages st)) (Z.max 0 (block_size st)) in
      zlen (buf st) <= B ->
      managed st st' out <= 3 * B + ml + Z.max 0 (block_size st) /\
      call_chain_peak dstep st st' ml <= 2 * B /\ zlen (buf st') <= B.
Proof. exact live_bounded_general. Qed.
Print Assumptions C20_live_bounded_general.

(* ---- the full-strength statement (every chain within 2*max_length + block) is false ---- *)
Theorem C20_live_bytes_bounded_any_chain_refuted :
  exists (st st' : dstate toy_state) (ml : Z) (rd : nat) (out : bytes),
    clean st /\ stages st <> [] /\ 0 <= ml /\
    decompress mtoy_dstep st ml rd = Ok (st', out) /\
    zlen out = ml /\ zlen (buf st') = 250 * block_size st - ml /\
    ~ zlen (buf st') <= ml /\
    ~ managed st st' out <= 2 * ml + Z.max 0 (block_size st).
Proof. exact live_bytes_bounded_any_chain_refuted. Qed.
Print Assumptions C20_live_bytes_bounded_any_chain_refuted.

(* exact carry-over of an expander of ratio k *)
Theorem C20_expander_carry_exact :
  forall (k bsz ml z : Z) (fp : bytes),
    0 < ml -> 0 < bsz -> bsz <= zlen fp -> ml < k * bsz -> 0 < z ->
    exists st' out,
      decompress mtoy_dstep (init_state [toy_st 2 k []] [z] (zlen fp) bsz fp) ml (length fp)
        = Ok (st', out) /\
      zlen out = ml /\ zlen (buf st') = k * bsz - ml /\ pos st' = 0.
Proof. exact expander_carry_exact. Qed.
Print Assumptions C20_expander_carry_exact.

(* no bound in max_length and block_size alone *)
Theorem C20_carry_unbounded_in_ratio :
  forall ml M : Z, 0 < ml ->
    exists k st' out,
      decompress mtoy_dstep (init_state [toy_st 2 k []] [k] 1 1 [7]) ml 1 = Ok (st', out) /\
      zlen out = ml /\ M < zlen (buf st').
Proof. exact carry_unbounded_in_ratio. Qed.
Print Assumptions C20_carry_unbounded_in_ratio.

(* ---- write side ------------------------------------------------------------ *)
Theorem C20_compress_live_bounded :
  forall (C : Type) (cstep : C -> bytes -> C * bytes) (cheld : C -> Z) (cgood : C -> Prop) (Hc eb : Z),
    0 <= Hc + eb ->
    (forall s c, cgood s -> cgood (fst (cstep s c))) ->
    (forall s, cgood s -> cheld s <= Hc) ->
    (forall s c, cgood s -> zlen (snd (cstep s c)) <= cheld s + zlen c + eb) ->
    forall (fuel : nat) (ss : list C) (fd : bytes) (bs : Z) (sched : list nat)
           (ss' : list C) (w : bytes) (n pk : Z) (log : list (Z * Z)),
      Forall cgood ss -> 0 <= bs ->
      compress_loop cstep fuel ss fd bs sched = Ok (ss', w, n, pk, log) ->
      pk <= 2 * bs + 2 * Z.of_nat (length ss) * (Hc + eb) /\
      Forall (fun p => 0 < fst p <= bs) log /\ n <= zlen fd /\ Forall cgood ss'.
Proof. exact compress_live_bounded. Qed.
Print Assumptions C20_compress_live_bounded.

(* ---- the contracts are satisfiable: toy instances ---------------------------- *)
Theorem C20_toy_live_bytes_bounded :
  forall (st st' : dstate toy_state) (ml : Z) (rd : nat) (out : bytes),
    clean st -> last_ok mtoy_honest (stages st) -> 0 <= ml ->
    decompress mtoy_dstep st ml rd = Ok (st', out) ->
    clean st' /\ last_ok mtoy_honest (stages st') /\
    zlen out <= ml /\ zlen (buf st') <= ml /\
    managed st st' out <= 2 * ml + Z.max 0 (block_size st) /\
    live mtoy_held st st' out <= 2 * ml + Z.max 0 (block_size st) + sum_held mtoy_held (stages st') /\
    block_size st' = block_size st.
Proof. exact toy_live_bytes_bounded. Qed.
Print Assumptions C20_toy_live_bytes_bounded.

Theorem C20_toy_carry_bounded :
  forall (K : Z) (st st' : dstate toy_state) (calls : list (Z * nat)) (outs : bytes),
    fresh st -> Forall (mtoy_tame K) (stages st) ->
    decompress_seq mtoy_dstep st calls = Ok (st', outs) ->
    zlen (buf st') <= exp_iter (Z.max 1 K) 0 (length (stages st)) (Z.max 0 (block_size st)).
Proof. exact toy_carry_bounded. Qed.
Print Assumptions C20_toy_carry_bounded.

Theorem C20_toy_held_step :
  forall (s : toy_state) (c : bytes) (ml : Z),
    mtoy_held (fst (mtoy_dstep s c ml)) <= mtoy_held s + zlen c.
Proof. exact mtoy_held_step. Qed.
Print Assumptions C20_toy_held_step.

Theorem C20_toy_first_stage_held_bounded :
  forall (calls : list (Z * nat)) (s0 : toy_state) (t0 : list toy_state)
         (us : list Z) (isz bsz : Z) (fp : bytes) (st' : dstate toy_state) (outs : bytes),
    0 <= isz ->
    decompress_seq mtoy_dstep (init_state (s0 :: t0) us isz bsz fp) calls = Ok (st', outs) ->
    exists s' t', stages st' = s' :: t' /\ mtoy_held s' <= mtoy_held s0 + consumed st' /\ consumed st' <= isz.
Proof. exact toy_first_stage_held_bounded. Qed.
Print Assumptions C20_toy_first_stage_held_bounded.

Example C20_first_stage_held_applies :
  exists st' outs,
    decompress_seq mtoy_dstep (init_state [toy_st 3 4 []] [1000] 9 4 [1; 2; 3; 4; 5; 6; 7; 8; 9])
                   [(4, 9%nat); (4, 9%nat)] = Ok (st', outs) /\
    sum_held mtoy_held (stages st') = 6 /\ consumed st' = 8.
Proof. exact first_stage_held_applies. Qed.

Theorem C20_toy_compress_live_bounded :
  forall (K : Z) (fuel : nat) ss fd bs sched ss' w n pk log,
    0 <= K -> Forall (ctoy_good K) ss -> 0 <= bs ->
    compress_loop ctoy_step fuel ss fd bs sched = Ok (ss', w, n, pk, log) ->
    pk <= 2 * bs + 2 * Z.of_nat (length ss) * (K + 0) /\
    Forall (fun p => 0 < fst p <= bs) log /\ n <= zlen fd /\ Forall (ctoy_good K) ss'.
Proof. exact toy_compress_live_bounded. Qed.
Print Assumptions C20_toy_compress_live_bounded.

(* hypotheses met by concrete non-trivial states *)
Example C20_live_bytes_bounded_applies :
  let st := init_state [toy_st 0 0 []; toy_st 3 5 []] [100; 500] 9 4 [1; 2; 3; 4; 5; 6; 7; 8; 9] in
  clean st /\ last_ok mtoy_honest (stages st) /\
  exists st' out, decompress mtoy_dstep st 12 9 = Ok (st', out) /\ zlen out = 10 /\
                  managed st st' out = 24 /\ sum_held mtoy_held (stages st') = 2.
Proof. exact live_bytes_bounded_applies. Qed.

Example C20_carry_bounded_applies :
  let st := init_state [toy_st 2 7 []; toy_st 0 0 []] [1000; 1000] 9 4 [1; 2; 3; 4; 5; 6; 7; 8; 9] in
  fresh st /\ Forall (mtoy_tame 7) (stages st) /\
  exists st' outs, decompress_seq mtoy_dstep st [(5, 9%nat); (5, 9%nat)] = Ok (st', outs) /\
                   zlen (buf st') = 23 /\
                   exp_iter (Z.max 1 7) 0 (length (stages st)) (Z.max 0 (block_size st)) = 196.
Proof. exact carry_bounded_applies. Qed.

Example C20_compress_loop_applies :
  Forall (ctoy_good 3) [(2, []); (3, [])] /\
  compress_loop ctoy_step 10 [(2, []); (3, [])] [1; 2; 3; 4; 5; 6; 7; 8; 9; 10] 4 [4%nat; 3%nat]
  = Ok ([(2, [9; 10]); (3, [6; 7; 8])], [1; 2; 3; 4; 5], 10, 6, [(4, 0); (3, 2); (3, 3)]).
Proof. exact compress_loop_applies. Qed.

(* the same member through an expander (ratio 10) and through an honest expander:
   (output, peak of managed bytes, final len _buf) *)
Example C20_worker_peak_expander :
  mem_toy_worker_t (TL [TI 100; TL [TL [TI 2; TI 10; TL []]]; TL [TI 80]; TI 8; TI 4;
                        TL (map TI [1; 2; 3; 4; 5; 6; 7; 8]); TI 80; TI 8; TL []])
  = TL [TI 0; TL [t_bytes (rep_each 10 [1; 2; 3; 4; 5; 6; 7; 8]); TI 116; TI 32]].
Proof. exact worker_peak_expander. Qed.

Example C20_worker_peak_honest :
  mem_toy_worker_t (TL [TI 100; TL [TL [TI 3; TI 10; TL []]]; TL [TI 80]; TI 8; TI 4;
                        TL (map TI [1; 2; 3; 4; 5; 6; 7; 8]); TI 80; TI 10; TL []])
  = TL [TI 0; TL [t_bytes (rep_each 10 [1; 2; 3; 4; 5; 6; 7; 8]); TI 24; TI 0]].
Proof. exact worker_peak_honest. Qed.

(* ---- third wave (stage 7): SevenZipDecompressor._decompress / _read_data / decompress as translated on this run from
   py7zr/compressor.py (gen/DecompChain.v) ARE Decomp.v's run_chain / read_data / decompress: for every object state, every
   file content, every max_length and every read-schedule element rd (the most this call's fp.read returns), with the same
   abstract stage decoders `dstep` on both sides.  DecompGen.st_of o fp is the model state of the object o with the unread
   file fp; DecompGen.of_st st digest delivered the object of a model state (self.digest / self._delivered are not in
   Decomp.v's state).  The digest goes through the generated helpers.calculate_crc32 (fuel for its block loop). ---- *)

(* every theorem of this file about `decompress dstep st ml rd = Ok (st', out)` applies to a call of the generated method that
   returns: the model call it stands for *)
Theorem C20_gen_decompress_is_model_call :
  forall (stage : Type) (dstep : stage -> bytes -> Z -> stage * bytes) (zcrc32 : bytes -> Z -> Z)
         (self o' : DecompChain.SevenZipDecompressor stage) fp fp' fuel ml rd out,
  DecompChain.SevenZipDecompressor_decompress stage dstep zcrc32 self fp fuel ml rd = Ok ((o', out), fp') ->
  decompress dstep (DecompGen.st_of stage self fp) ml rd = Ok (DecompGen.st_of stage o' fp', out).
Proof. exact DecompGen.gen_decompress_ok_inv. Qed.
Print Assumptions C20_gen_decompress_is_model_call.
