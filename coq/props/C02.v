(* C02 -- Directory tree round trip with metadata (writeall -> extractall).
   This file holds only statements, `exact`, and Print Assumptions.  The model is coq/theories/Mode.v
   (transcription of _make_file_info, ArchiveFile, _writeall, _find_link_target, _sanitize_archive_arcname,
   _extract, _extract_single), FileTime.v (ArchiveTimestamp in binary64); proofs in ModeProofs.v, Walk.v. *)
From P7 Require Import Prelude Mode ModeProofs Walk FileTime.
From Coq Require Import Reals Sorting.Sorted.
From Flocq Require Import Core BinarySingleNaN.
Open Scope Z_scope.

(* ------------------------------------------------------------------ (1) attribute coding *)
(* for EVERY integer st_mode (in particular every value of st_mode & 0xFFFF): the word _make_file_info writes
   for a file / directory / link decodes, through ArchiveFile, to the same kind and to S_IMODE(st_mode), and
   fits the "<L" it is written with *)
Theorem C02_mode_roundtrip : forall (k : kind) (st_mode : Z),
  let a := attributes_of k st_mode in
  posix_mode (Some a) = Some (S_IMODE st_mode)
  /\ entry_kind (Some a) = Some k
  /\ is_directory (Some a) = kind_eqb k KDir
  /\ is_symlink (Some a) = kind_eqb k KLink
  /\ is_junction (Some a) = false /\ is_socket (Some a) = false /\ is_readonly (Some a) = false
  /\ 0 <= a < 2 ^ 32.
Proof. exact mode_roundtrip. Qed.
Print Assumptions C02_mode_roundtrip.

Theorem C02_mode_roundtrip_16 : forall k st_mode, 0 <= st_mode < 65536 ->
  posix_mode (Some (attributes_of k st_mode)) = Some (Z.land st_mode 4095)
  /\ entry_kind (Some (attributes_of k st_mode)) = Some k.
Proof. exact mode_roundtrip_16. Qed.
Print Assumptions C02_mode_roundtrip_16.

(* the permission bits of a node survive the st_mode the walk forms from them *)
Theorem C02_imode_of_walk : forall i, 0 <= i < 4096 ->
  S_IMODE (Z.lor S_IFREG i) = i /\ S_IMODE (Z.lor S_IFDIR i) = i /\ S_IMODE (Z.lor S_IFLNK i) = i.
Proof. exact imode_of_walk. Qed.
Print Assumptions C02_imode_of_walk.

(* the branch of _make_file_info follows the type bits of lstat()/stat() *)
Theorem C02_classify_kind : forall deref lmode smode k m,
  classify deref lmode smode = Some (k, m) ->
  match k with
  | KLink => S_ISLNK lmode = true /\ deref = false /\ m = lmode
  | KDir => S_ISDIR smode = true /\ (S_ISLNK lmode = true -> deref = true)
  | KFile => S_ISDIR smode = false /\ (S_ISLNK lmode = true -> deref = true)
  end.
Proof. exact classify_kind. Qed.
Print Assumptions C02_classify_kind.

Example C02_mode_example :
  attributes_of KDir 16877 = 1106083856 /\ attributes_of KLink 41471 = 2717877280
  /\ attributes_of KFile 35309 = 166559776 /\ posix_mode (Some 166559776) = Some 2541.
Proof. exact mode_roundtrip_example. Qed.

(* ------------------------------------------------------------------ (2) the tree *)
(* Every finite tree t -- directories (empty or not) with children in any number, files of any content
   (zero-length included), relative links whose text may coincide with anything -- with
     wf_tree: permission bits in 0..0o7777, children of a directory sorted by name (the canonical listing of a
              directory; it implies distinct names), names without '/', not '', '.', '..', link texts in
              normal form that stay, lexically, inside the tree;
     ctx_ok:  dereference off; the root has no entry exactly when writeall got the bare '.' without arcname
              (is_bare_dot), wherever the current directory is; the first component of the names is not
              letter+colon
   is rebuilt exactly -- kinds, contents, link texts, permission bits, FILETIMEs -- below the names
   arcpre c = arcname or path, inside an empty destination directory (Dir a b []). *)
Theorem C02_tree_roundtrip : forall (c : wctx) (t : node) (a b : Z),
  ctx_ok c t -> wf_tree (Z.of_nat (length (arcpre c))) t ->
  roundtrip c t (Dir a b []) = Ok (expected (arcpre c) t a b).
Proof. exact tree_roundtrip. Qed.
Print Assumptions C02_tree_roundtrip.

(* the two forms separately: writeall('.') without arcname ... *)
Theorem C02_roundtrip_dot : forall c m ft ch a b,
  c_deref c = false -> is_bare_dot c = true ->
  wf_tree 0 (Dir m ft ch) ->
  Forall (fun nc => drive_like (fst nc) = false) ch ->
  roundtrip c (Dir m ft ch) (Dir a b []) = Ok (Dir a b ch).
Proof. exact roundtrip_dot. Qed.
Print Assumptions C02_roundtrip_dot.

(* ... and writeall(path[, arcname]) where the root gets an entry (also '.' with an arcname; also a root that is
   a file or a link) *)
Theorem C02_roundtrip_named : forall c t a b,
  c_deref c = false -> arcpre c <> [] ->
  Forall wf_name (arcpre c) -> nodrive (arcpre c) ->
  wf_tree (Z.of_nat (length (arcpre c))) t ->
  roundtrip c t (Dir a b []) = Ok (expected (arcpre c) t a b).
Proof. exact roundtrip_named. Qed.
Print Assumptions C02_roundtrip_named.

(* dereference: what is archived is the tree with every link replaced by what it points to, and that tree is
   rebuilt *)
Theorem C02_walk_deref : forall c t t',
  c_deref c = true -> expand deref_fuel t [] [] t = Some t' -> sorted_tree t' ->
  walk c t = walk (set_deref c false) t'.
Proof. exact walk_deref. Qed.
Print Assumptions C02_walk_deref.

Theorem C02_deref_roundtrip : forall c t t' a b,
  c_deref c = true -> expand deref_fuel t [] [] t = Some t' ->
  ctx_ok (set_deref c false) t' -> wf_tree (Z.of_nat (length (arcpre c))) t' ->
  roundtrip c t (Dir a b []) = Ok (expected (arcpre c) t' a b).
Proof. exact deref_roundtrip. Qed.
Print Assumptions C02_deref_roundtrip.

(* the order of the members is the order of their paths (directory before its children, children sorted) *)
Theorem C02_items_sorted : forall t, sorted_tree t -> StronglySorted path_lt (map i_rel (items t)).
Proof. exact items_sorted. Qed.
Print Assumptions C02_items_sorted.

(* formerly witnesses against the round trip, repaired in /repo (fix: symbolic link targets were rewritten;
   fix: writeall() dropped the entry of the current working directory): now instances of it.
   writeall('.'): d/l -> "a" next to a top-level a keeps its text *)
Theorem C02_fixed_link_not_captured :
  wf_tree 0 t_capture /\ ctx_ok ctx_dot t_capture /\
  roundtrip ctx_dot t_capture (Dir 0 0 []) = Ok (expected [] t_capture 0 0).
Proof. exact fixed_capture. Qed.

(* writeall('.', 'x') of an empty directory: x is there with its mode and time *)
Theorem C02_fixed_dot_with_arcname :
  wf_tree 1 (Dir 448 7 []) /\ ctx_ok ctx_dotarc (Dir 448 7 []) /\
  roundtrip ctx_dotarc (Dir 448 7 []) (Dir 0 0 []) = Ok (Dir 0 0 [([120], Dir 448 7 [])]).
Proof. exact fixed_cwd. Qed.

(* without the side condition on letter+colon names the statement is false of the faithful model (known finding
   drive-letter-name); the witness is replayed on the implementation by tools/harness/c02.py *)
Theorem C02_tree_roundtrip_refuted :
  exists c t, c_deref c = false /\ wf_tree (Z.of_nat (length (arcpre c))) t /\
              roundtrip c t (Dir 0 0 []) <> Ok (expected (arcpre c) t 0 0).
Proof. exact tree_roundtrip_refuted. Qed.
Print Assumptions C02_tree_roundtrip_refuted.

(* writeall('.'): "c:foo" comes back as "foo" *)
Theorem C02_refuted_drive_letter :
  wf_tree 0 (Dir 493 1 [(n_cfoo, File 420 2 [1])]) /\
  roundtrip ctx_dot (Dir 493 1 [(n_cfoo, File 420 2 [1])]) (Dir 0 0 []) =
    Ok (Dir 0 0 [([102; 111; 111], File 420 2 [1])]).
Proof. exact refuted_drive. Qed.

(* a link text "./a" (not in normal form: outside wf_tree) comes back as "a" (known finding link-text-normalised) *)
Theorem C02_refuted_link_text :
  roundtrip ctx_rel (Dir 493 1 [(n_a, File 420 2 [1]); (n_l, Link [dot; n_a])]) (Dir 0 0 []) =
    Ok (Dir 0 0 [([115; 114; 99], Dir 493 1 [(n_a, File 420 2 [1]); (n_l, Link [n_a])])]).
Proof. exact refuted_linktext. Qed.

(* the hypotheses of C02_tree_roundtrip are met by a tree with an empty directory, a zero-length file, a
   directory of mode 0o500, links upwards and sideways -- in both forms *)
Example C02_example_wf : wf_tree 0 t_example /\ wf_tree 1 t_example.
Proof. exact example_wf. Qed.
Example C02_example_ctx : ctx_ok ctx_dot t_example /\ ctx_ok ctx_rel t_example.
Proof. exact (conj example_ctx_dot example_ctx_rel). Qed.
Example C02_example_roundtrip :
  roundtrip ctx_dot t_example (Dir 0 0 []) = Ok (expected [] t_example 0 0) /\
  roundtrip ctx_rel t_example (Dir 0 0 []) = Ok (expected [[115; 114; 99]] t_example 0 0).
Proof. exact example_roundtrip. Qed.

(* ------------------------------------------------------------------ (3) FILETIME conversion in binary64 *)
Open Scope R_scope.
(* for every finite binary64 t with 0 <= t <= 4.2e9 (1970 .. 2103): from_datetime(t) is defined, fits UINT64,
   and totimestamp of it is within 5 microseconds of t.  Depends on the axioms of the standard library's
   classical real numbers (named by Print Assumptions below) and on nothing else. *)
Theorem C02_mtime_error_bound : forall t : float64,
  is_finite t = true -> 0 <= B2R t <= 4200000000 ->
  exists ft : Z, from_datetime t = Some ft /\
    (0 <= ft < 2 ^ 64)%Z /\
    is_finite (totimestamp ft) = true /\
    Rabs (B2R (totimestamp ft) - B2R t) <= 5 / 1000000.
Proof. exact mtime_error_bound. Qed.
Print Assumptions C02_mtime_error_bound.

(* what the four roundings give: 2^-20 + 16e-7 + 2^-20 + 2^-22 < 3.746 microseconds *)
Theorem C02_mtime_error_bound_tight : forall t : float64,
  is_finite t = true -> 0 <= B2R t <= 4200000000 ->
  exists ft : Z, from_datetime t = Some ft /\
    Rabs (B2R (totimestamp ft) - B2R t) <= 3746 / 1000000000.
Proof. exact mtime_error_bound_tight. Qed.
Print Assumptions C02_mtime_error_bound_tight.

(* 1234567890.1234567 = 5178153039816375 * 2^-22 *)
Example C02_filetime_example :
  from_datetime (BofZe 5178153039816375 (-22)) = Some 128790414901234576%Z
  /\ float_me (totimestamp 128790414901234576) = Some (5178153039816376, -22)%Z.
Proof. vm_compute. split; reflexivity. Qed.
