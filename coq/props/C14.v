(* C14 -- A crash while writing never leaves a file that opens with wrong contents.
   Statements only; the model is theories/Trace.v (operations, sessions, reader), the proofs
   theories/TraceProofs.v.  `open_view img = Some h` : SignatureHeader._read and the next-header
   CRC check of _real_get_contents accept img and hand the bytes h to the header parser.
   `collides a b` : a <> b with the same CRC-32.  `mix n a b` : the first n bytes are a's, the rest b's. *)
From P7 Require Import Prelude PyPrims Crc32 Header Trace TraceProofs.
Open Scope Z_scope.

(* ---------------- create ---------------- *)

(* the placeholder (crc 1, ofs 2, size 3, crc 4) followed by anything is rejected, and so is every
   proper prefix of it *)
Theorem C14_skeleton_rejected : forall rest, open_view (skeleton32 ++ rest) = None.
Proof. exact skeleton_rejected. Qed.
Print Assumptions C14_skeleton_rejected.

Theorem C14_short_rejected : forall img, (length img < 32)%nat -> open_view img = None.
Proof. exact short_rejected. Qed.
Print Assumptions C14_short_rejected.

(* no byte string of length <= 3 has CRC-32 4: the placeholder's "next header" (size 3, crc 4)
   can never verify, wherever its offset points *)
Theorem C14_crc32_short_ne4 : forall b, (length b <= 3)%nat -> crc32 b <> 4.
Proof. exact crc32_short_ne4. Qed.
Print Assumptions C14_crc32_short_ne4.

(* EVERY crash point (k complete operations, j bytes of the next) of EVERY create session: the file is
   rejected, or it is byte for byte the complete archive, or -- only while the next-header SIZE field is
   being overwritten (bytes 9..15 of the 20 protected bytes in place), only for a header so long that
   the not yet written size bytes are non-zero -- the start-header CRC collides on these two specific
   strings AND the truncated next header has CRC 4 *)
Theorem C14_create_crash_safe : forall pre hdr k j h,
  open_view (image_at [] (create_trace pre hdr) k j) = Some h ->
  image_at [] (create_trace pre hdr) k j = final_image [] (create_trace pre hdr)
  \/ exists m, (9 <= m <= 15)%nat /\ 256 ^ (Z.of_nat m - 8) <= zlenb (concat hdr) /\
       collides (mix m (new20 0 pre hdr) skel20) (new20 0 pre hdr) /\ crc32 h = 4.
Proof. exact create_crash_safe_proof. Qed.
Print Assumptions C14_create_crash_safe.

(* next headers shorter than 256 bytes (every encoded header; raw headers of a few members):
   unconditional *)
Theorem C14_create_crash_safe_small : forall pre hdr k j h,
  zlenb (concat hdr) < 256 ->
  open_view (image_at [] (create_trace pre hdr) k j) = Some h ->
  image_at [] (create_trace pre hdr) k j = final_image [] (create_trace pre hdr).
Proof. exact create_crash_safe_small_proof. Qed.
Print Assumptions C14_create_crash_safe_small.

(* the completed session is accepted and presents the new next header *)
Theorem C14_create_final_accepts : forall pre hdr,
  32 + zlenb (concat pre) < 2 ^ 63 -> zlenb (concat hdr) < 2 ^ 63 ->
  open_view (final_image [] (create_trace pre hdr)) = Some (concat hdr).
Proof. exact create_final_accepts_proof. Qed.
Print Assumptions C14_create_final_accepts.

(* hypotheses met: a complete two-chunk session is accepted with its header; a crash inside the
   final rewrite of the same session is rejected *)
Example C14_create_example :
  open_view (image_at [] (create_trace [[104; 105]] [[1; 0]]) 19 0) = Some [1; 0] /\
  open_view (image_at [] (create_trace [[104; 105]] [[1; 0]]) 16 3) = None /\
  32 + zlenb (concat [[104; 105]]) < 2 ^ 63 /\ zlenb (concat [[1; 0]]) < 256.
Proof. repeat split; vm_compute; reflexivity. Qed.

(* why the argument needs the next-header CRC as well: the start-header CRC by itself CAN verify
   with the placeholder's offset/size/crc still in place (SignatureHeader._read passes) *)
Theorem C14_placeholder_fields_can_verify :
  sig_ok (MAGIC ++ [0; 4] ++ le_bytes 4 (start_crc 17 104 1114519173) ++ skel20 ++ repeatZ 7 121) = true.
Proof. exact placeholder_fields_can_verify. Qed.
Print Assumptions C14_placeholder_fields_can_verify.

(* `collides` is inhabited on 20-byte strings (so the residual disjuncts are not vacuous promises) *)
Example C14_collides_inhabited :
  collides (repeatZ 0 20) (repeatZ 0 12 ++ [1; 2; 3; 4; 209; 36; 120; 151]).
Proof. split; [discriminate | vm_compute; reflexivity]. Qed.

(* ---------------- append ---------------- *)

(* EVERY crash point of EVERY append session on an accepted archive [old], new data going to offset
   p >= 32 (the end of the packed streams): the file is rejected; or the signature header and
   everything below p are still the old ones and the next header read is the old one (or a CRC
   collision of it with what now lies in its place); or the file is the complete new archive; or the
   start-header CRC collides on the two specific strings (only before the next-header CRC field is
   reached) *)
Theorem C14_append_crash_safe : forall old p pre hdr oh,
  wf_bytes old = true -> open_view old = Some oh -> (32 <= p <= length old)%nat ->
  forall k j h,
  open_view (image_at old (append_trace old p pre hdr) k j) = Some h ->
  (firstn p (image_at old (append_trace old p pre hdr) k j) = firstn p old /\ (h = oh \/ collides h oh))
  \/ image_at old (append_trace old p pre hdr) k j = final_image old (append_trace old p pre hdr)
  \/ exists m, (m < 16)%nat /\
       collides (mix m (new20 (Z.of_nat p - 32) pre hdr) (old20 old)) (new20 (Z.of_nat p - 32) pre hdr).
Proof. exact append_crash_safe_proof. Qed.
Print Assumptions C14_append_crash_safe.

Theorem C14_append_final_accepts : forall old p pre hdr oh,
  open_view old = Some oh -> (32 <= p <= length old)%nat ->
  Z.of_nat p + zlenb (concat pre) < 2 ^ 63 -> zlenb (concat hdr) < 2 ^ 63 ->
  open_view (final_image old (append_trace old p pre hdr)) = Some (concat hdr).
Proof. exact append_final_accepts_proof. Qed.
Print Assumptions C14_append_final_accepts.

(* hypotheses met: a raw-header archive (2 data bytes, header 01 00), appended to at p = 34 *)
Definition ex_old : bytes :=
  MAGIC ++ [0; 4] ++ sig_fields (start_crc 2 2 (crc32 [1; 0])) 2 2 (crc32 [1; 0]) ++ [104; 105] ++ [1; 0].
Example C14_append_example :
  wf_bytes ex_old = true /\ open_view ex_old = Some [1; 0] /\ (32 <= 34 <= length ex_old)%nat /\
  open_view (image_at ex_old (append_trace ex_old 34 [[9]] [[1; 4; 0]]) 0 0) = Some [1; 0] /\
  open_view (image_at ex_old (append_trace ex_old 34 [[9]] [[1; 4; 0]]) 1 1) = None /\
  open_view (final_image ex_old (append_trace ex_old 34 [[9]] [[1; 4; 0]])) = Some [1; 4; 0].
Proof. repeat split; vm_compute; try reflexivity; lia. Qed.

(* ---------------- blocks reaching the disk out of order / lost ---------------- *)

(* what the reader is handed is determined by the 32 signature bytes, up to a CRC collision *)
Theorem C14_view_by_sig : forall a b ha hb, firstn 32 a = firstn 32 b ->
  open_view a = Some ha -> open_view b = Some hb -> ha = hb \/ collides ha hb.
Proof. exact view_by_sig_proof. Qed.
Print Assumptions C14_view_by_sig.

(* the new signature header on disk, ANY of the data/header blocks missing or stale *)
Theorem C14_create_sig_first_safe : forall pre hdr img h,
  32 + zlenb (concat pre) < 2 ^ 63 -> zlenb (concat hdr) < 2 ^ 63 ->
  firstn 32 img = firstn 32 (final_image [] (create_trace pre hdr)) ->
  open_view img = Some h -> h = concat hdr \/ collides h (concat hdr).
Proof. exact create_sig_first_safe_proof. Qed.
Print Assumptions C14_create_sig_first_safe.

Theorem C14_append_sig_first_safe : forall old p pre hdr oh img h,
  open_view old = Some oh -> (32 <= p <= length old)%nat ->
  Z.of_nat p + zlenb (concat pre) < 2 ^ 63 -> zlenb (concat hdr) < 2 ^ 63 ->
  firstn 32 img = firstn 32 (final_image old (append_trace old p pre hdr)) ->
  open_view img = Some h -> h = concat hdr \/ collides h (concat hdr).
Proof. exact append_sig_first_safe_proof. Qed.
Print Assumptions C14_append_sig_first_safe.

(* one of the four field writes of the final signature header lost (the field keeps the bytes CB/OB/ZB/HB
   it had): accepted only when that changes nothing, or by a collision confined to the 8-byte
   offset/size field whose upper half differs too *)
Theorem C14_sig_field_lost_safe : forall P C O Zf Hf CB OB ZB HB rest lost h,
  length P = 8%nat -> length C = 4%nat -> length O = 8%nat -> length Zf = 8%nat -> length Hf = 4%nat ->
  length CB = 4%nat -> length OB = 8%nat -> length ZB = 8%nat -> length HB = 4%nat ->
  wf_bytes C = true -> wf_bytes O = true -> wf_bytes Zf = true -> wf_bytes Hf = true ->
  wf_bytes CB = true -> wf_bytes OB = true -> wf_bytes ZB = true -> wf_bytes HB = true ->
  le_value C = crc32 (O ++ Zf ++ Hf) -> (lost < 4)%nat ->
  open_view (P ++ lost_sig24 lost C O Zf Hf CB OB ZB HB ++ rest) = Some h ->
  lost_sig24 lost C O Zf Hf CB OB ZB HB = C ++ O ++ Zf ++ Hf
  \/ (lost = 1%nat /\ skipn 4 OB <> skipn 4 O /\ collides (OB ++ Zf ++ Hf) (O ++ Zf ++ Hf))
  \/ (lost = 2%nat /\ skipn 4 ZB <> skipn 4 Zf /\ collides (O ++ ZB ++ Hf) (O ++ Zf ++ Hf)).
Proof. exact sig_field_lost_proof. Qed.
Print Assumptions C14_sig_field_lost_safe.

(* the shape is the one a session produces: the toy create session with the offset write (operation 16) lost *)
Example C14_sig_field_lost_example :
  image_lost [] (create_trace [[104; 105]] [[1; 0]]) 16 19 0 =
  (MAGIC ++ [0; 4]) ++
  lost_sig24 1 (le_bytes 4 (start_crc 2 2 (crc32 [1; 0]))) (le_bytes 8 2) (le_bytes 8 2) (le_bytes 4 (crc32 [1; 0]))
             (le_bytes 4 1) (le_bytes 8 2) (le_bytes 8 3) (le_bytes 4 4) ++ [104; 105; 1; 0].
Proof. vm_compute. reflexivity. Qed.

(* operation level: ONE data/header write of the session lost (operation 9+i of a create session, 1+i of
   an append session: the cursor moved, the bytes never reached the disk), EVERY later crash point:
   what the reader is handed is the new next header (create) / the old or the new one (append), up to
   the named collisions.  (Lost DATA is then caught by the per-member CRCs at extraction, not here.) *)
Theorem C14_create_lost_body_write_safe : forall pre hdr i k j h,
  32 + zlenb (concat pre) < 2 ^ 63 -> zlenb (concat hdr) < 2 ^ 63 ->
  (i < length (pre ++ hdr))%nat ->
  open_view (image_lost [] (create_trace pre hdr) (9 + i) k j) = Some h ->
  (h = concat hdr \/ collides h (concat hdr))
  \/ exists m, (9 <= m <= 15)%nat /\ 256 ^ (Z.of_nat m - 8) <= zlenb (concat hdr) /\
       collides (mix m (new20 0 pre hdr) skel20) (new20 0 pre hdr) /\ crc32 h = 4.
Proof. exact create_lost_body_write_safe_proof. Qed.
Print Assumptions C14_create_lost_body_write_safe.

Theorem C14_append_lost_body_write_safe : forall old p pre hdr oh i k j h,
  wf_bytes old = true -> open_view old = Some oh -> (32 <= p <= length old)%nat ->
  Z.of_nat p + zlenb (concat pre) < 2 ^ 63 -> zlenb (concat hdr) < 2 ^ 63 ->
  (i < length (pre ++ hdr))%nat ->
  open_view (image_lost old (append_trace old p pre hdr) (1 + i) k j) = Some h ->
  (h = oh \/ collides h oh) \/ (h = concat hdr \/ collides h (concat hdr))
  \/ exists m, (m < 16)%nat /\
       collides (mix m (new20 (Z.of_nat p - 32) pre hdr) (old20 old)) (new20 (Z.of_nat p - 32) pre hdr).
Proof. exact append_lost_body_write_safe_proof. Qed.
Print Assumptions C14_append_lost_body_write_safe.

(* hypotheses met: the toy create session with its data write (operation 9) lost and everything else on
   disk is accepted -- with the right next header (the two data bytes are zeros: extraction would report
   a CRC error) *)
Example C14_lost_body_write_example :
  (0 < length ([[104; 105]] ++ [[1; 0]]))%nat /\
  image_lost [] (create_trace [[104; 105]] [[1; 0]]) (9 + 0) 19 0 =
    firstn 32 (final_image [] (create_trace [[104; 105]] [[1; 0]])) ++ [0; 0; 1; 0] /\
  open_view (image_lost [] (create_trace [[104; 105]] [[1; 0]]) (9 + 0) 19 0) = Some [1; 0].
Proof. repeat split; vm_compute; try reflexivity; lia. Qed.

(* ---------------- down to the plain header: raw AND encoded headers, any decoder ---------------- *)

(* Since the repair "store the CRC of the plain header in an encoded header" every descriptor py7zr writes
   carries that CRC (desc_protected; checked on every recorded session by the harness), and Header._read
   compares it with what the packed header decodes to.  An append writes its data over the packed old
   header while the old signature header and descriptor still verify; with the CRC in the descriptor:
   EVERY crash point of EVERY append session, for EVERY decoder chain dec: if the reader ends up with a
   plain header h at all, then the file is the old archive below p and h is the OLD plain header (or a
   CRC collision of it), or the next header collides with the old one, or the file is the complete NEW
   archive, or the start-header CRC collides on the two named strings *)
Theorem C14_append_plain_crash_safe : forall lim dec old p pre hdr oh pho,
  wf_bytes old = true -> open_view old = Some oh -> plain_header lim dec old = Some pho ->
  desc_protected lim oh = true -> (32 <= p <= length old)%nat ->
  forall k j h,
  plain_header lim dec (image_at old (append_trace old p pre hdr) k j) = Some h ->
  (firstn p (image_at old (append_trace old p pre hdr) k j) = firstn p old /\ (h = pho \/ collides h pho))
  \/ (exists v, open_view (image_at old (append_trace old p pre hdr) k j) = Some v /\ collides v oh)
  \/ image_at old (append_trace old p pre hdr) k j = final_image old (append_trace old p pre hdr)
  \/ exists m, (m < 16)%nat /\
       collides (mix m (new20 (Z.of_nat p - 32) pre hdr) (old20 old)) (new20 (Z.of_nat p - 32) pre hdr).
Proof. exact append_plain_crash_safe_proof. Qed.
Print Assumptions C14_append_plain_crash_safe.

Theorem C14_create_plain_crash_safe : forall lim dec pre hdr k j h,
  plain_header lim dec (image_at [] (create_trace pre hdr) k j) = Some h ->
  image_at [] (create_trace pre hdr) k j = final_image [] (create_trace pre hdr)
  \/ exists m v, (9 <= m <= 15)%nat /\ 256 ^ (Z.of_nat m - 8) <= zlenb (concat hdr) /\
       collides (mix m (new20 0 pre hdr) skel20) (new20 0 pre hdr) /\
       open_view (image_at [] (create_trace pre hdr) k j) = Some v /\ crc32 v = 4.
Proof. exact create_plain_crash_safe_proof. Qed.
Print Assumptions C14_create_plain_crash_safe.

(* hypotheses met: an encoded-header archive whose descriptor carries the CRC (identity decoder); the crash
   right after the data write over its packed header is now REJECTED; the complete session is accepted *)
Example C14_append_plain_example :
  wf_bytes toy_old_crc = true /\ open_view toy_old_crc = Some toy_desc_crc /\
  desc_protected 1000 toy_desc_crc = true /\ plain_header 1000 copy_dec toy_old_crc = Some [1; 0] /\
  (32 <= 32 <= length toy_old_crc)%nat /\
  plain_header 1000 copy_dec (image_at toy_old_crc (append_trace toy_old_crc 32 [[7; 7]] [[1; 0]]) 1 2) = None /\
  plain_header 1000 copy_dec (final_image toy_old_crc (append_trace toy_old_crc 32 [[7; 7]] [[1; 0]])) = Some [1; 0].
Proof. repeat split; vm_compute; try reflexivity; lia. Qed.

(* ---------------- descriptors written BEFORE the repair (no CRC of the plain header) ---------------- *)

(* the reader still accepts them; appending to such an archive keeps the window open: if the first data
   write has the length of the packed header, the file left by a crash right after it opens with WHATEVER
   THE NEW DATA DECODES TO as its header (for every decoder chain dec) *)
Theorem C14_append_legacy_descriptor_window : forall lim dec old oh f pp ps us d,
  open_view old = Some oh -> enc_desc lim oh = Some (f, (pp, ps, us)) -> f_digestdefined f = false ->
  0 <= pp -> zlenb d = ps -> 32 + pp + ps <= 32 + sig_ofs old ->
  (Z.to_nat (32 + pp) + length d <= length old)%nat ->
  plain_header lim dec (write_at old (Z.to_nat (32 + pp)) d) = dec f d us.
Proof. exact append_encoded_window_proof. Qed.
Print Assumptions C14_append_legacy_descriptor_window.

Theorem C14_append_first_write : forall old p d pre hdr,
  image_at old (append_trace old p (d :: pre) hdr) 1 (length d) = write_at old p d.
Proof. exact append_first_write. Qed.
Print Assumptions C14_append_first_write.

(* witness (identity decoder): old and new plain header 01 00, the crash image presents 07 07 *)
Theorem C14_legacy_descriptor_witness :
  exists lim dec old p pre hdr k j h,
    wf_bytes old = true /\ (32 <= p <= length old)%nat /\
    plain_header lim dec old = Some [1; 0] /\
    plain_header lim dec (final_image old (append_trace old p pre hdr)) = Some [1; 0] /\
    plain_header lim dec (image_at old (append_trace old p pre hdr) k j) = Some h /\
    h <> [1; 0].
Proof. exact legacy_descriptor_witness_proof. Qed.
Print Assumptions C14_legacy_descriptor_witness.

Example C14_legacy_window_example :
  open_view toy_old = Some toy_desc /\ desc_protected 1000 toy_desc = false /\
  (exists f, enc_desc 1000 toy_desc = Some (f, (0, 2, 2)) /\ f_digestdefined f = false) /\
  32 + 0 + 2 <= 32 + sig_ofs toy_old /\ (Z.to_nat (32 + 0) + length [7; 7] <= length toy_old)%nat.
Proof.
  split; [vm_compute; reflexivity|]. split; [vm_compute; reflexivity|]. split.
  - eexists. split; vm_compute; reflexivity.
  - split; vm_compute; [discriminate | lia].
Qed.
