(* C17 -- Header values survive storage across their whole legal range.
   This file holds only statements, `exact`, and Print Assumptions.
   write_uint64/read_uint64/write_boolean/read_boolean/... below are the definitions in
   coq/gen/ArchiveinfoPrims.v, regenerated from py7zr/archiveinfo.py on every run. *)
From P7 Require Import Prelude PyPrims Number NumberGen BoolVec BoolVecGen.
From P7gen Require Import ArchiveinfoPrims.
From P7 Require Header HeaderGenPrims.
Open Scope Z_scope.

(* NUMBER: every value of 0..2^64-1 is written in 1..9 bytes that both py7zr's reader and the
   decoder transcribed from the specification read back, with any bytes following *)
Theorem C17_number_roundtrip : forall v, 0 <= v < 2^64 -> forall r, exists bs,
  write_uint64 v = Ok bs /\ read_uint64 (bs ++ r) = Ok (v, r) /\
  spec_number (bs ++ r) = Some (v, r) /\ (1 <= length bs <= 9)%nat.
Proof. exact number_roundtrip. Qed.
Print Assumptions C17_number_roundtrip.

(* py7zr reads every specification-conforming encoding (non-minimal ones included) *)
Theorem C17_number_reads_every_conforming : forall b r v r',
  is_byte b = true -> spec_number (b :: r) = Some (v, r') -> read_uint64 (b :: r) = Ok (v, r').
Proof. exact gen_read_uint64_spec. Qed.
Print Assumptions C17_number_reads_every_conforming.

(* out-of-range values are rejected by the writer, not wrapped *)
Theorem C17_number_rejects_out_of_range : forall v, v < 0 \/ 2^64 <= v -> write_uint64 v = Err EOther.
Proof. exact gen_write_uint64_rejects. Qed.
Print Assumptions C17_number_rejects_out_of_range.

(* the written bytes are the minimal encoding and are bytes *)
Theorem C17_number_minimal : forall v, 0 <= v < 2^64 ->
  write_uint64 v = Ok (number_enc v) /\ wf_bytes (number_enc v) = true.
Proof. intros v H. split; [exact (gen_write_uint64_eq v H) | exact (number_enc_wf v H)]. Qed.
Print Assumptions C17_number_minimal.

(* the known divergence on truncated input (unreachable behind the header CRC): recorded, not hidden *)
Theorem C17_number_truncated_diverges : read_uint64 [192; 1] = Ok (1, []) /\ spec_number [192; 1] = None.
Proof. exact read_uint64_truncated_diverges. Qed.
Print Assumptions C17_number_truncated_diverges.

(* boolean vectors of every length, both all-defined modes, undefined entries staying undefined *)
Theorem C17_boolean_roundtrip : forall l c r, exists bs,
  write_boolean l c = Ok bs /\ wf_bytes bs = true /\
  read_boolean (bs ++ r) (py_len l) c = Ok (l, r) /\ boolvec_dec (length l) c (bs ++ r) = Some (l, r).
Proof. exact gen_boolean_roundtrip. Qed.
Print Assumptions C17_boolean_roundtrip.

(* fixed-width fields *)
Theorem C17_uint32_roundtrip : forall v r, 0 <= v < 2^32 -> exists bs,
  write_uint32 v = Ok bs /\ length bs = 4%nat /\ read_uint32 (bs ++ r) = Ok ((v, bs), r).
Proof. exact gen_uint32_roundtrip. Qed.
Print Assumptions C17_uint32_roundtrip.

Theorem C17_uint64_roundtrip : forall v r, 0 <= v < 2^64 -> exists bs,
  write_real_uint64 v = Ok bs /\ length bs = 8%nat /\ read_real_uint64 (bs ++ r) = Ok ((v, bs), r).
Proof. exact gen_real_uint64_roundtrip. Qed.
Print Assumptions C17_uint64_roundtrip.

Theorem C17_bits_to_bytes : forall n, bits_to_bytes n = Ok ((n + 7) / 8).
Proof. exact gen_bits_to_bytes_all. Qed.
Print Assumptions C17_bits_to_bytes.

(* non-vacuity: a concrete non-trivial instance *)
Example C17_number_example : write_uint64 (2^56) = Ok [255; 0; 0; 0; 0; 0; 0; 0; 1]
  /\ read_uint64 [255; 0; 0; 0; 0; 0; 0; 0; 1; 7] = Ok (2^56, [7]).
Proof. vm_compute. split; reflexivity. Qed.

(* ---- third wave (stage 1): the generated primitives ARE the primitives of the hand model Header.v, on all inputs.
   Every theorem over Header.v (header_roundtrip, writer_conforms, assign_conforms ...) is about rd_number / wr_number /
   rd_boolean / wr_boolean / rd_fixed / wr_fixed; these equalities carry them over to the code as translated on this run.
   wf_bytes: the input is a byte string (every element in 0..255).  rd_boolean's resource guard `lim` (Err EFuel when a
   count exceeds it) has no counterpart in the code: the equality holds whenever the model does not answer EFuel. ---- *)
Theorem C17_gen_read_uint64_is_rd_number : forall bs, wf_bytes bs = true -> read_uint64 bs = Header.rd_number bs.
Proof. exact HeaderGenPrims.gen_read_uint64_rd_number. Qed.
Print Assumptions C17_gen_read_uint64_is_rd_number.

Theorem C17_gen_write_uint64_is_wr_number : forall v, write_uint64 v = Header.wr_number v.
Proof. exact HeaderGenPrims.gen_write_uint64_wr_number. Qed.
Print Assumptions C17_gen_write_uint64_is_wr_number.

Theorem C17_gen_read_boolean_is_rd_boolean : forall lim count c bs, wf_bytes bs = true ->
  Header.rd_boolean lim count c bs <> Err EFuel -> read_boolean bs count c = Header.rd_boolean lim count c bs.
Proof. exact HeaderGenPrims.gen_read_boolean_rd_boolean. Qed.
Print Assumptions C17_gen_read_boolean_is_rd_boolean.

Theorem C17_gen_write_boolean_is_wr_boolean : forall l c, write_boolean l c = Ok (Header.wr_boolean l c).
Proof. exact HeaderGenPrims.gen_write_boolean_wr_boolean. Qed.
Print Assumptions C17_gen_write_boolean_is_wr_boolean.

Theorem C17_gen_fixed_width_are_model : forall v bs,
  write_uint32 v = Header.wr_fixed 4 v /\ write_real_uint64 v = Header.wr_fixed 8 v /\
  read_uint32 bs = (do (x, r) <- Header.rd_fixed 4 bs; Ok ((x, firstn 4 bs), r)) /\
  read_real_uint64 bs = (do (x, r) <- Header.rd_fixed 8 bs; Ok ((x, firstn 8 bs), r)).
Proof.
  intros v bs. repeat split; [apply HeaderGenPrims.gen_write_uint32_wr_fixed | apply HeaderGenPrims.gen_write_real_uint64_wr_fixed
                             | apply HeaderGenPrims.gen_read_uint32_rd_fixed | apply HeaderGenPrims.gen_read_real_uint64_rd_fixed].
Qed.
Print Assumptions C17_gen_fixed_width_are_model.

(* the two hand models of a packed bit vector (BoolVec.v, Header.v) are the same function *)
Theorem C17_bits_enc_is_wr_bits : forall l, BoolVec.bits_enc l = Header.wr_bits l.
Proof. exact HeaderGenPrims.bits_enc_wr_bits. Qed.
Print Assumptions C17_bits_enc_is_wr_bits.
