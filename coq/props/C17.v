(* C17 -- property theorems.  Only statements, `exact`, and Print Assumptions. *)
From P7 Require Import Prelude PyPrims Number.
Open Scope Z_scope.

Example number_spec_vector : spec_number [192; 255; 255; 9] = Some (65535, [9]).
Proof. vm_compute. reflexivity. Qed.
Print Assumptions number_spec_vector.
