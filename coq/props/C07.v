(* C07 -- writer conformance.  Statements only. *)
From P7 Require Import Prelude PyPrims Number Header Spec.
Open Scope Z_scope.

(* a concrete non-trivial header graph of the kind py7zr builds: its model-writer output is accepted by the strict
   specification reader, is structurally valid and assigns the intended members (vm_compute); the general theorem
   (for every wf header) lives in SpecProofs.v once proved *)
Definition c07_example : header :=
  mkHeader
    (Some (mkStreams (Some (mkPack 0 1 [40] [] []))
                     (Some [mkFolder [mkCoder [33] 1 1 (Some [24])] [] [] [300] false None])
                     (Some (mkSub [2] (Some [100; 200]) [true; true] [305419896; 2596069104]))))
    (Some [mkFile false (Some [97]) None None (Some (Some 132223104000000000)) (Some (Some 32));
           mkFile true (Some [100]) None None (Some (Some 132223104000000001)) (Some (Some 16));
           mkFile false (Some [98; 8364; 128512]) None None (Some None) (Some (Some 32))])
    [false; true; false].

Example C07_writer_conforms_example :
  match write_header false 72 c07_example with
  | Ok bs => match s_header 1000 bs with
             | Ok sh => s_valid sh = true /\ map pl_kind (spec_plans sh) = [0; 2; 0]
                        /\ map pl_size (spec_plans sh) = [100; 0; 200]
                        /\ map pl_crc (spec_plans sh) = [Some 305419896; None; Some 2596069104]
             | Err _ => False
             end
  | Err _ => False
  end.
Proof. vm_compute. repeat split; reflexivity. Qed.
