(* C07 -- writer conformance: every header py7zr's write sessions emit is accepted by the STRICT
   specification reader, is structurally valid, and means exactly the members that were written.
   Statements, `exact`, Print Assumptions only; the proofs are in theories/SpecProofs.v.
   write_header (Header.v): hand model of Header.write / PackInfo / Folder / UnpackInfo / SubstreamsInfo /
   FilesInfo .write, differential-tested byte for byte; s_header, s_valid, spec_plans (Spec.v): the strict
   reader transcribed from the format text; wf_written, plans_of, sem_of (SpecProofs.v): the invariants of
   the header graphs py7zr writes, their intended member list, and the semantic header they denote. *)
From P7 Require Import Prelude PyPrims Number Header HeaderPrims Spec SpecProofs.
From P7 Require PackInfoGen.
From P7 Require HeaderGenPrims FolderGen.
From P7 Require SubstreamsGen.
From P7 Require StreamsGen.
From P7 Require FilesGen.
From P7 Require Crc32 Trace Enc SigGen.
From P7gen Require ArchiveinfoSig.
From P7 Require EncHdrGen.
From P7gen Require ArchiveinfoRecords.
Open Scope Z_scope.

(* a concrete non-trivial header graph of the kind py7zr builds: its model-writer output is accepted by the strict
   specification reader, is structurally valid and assigns the intended members (vm_compute) *)
Definition c07_example : header :=
  mkHeader
    (Some (mkStreams (Some (mkPack 0 1 [40] [] []))
                     (Some [mkFolder [mkCoder [33] 1 1 (Some [24])] [] [] [300] false None])
                     (Some (mkSub [2] (Some [100; 200]) [true; true] [305419896; 2596069104]))))
    (Some [mkFile false (Some [97]) None None (Some (Some 132223104000000000)) (Some (Some 32));
           mkFile true (Some [100]) None None (Some (Some 132223104000000001)) (Some (Some 16));
           mkFile false (Some [98; 8364; 128512]) None None (Some None) (Some (Some 32))])
    [false; true; false].

Example C07_writer_conforms_example :
  match write_header false 72 c07_example with
  | Ok bs => match s_header 1000 bs with
             | Ok sh => s_valid sh = true /\ map pl_kind (spec_plans sh) = [0; 2; 0]
                        /\ map pl_size (spec_plans sh) = [100; 0; 200]
                        /\ map pl_crc (spec_plans sh) = [Some 305419896; None; Some 2596069104]
             | Err _ => False
             end
  | Err _ => False
  end.
Proof. vm_compute. repeat split; reflexivity. Qed.

(* ---- the general theorem ---- *)
(* for every header graph satisfying the invariants of py7zr's write sessions, every digest mode and every
   file position: the bytes the writer emits are accepted by the strict reader (exact NUMBERs, exact property
   sizes, CRCs for defined entries only, no trailing bytes), are structurally valid, and denote exactly the
   intended members (name, kind, folder, offset, size, CRC, mtime, attributes of every entry) *)
Theorem C07_writer_conforms : forall lim en pos h bs,
  wf_written lim h -> write_header en pos h = Ok bs ->
  exists sh, s_header lim bs = Ok sh /\ s_valid sh = true /\ spec_plans sh = plans_of h.
Proof. exact writer_conforms. Qed.
Print Assumptions C07_writer_conforms.

(* stronger: the strict reader returns this semantic header (pack info, folders, sub-stream counts, sizes,
   CRCs, entries, EmptyFile vector) *)
Theorem C07_writer_conforms_sem : forall lim en pos h bs,
  wf_written lim h -> write_header en pos h = Ok bs -> s_header lim bs = Ok (sem_of en h).
Proof. exact writer_conforms_sem. Qed.
Print Assumptions C07_writer_conforms_sem.

(* the invariants, spelled out for a header with all sections (Header.initialize creates them together) *)
Theorem C07_wf_written_spelled_out : forall lim p fs sub files ef,
  wf_written_b lim (mkHeader (Some (mkStreams (Some p) (Some fs) (Some sub))) (Some files) ef) =
  (zlen fs <=? lim)
  && ((p_numstreams p =? zlen fs)
      && ((length (p_digestdefined p) =? 0)%nat || (zlen (p_digestdefined p) =? p_numstreams p)))
  && forallb (fun f =>
       let n := zlen (f_coders f) in
       (1 <=? n) && (n <=? 32) && (n <=? lim)
       && forallb (fun c => ((c_nin c =? 1) && (c_nout c =? 1))
                            && ((1 <=? zlen (c_method c)) && (zlen (c_method c) <=? 15))) (f_coders f)
       && pairs_eqb (f_bonds f) (map (fun i => (i + 1, i)) (py_range 0 (n - 1)))
       && (zlen (f_unpacksizes f) =? n)) fs
  && ((length (s_nums sub) =? length fs)%nat
      && (sumZ (s_nums sub) <=? lim)
      && (zlen (s_digestsdefined sub) =? sumZ (s_nums sub))
      && (zlen (Header.s_digests sub) =? sumZ (s_nums sub))
      && match s_sizes sub with
         | Some sz => forallb (fun x => 0 <=? x) sz && wf_sub_sizes (s_nums sub) fs sz
         | None => false
         end)
  && ((zlen files <=? lim)
      && forallb (fun f => match e_name f with Some n => wf_name_bs n | None => false end) files
      && (zlen ef =? count_true (map e_emptystream files)))
  && (zlen (filter (fun e => negb (e_emptystream e)) files) =? sumZ (s_nums sub)).
Proof. intros. reflexivity. Qed.
Print Assumptions C07_wf_written_spelled_out.

(* the hypotheses are met by a concrete non-trivial state (two folders, one with a two-coder chain,
   partially defined vectors, astral-plane and backslash names, a directory and an empty file) *)
Theorem C07_wf_written_example :
  wf_written 1000 ex_written /\
  map pl_kind (plans_of ex_written) = [0; 2; 0; 1; 0] /\
  map pl_folder (plans_of ex_written) = [0; -1; 0; -1; 1] /\
  map pl_offset (plans_of ex_written) = [0; 0; 100; 0; 0] /\
  map pl_size (plans_of ex_written) = [100; 0; 200; 0; 30] /\
  map pl_crc (plans_of ex_written) = [Some 1; None; Some 4294967295; None; None] /\
  map pl_mtime (plans_of ex_written) = [Some 132223104000000000; None; None; Some 1; Some 0].
Proof. exact (conj ex_written_wf ex_written_plans). Qed.
Print Assumptions C07_wf_written_example.

(* ---- section theorems: each strict section reader on what the corresponding .write emits ---- *)
Theorem C07_packinfo_strict : forall lim en nf p bs,
  wfw_pack nf p = true -> nf <= lim -> write_packinfo en p = Ok bs ->
  exists body, bs = 6 :: body /\
    forall r, s_packinfo lim (body ++ r) = Ok ((p_pos p, p_sizes p, sem_packcrcs en p), r).
Proof. exact s_packinfo_wr. Qed.
Print Assumptions C07_packinfo_strict.

Theorem C07_unpackinfo_strict : forall lim fs bs,
  zlen fs <= lim -> forallb (wfw_folder lim) fs = true -> write_unpackinfo fs = Ok bs ->
  exists body, bs = 7 :: body /\ forall r, s_unpackinfo lim (body ++ r) = Ok (map sem_folder fs, r).
Proof. exact s_unpackinfo_wr. Qed.
Print Assumptions C07_unpackinfo_strict.

Theorem C07_substreams_strict : forall lim fs s sz bs,
  Forall (fun f => wfw_folder lim f = true) fs -> zlen fs <= lim ->
  wfw_sub lim fs s = true -> s_sizes s = Some sz -> (length (s_nums s) =? 0)%nat = false ->
  write_substreams s = Ok bs ->
  exists body, bs = 8 :: body /\
    forall r, s_substreams lim (map sem_folder fs) (body ++ r) =
              Ok ((s_nums s, sz, crc_opts (Header.s_digests s) (s_digestsdefined s)), r).
Proof. exact s_substreams_wr. Qed.
Print Assumptions C07_substreams_strict.

Theorem C07_files_strict : forall lim pos files ef bs,
  zlen files <= lim -> named_bs files = true -> write_files pos files ef = Ok bs ->
  exists body, bs = 5 :: body /\
    forall r, s_files lim (body ++ r) = Ok ((norm_files files, norm_emptyfiles files ef), r).
Proof. exact s_files_wr. Qed.
Print Assumptions C07_files_strict.

(* "file properties are encoded with the sizes the grammar requires": for EVERY list of entries (no
   hypothesis: partially defined vectors, astral-plane names, any position), FilesInfo.write emits a sequence
   of records  id, NUMBER(length of content), content  whose contents are exactly the bit vectors, names
   and value vectors of the grammar *)
Theorem C07_property_sizes_exact : forall pos files ef bs,
  write_files pos files ef = Ok bs ->
  exists recs,
    bs = [5] ++ number_enc (zlen files) ++ flat_map enc_record recs ++ [0] /\
    Forall (record_content files (norm_emptyfiles files ef)) recs.
Proof. exact property_sizes_exact. Qed.
Print Assumptions C07_property_sizes_exact.

(* ---- the clauses of wf_written are needed ---- *)
(* a NUL inside a name (accepted by writestr/write arcnames) is written as the terminator: the NAME record
   no longer holds one terminated string per entry and the strict reader rejects the header *)
Theorem C07_nul_in_name_refuted :
  exists bs, write_header false 32 q_nul_name = Ok bs /\ s_header 1000 bs = Err EBad7z /\
             ~ wf_written 1000 q_nul_name.
Proof. exact nul_in_name_refuted. Qed.
Print Assumptions C07_nul_in_name_refuted.

Theorem C07_sizes_sum_needed :
  exists bs sh, write_header false 32 q_sizes_sum = Ok bs /\ s_header 1000 bs = Ok sh /\
                map pl_size (spec_plans sh) = [100; 150] /\ map pl_size (plans_of q_sizes_sum) = [100; 200].
Proof. exact sizes_sum_needed. Qed.
Print Assumptions C07_sizes_sum_needed.

Theorem C07_data_count_needed :
  exists bs sh, write_header false 32 q_data_count = Ok bs /\ s_header 1000 bs = Ok sh /\ s_valid sh = false.
Proof. exact data_count_needed. Qed.
Print Assumptions C07_data_count_needed.

(* ---- third wave (stage 1): the header record writers as translated on this run (coq/gen/ArchiveinfoRecords.v, regenerated
   from py7zr/archiveinfo.py) are the writer of Header.v that writer_conforms is about: for EVERY object, the bytes
   PackInfo.write emits (or its failing) are write_packinfo's.  A generated writer returns (object after the call, bytes). ---- *)
Theorem C07_gen_PackInfo_write_is_write_packinfo : forall self : ArchiveinfoRecords.PackInfo,
  (do (o, out) <- ArchiveinfoRecords.PackInfo_write self; Ok out)
  = write_packinfo (ArchiveinfoRecords.PackInfo_enable_digests self) (PackInfoGen.pack_of self).
Proof. exact PackInfoGen.gen_PackInfo_write_eq_model. Qed.
Print Assumptions C07_gen_PackInfo_write_is_write_packinfo.

(* hence the section theorem, over the generated writer: what it emits is read back by the strict specification reader *)
Theorem C07_gen_packinfo_strict : forall lim nf (self o : ArchiveinfoRecords.PackInfo) bs,
  wfw_pack nf (PackInfoGen.pack_of self) = true -> nf <= lim -> ArchiveinfoRecords.PackInfo_write self = Ok (o, bs) ->
  exists body, bs = 6 :: body /\
    forall r, s_packinfo lim (body ++ r) =
      Ok ((p_pos (PackInfoGen.pack_of self), p_sizes (PackInfoGen.pack_of self),
           sem_packcrcs (ArchiveinfoRecords.PackInfo_enable_digests self) (PackInfoGen.pack_of self)), r).
Proof.
  intros lim nf self o bs Hwf Hnf Hw.
  pose proof (PackInfoGen.gen_PackInfo_write_eq_model self) as He. rewrite Hw in He. cbn [bind] in He.
  exact (s_packinfo_wr lim _ nf _ bs Hwf Hnf (eq_sym He)).
Qed.
Print Assumptions C07_gen_packinfo_strict.

(* the object after write(): only enable_digests changes *)
Theorem C07_gen_PackInfo_write_state : forall (self o : ArchiveinfoRecords.PackInfo) out,
  ArchiveinfoRecords.PackInfo_write self = Ok (o, out) ->
  o = ArchiveinfoRecords.mkPackInfo (ArchiveinfoRecords.PackInfo_packpos self) (ArchiveinfoRecords.PackInfo_numstreams self)
        (ArchiveinfoRecords.PackInfo_packsizes self) (ArchiveinfoRecords.PackInfo_packpositions self)
        (ArchiveinfoRecords.PackInfo_crcs self) (ArchiveinfoRecords.PackInfo_digestdefined self)
        (ArchiveinfoRecords.PackInfo_enable_digests self || any_true (ArchiveinfoRecords.PackInfo_digestdefined self)).
Proof. exact PackInfoGen.gen_PackInfo_write_state. Qed.
Print Assumptions C07_gen_PackInfo_write_state.

(* ---- third wave (stage 2): Folder.write and UnpackInfo.write (with_crcs = False, the main streams) as translated on this
   run are write_folder / write_unpackinfo, for every object.  Side condition, exactly: UnpackInfo.write asserts
   numfolders == len(folders) (the model has no separate count). ---- *)
Theorem C07_gen_Folder_write_is_write_folder : forall self : ArchiveinfoRecords.Folder,
  ArchiveinfoRecords.Folder_write self = write_folder (FolderGen.folder_of self).
Proof. exact FolderGen.gen_Folder_write_eq_model. Qed.
Print Assumptions C07_gen_Folder_write_is_write_folder.

Theorem C07_gen_UnpackInfo_write_is_write_unpackinfo : forall self : ArchiveinfoRecords.UnpackInfo,
  ArchiveinfoRecords.UnpackInfo_write self false =
  if ArchiveinfoRecords.UnpackInfo_numfolders self =? zlen (ArchiveinfoRecords.UnpackInfo_folders self)
  then write_unpackinfo (map FolderGen.folder_of (ArchiveinfoRecords.UnpackInfo_folders self)) else Err EOther.
Proof. exact FolderGen.gen_UnpackInfo_write_eq_model. Qed.
Print Assumptions C07_gen_UnpackInfo_write_is_write_unpackinfo.

(* hence the section theorem over the generated writer *)
Theorem C07_gen_unpackinfo_strict : forall lim (self : ArchiveinfoRecords.UnpackInfo) bs,
  let fs := map FolderGen.folder_of (ArchiveinfoRecords.UnpackInfo_folders self) in
  zlen fs <= lim -> forallb (wfw_folder lim) fs = true -> ArchiveinfoRecords.UnpackInfo_write self false = Ok bs ->
  exists body, bs = 7 :: body /\ forall r, s_unpackinfo lim (body ++ r) = Ok (map sem_folder fs, r).
Proof.
  intros lim self bs fs Hn Hwf Hw. rewrite FolderGen.gen_UnpackInfo_write_eq_model in Hw.
  destruct (_ =? _) in Hw; [|discriminate]. exact (s_unpackinfo_wr lim fs bs Hn Hwf Hw).
Qed.
Print Assumptions C07_gen_unpackinfo_strict.

Theorem C07_gen_write_crcs_is_wr_list : forall crcs, ArchiveinfoRecords.write_crcs crcs = wr_list (wr_fixed 4) crcs.
Proof. exact HeaderGenPrims.gen_write_crcs_wr_list. Qed.
Print Assumptions C07_gen_write_crcs_is_wr_list.

(* ---- third wave (stage 3): SubstreamsInfo.write as translated on this run is write_substreams, for every object. ---- *)
Theorem C07_gen_SubstreamsInfo_write_is_write_substreams : forall self : ArchiveinfoRecords.SubstreamsInfo,
  ArchiveinfoRecords.SubstreamsInfo_write self = write_substreams (SubstreamsGen.sub_of self).
Proof. exact SubstreamsGen.gen_SubstreamsInfo_write_eq_model. Qed.
Print Assumptions C07_gen_SubstreamsInfo_write_is_write_substreams.

(* hence the section theorem over the generated writer *)
Theorem C07_gen_substreams_strict : forall lim fs (self : ArchiveinfoRecords.SubstreamsInfo) sz bs,
  let s := SubstreamsGen.sub_of self in
  Forall (fun f => wfw_folder lim f = true) fs -> zlen fs <= lim ->
  wfw_sub lim fs s = true -> s_sizes s = Some sz -> (length (s_nums s) =? 0)%nat = false ->
  ArchiveinfoRecords.SubstreamsInfo_write self = Ok bs ->
  exists body, bs = 8 :: body /\ 
    forall r, s_substreams lim (map sem_folder fs) (body ++ r) =
              Ok ((s_nums s, sz, crc_opts (Header.s_digests s) (s_digestsdefined s)), r).
Proof.
  intros lim fs self sz bs s HF Hn Hwf Hsz Hne Hw. rewrite SubstreamsGen.gen_SubstreamsInfo_write_eq_model in Hw.
  exact (s_substreams_wr lim fs s sz bs HF Hn Hwf Hsz Hne Hw).
Qed.
Print Assumptions C07_gen_substreams_strict.

(* ---- third wave (stage 4): StreamsInfo.write as translated on this run is write_streams, for every object whose UnpackInfo
   (if any) has numfolders = len(folders) (UnpackInfo.write asserts it); enable_digests is the PackInfo's attribute. ---- *)
Theorem C07_gen_StreamsInfo_write_is_write_streams : forall self : ArchiveinfoRecords.StreamsInfo,
  (forall u, ArchiveinfoRecords.StreamsInfo_unpackinfo self = Some u ->
             ArchiveinfoRecords.UnpackInfo_numfolders u = zlen (ArchiveinfoRecords.UnpackInfo_folders u)) ->
  (do (o, out) <- ArchiveinfoRecords.StreamsInfo_write self; Ok out)
  = write_streams (StreamsGen.streams_digests self) (StreamsGen.streams_of self).
Proof. exact StreamsGen.gen_StreamsInfo_write_eq_model. Qed.
Print Assumptions C07_gen_StreamsInfo_write_is_write_streams.

(* ---- third wave (stage 5, pieces): write_utf16 and the FilesInfo writers _write_names / _write_attributes / _write_times
   (per key) / _are_there as translated on this run are wr_utf16 / write_names / write_attributes / write_times / any_true,
   for every object, errors included. ---- *)
Theorem C07_gen_write_utf16_is_wr_utf16 : forall s, ArchiveinfoRecords.write_utf16 s = wr_utf16 s.
Proof. exact FilesGen.gen_write_utf16. Qed.
Print Assumptions C07_gen_write_utf16_is_wr_utf16.

Theorem C07_gen_FilesInfo_write_names_is_write_names : forall self : ArchiveinfoRecords.FilesInfo,
  ArchiveinfoRecords.FilesInfo_write_names self = write_names (map FilesGen.file_of (ArchiveinfoRecords.FilesInfo_files self)).
Proof. exact FilesGen.gen_FilesInfo_write_names. Qed.
Print Assumptions C07_gen_FilesInfo_write_names_is_write_names.

Theorem C07_gen_FilesInfo_write_attributes_is_write_attributes : forall self : ArchiveinfoRecords.FilesInfo,
  ArchiveinfoRecords.FilesInfo_write_attributes self = write_attributes (map FilesGen.file_of (ArchiveinfoRecords.FilesInfo_files self)).
Proof. exact FilesGen.gen_FilesInfo_write_attributes. Qed.
Print Assumptions C07_gen_FilesInfo_write_attributes_is_write_attributes.

Theorem C07_gen_FilesInfo_write_times_are_write_times : forall (self : ArchiveinfoRecords.FilesInfo) p,
  let fs := map FilesGen.file_of (ArchiveinfoRecords.FilesInfo_files self) in
  ArchiveinfoRecords.FilesInfo_write_times_creationtime self [p] = write_times p e_ctime fs /\
  ArchiveinfoRecords.FilesInfo_write_times_lastaccesstime self [p] = write_times p e_atime fs /\
  ArchiveinfoRecords.FilesInfo_write_times_lastwritetime self [p] = write_times p e_mtime fs.
Proof.
  intros self p fs. repeat split; [apply FilesGen.gen_FilesInfo_write_times_creationtime
                                  | apply FilesGen.gen_FilesInfo_write_times_lastaccesstime
                                  | apply FilesGen.gen_FilesInfo_write_times_lastwritetime].
Qed.
Print Assumptions C07_gen_FilesInfo_write_times_are_write_times.

Theorem C07_gen_FilesInfo_are_there_is_any_true : forall v, ArchiveinfoRecords.FilesInfo_are_there v = Ok (any_true v).
Proof. exact FilesGen.gen_FilesInfo_are_there. Qed.
Print Assumptions C07_gen_FilesInfo_are_there_is_any_true.

(* ---- third wave (stage 5, whole writer): FilesInfo.write as translated on this run is write_files, for every object and every
   start position pos0 (= file.tell() when the method is entered, the explicit parameter that stands for the position of the
   file; the kDummy padding is computed from it).  The model's vector of EmptyFile bits is FilesGen.entry_flags: the flag the
   code keeps with each empty-stream entry (absent = False). ---- *)
Theorem C07_gen_FilesInfo_write_is_write_files : forall (self : ArchiveinfoRecords.FilesInfo) pos,
  ArchiveinfoRecords.FilesInfo_write self pos
  = write_files pos (map FilesGen.file_of (ArchiveinfoRecords.FilesInfo_files self)) (FilesGen.entry_flags (ArchiveinfoRecords.FilesInfo_files self)).
Proof. exact FilesGen.gen_FilesInfo_write. Qed.
Print Assumptions C07_gen_FilesInfo_write_is_write_files.

(* ---- third wave (stage 4, part 2): SignatureHeader.calccrc / write / _write_skeleton as translated on this run.  write and
   _write_skeleton start with file.seek(0, 0): the bytes below are what the file holds from offset 0.  A new archive
   (SignatureHeader(): version 0.4) with nextheaderofs set, then calccrc(size, crc), then write gives Enc.sig_header (the layout
   theorem of C20) = magic, version, Trace.sig_fields (Trace.start_crc ..) (the final writes of C09's sessions); the skeleton is
   Trace.skeleton32.  Side conditions exactly: the asserts of write (all four), 20 <= fuel for the CRC loop. ---- *)
Theorem C07_gen_SignatureHeader_calccrc_write_is_sig_header : forall ofs size hcrc fuel,
  (20 <= fuel)%nat -> 0 <= ofs -> 0 < size -> 0 <= hcrc ->
  (do o <- ArchiveinfoSig.SignatureHeader_calccrc SigGen.zcrc (SigGen.sig_new ofs) fuel size hcrc; ArchiveinfoSig.SignatureHeader_write o)
  = Enc.sig_header ofs size hcrc.
Proof. exact SigGen.gen_sig_calccrc_write. Qed.
Print Assumptions C07_gen_SignatureHeader_calccrc_write_is_sig_header.

Theorem C07_gen_SignatureHeader_calccrc_write_is_trace : forall ofs size hcrc fuel, (20 <= fuel)%nat ->
  0 <= ofs < 2 ^ 64 -> 0 < size < 2 ^ 64 -> 0 <= hcrc < 2 ^ 32 ->
  (do o <- ArchiveinfoSig.SignatureHeader_calccrc SigGen.zcrc (SigGen.sig_new ofs) fuel size hcrc; ArchiveinfoSig.SignatureHeader_write o)
  = Ok (MAGIC ++ [0; 4] ++ Trace.sig_fields (Trace.start_crc ofs size hcrc) ofs size hcrc).
Proof. exact SigGen.gen_sig_calccrc_write_trace. Qed.
Print Assumptions C07_gen_SignatureHeader_calccrc_write_is_trace.

Theorem C07_gen_SignatureHeader_write_skeleton_is_skeleton32 :
  ArchiveinfoSig.SignatureHeader_write_skeleton ArchiveinfoSig.SignatureHeader_init = Ok Trace.skeleton32.
Proof. exact (SigGen.gen_sig_write_skeleton ArchiveinfoSig.SignatureHeader_init eq_refl eq_refl). Qed.
Print Assumptions C07_gen_SignatureHeader_write_skeleton_is_skeleton32.

(* ---- third wave (stage 4, part 3): UnpackInfo.write(file, with_crcs=True) and HeaderStreamsInfo.write as translated on this run
   are Enc.write_unpackinfo_crcs and, for the object Header._encode_header builds (one packed stream, no packed CRC, one folder
   carrying the CRC-32 of the plain header), Enc.hdr_descriptor: the part of C20's layout theorem between the packed header and
   the signature header. ---- *)
Theorem C07_gen_UnpackInfo_write_crcs_is_model : forall self : ArchiveinfoRecords.UnpackInfo,
  ArchiveinfoRecords.UnpackInfo_write self true =
  if ArchiveinfoRecords.UnpackInfo_numfolders self =? zlen (ArchiveinfoRecords.UnpackInfo_folders self)
  then Enc.write_unpackinfo_crcs (map FolderGen.folder_of (ArchiveinfoRecords.UnpackInfo_folders self)) else Err EOther.
Proof. exact EncHdrGen.gen_UnpackInfo_write_crcs_eq_model. Qed.
Print Assumptions C07_gen_UnpackInfo_write_crcs_is_model.

Theorem C07_gen_HeaderStreamsInfo_write_is_hdr_descriptor :
  forall (p : ArchiveinfoRecords.PackInfo) (g : ArchiveinfoRecords.Folder) (so : option ArchiveinfoRecords.SubstreamsInfo)
         packpos hpacksize hrawlen hpcrc hrawcrc (hcoders : list coder),
  ArchiveinfoRecords.PackInfo_enable_digests p = false ->
  PackInfoGen.pack_of p = mkPack packpos 1 [hpacksize] [] [hpcrc] ->
  FolderGen.folder_of g = Header.mkFolder hcoders (Enc.mk_bonds (zlen hcoders)) [] [hrawlen] true (Some hrawcrc) ->
  (do (o, out) <- ArchiveinfoRecords.HeaderStreamsInfo_write
                    (ArchiveinfoRecords.mkHeaderStreamsInfo (Some p) (Some (ArchiveinfoRecords.mkUnpackInfo 1 [g] None)) so); Ok out)
  = Enc.hdr_descriptor packpos hcoders hpacksize hrawlen hpcrc hrawcrc.
Proof. exact EncHdrGen.gen_HeaderStreamsInfo_write_descriptor. Qed.
Print Assumptions C07_gen_HeaderStreamsInfo_write_is_hdr_descriptor.
