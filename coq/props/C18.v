(* C18 -- Progress callbacks give a complete, well-ordered account.
   Statements only (`exact` of lemmas of theories/EventsProofs.v), Print Assumptions, and Examples showing that
   the hypotheses are met by concrete non-trivial states.  The model is theories/Events.v:
   emitted sh sched = the contents of the event queue of one extraction of an archive of shape sh when the folder
   worker threads enqueue in the order sched; reporter / close_model = the consumer thread and close(). *)
From P7 Require Import Prelude Events EventsProofs.
Open Scope Z_scope.

(* every interleaving of any number of workers over any number of members: Pre first, Post last, each processed
   member's events are its Start, then its updates, then its End; updates of delivered members sum to their size *)
Theorem C18_events_wellformed : forall sh sched, shape_ok sh -> complete sh sched = true ->
  wellformed (processed sh) (emitted sh sched).
Proof. exact events_wellformed. Qed.
Print Assumptions C18_events_wellformed.

(* ... in particular exactly one Start followed later by exactly one End, carrying the member's name *)
Theorem C18_one_start_then_one_end : forall sh sched, shape_ok sh -> complete sh sched = true ->
  forall m, In m (processed sh) ->
  filter (fun e => of_id (m_id m) e && is_startend e) (emitted sh sched)
  = [Start (m_id m) (m_name m) (m_csize m); End (m_id m) (m_name m) (m_size m)].
Proof. intros sh sched H1 H2. exact (one_start_then_one_end _ _ (events_wellformed sh sched H1 H2)). Qed.
Print Assumptions C18_one_start_then_one_end.

(* the End event's byte count is the member's uncompressed size; no event for a member that is not processed;
   update events only for delivered members *)
Theorem C18_start_end_payload : forall sh sched, shape_ok sh -> complete sh sched = true ->
  (forall i nm s, In (End i nm s) (emitted sh sched) ->
     exists m, In m (processed sh) /\ i = m_id m /\ nm = m_name m /\ s = m_size m) /\
  (forall i nm c, In (Start i nm c) (emitted sh sched) ->
     exists m, In m (processed sh) /\ i = m_id m /\ nm = m_name m /\ c = m_csize m) /\
  (forall i n, In (Update i n) (emitted sh sched) ->
     exists m, In m (processed sh) /\ i = m_id m /\ delivered m = true).
Proof. intros sh sched H1 H2. exact (start_end_payload _ _ (events_wellformed sh sched H1 H2)). Qed.
Print Assumptions C18_start_end_payload.

(* Worker.decompress: for every clock (dt components arbitrary) and every chunking by a decoder that honours
   max_length, the "u" values of one member sum to its size *)
Theorem C18_updates_sum : forall size chunks, 0 <= size -> chunks_ok size chunks = true ->
  zsum (dec_updates size chunks) = size /\ dec_final size chunks = 0.
Proof. exact updates_sum. Qed.
Print Assumptions C18_updates_sum.

(* without the max_length assumption: whenever the loop ends the updates sum to the bytes decoded *)
Theorem C18_updates_sum_general : forall size chunks, 0 < size -> Forall (fun c => 0 <= fst c) chunks ->
  dec_final size chunks <= 0 -> zsum (dec_updates size chunks) = size - dec_final size chunks.
Proof. exact updates_sum_general. Qed.
Print Assumptions C18_updates_sum_general.

(* all update events of an extraction sum to the bytes of the delivered members (observable without ids) *)
Theorem C18_updates_total : forall sh sched, shape_ok sh -> complete sh sched = true ->
  upd_total (emitted sh sched) = delivered_bytes (processed sh).
Proof. exact updates_total. Qed.
Print Assumptions C18_updates_total.

(* the checker the harness runs on recorded sequences decides exactly `wellformed` *)
Theorem C18_wellformedb_exact : forall ms evs, wellformedb ms evs = true <-> wellformed ms evs.
Proof. exact wellformedb_iff. Qed.
Print Assumptions C18_wellformedb_exact.

(* FIFO consumer: once the reporter thread has ended (which is what close() returning normally establishes:
   join + is_alive) it has handled exactly the items in front of the sentinel, in order ... *)
Theorem C18_reporter_terminated : forall q d, reporter q = (d, true) -> exists rest, q = map Some d ++ None :: rest.
Proof. exact reporter_terminated. Qed.
Print Assumptions C18_reporter_terminated.

(* ... hence the complete well-formed account of the extraction *)
Theorem C18_all_delivered_at_close : forall sh sched, shape_ok sh -> complete sh sched = true ->
  reporter (map Some (emitted sh sched) ++ [None]) = (emitted sh sched, true) /\
  wellformed (processed sh) (fst (reporter (map Some (emitted sh sched) ++ [None]))).
Proof.
  intros sh sched H1 H2. rewrite reporter_fifo. split; [reflexivity|exact (events_wellformed sh sched H1 H2)].
Qed.
Print Assumptions C18_all_delivered_at_close.

(* timed: close() (sentinel + join without timeout) returns only when every handler call has completed, none
   happens later -- whatever the handler time owed *)
Theorem C18_all_before_close : forall free items tc tret nb na, costs_nonneg items ->
  close_model free items tc = (tret, nb, na) ->
  tc <= tret /\ Forall (fun d => d <= tret) (completions free items) /\ nb = Z.of_nat (length items) /\ na = 0.
Proof. exact all_before_close. Qed.
Print Assumptions C18_all_before_close.

(* and it waits no longer than the handler time still owed when it is called *)
Theorem C18_close_wait_bounded : forall free items tc,
  Forall (fun it => fst it <= tc /\ 0 <= snd it) items -> free <= tc ->
  fst (fst (close_model free items tc)) <= tc + zsum (map snd items).
Proof. exact close_wait_bounded. Qed.
Print Assumptions C18_close_wait_bounded.

(* several extractions with callbacks in one session: _extract ends the previous reporter (sentinel + join) before it
   starts the next, so each callback receives exactly its own extraction's events *)
Theorem C18_second_extraction_own_callback : forall ev1 ev2,
  reporter_rest (map Some ev1 ++ None :: map Some ev2 ++ [None]) = (ev1, true, map Some ev2 ++ [None]) /\
  reporter_rest (map Some ev2 ++ [None]) = (ev2, true, []) /\
  accounts 3 (map Some ev1 ++ None :: map Some ev2 ++ [None]) = [ev1; ev2].
Proof. exact second_extraction_own_callback. Qed.
Print Assumptions C18_second_extraction_own_callback.

Theorem C18_second_extraction_wellformed : forall sh1 sc1 sh2 sc2,
  shape_ok sh1 -> complete sh1 sc1 = true -> shape_ok sh2 -> complete sh2 sc2 = true ->
  exists a1 a2, accounts 3 (map Some (emitted sh1 sc1) ++ None :: map Some (emitted sh2 sc2) ++ [None]) = [a1; a2] /\
    wellformed (processed sh1) a1 /\ wellformed (processed sh2) a2.
Proof.
  intros sh1 sc1 sh2 sc2 H1 H2 H3 H4. exists (emitted sh1 sc1), (emitted sh2 sc2).
  split; [exact (proj2 (proj2 (second_extraction_own_callback _ _)))|].
  split; [exact (events_wellformed _ _ H1 H2)|exact (events_wellformed _ _ H3 H4)].
Qed.
Print Assumptions C18_second_extraction_wellformed.

(* limit: mp=True loses the events of the folder workers *)
Theorem C18_events_lost_mp_refuted : exists sh, shape_ok sh /\ ~ wellformed (processed sh) (emitted_mp sh).
Proof. exact events_lost_mp_refuted. Qed.
Print Assumptions C18_events_lost_mp_refuted.

Theorem C18_events_mp_partial : forall sh, shape_ok sh -> s_mode sh = MultiPar ->
  wellformed (empties sh) (emitted_mp sh).
Proof. exact events_mp_partial. Qed.
Print Assumptions C18_events_mp_partial.

(* ---- non-vacuity: three folders (one skipped), an empty-stream member, an unselected member in a selected folder *)
Example C18_example_hypotheses : shape_ok ex_shape /\ complete ex_shape ex_sched = true.
Proof. split; [exact ex_shape_ok|vm_compute; reflexivity]. Qed.

Example C18_example_emitted : emitted ex_shape ex_sched =
  [Pre; Start 0 [100] 0; End 0 [100] 0;
   Start 3 [99] 0; Start 1 [97] 0; Update 1 10; Update 3 30; End 1 [97] 10; End 3 [99] 30;
   Start 2 [98] 0; End 2 [98] 20; Post].
Proof. vm_compute. reflexivity. Qed.

(* the update loop under a ticking clock: 10 bytes in chunks 4,0,3,3; at least one second passes at the second and third
   reading: updates 4 (tick), 3 (tick), 3 (end) *)
Example C18_example_updates :
  chunks_ok 10 [(4, 0); (0, 1024); (3, 2000); (3, 100)] = true /\
  dec_loop 10 0 0 [(4, 0); (0, 1024); (3, 2000); (3, 100)] = ([4; 3; 3], 0) /\
  dec_loop 10 0 0 [(4, 600); (0, 500); (3, 0); (3, 0)] = ([4; 6], 0).
Proof. vm_compute. repeat split; reflexivity. Qed.

(* 23 handler calls of 52/1024 s owed at close(): close() returns after 1196/1024 s with all 23 done (the code before
   the repair raised InternalError at 1024 with 19 done) *)
Example C18_example_close_long : close_model 0 (repeat (0, 52) 23) 0 = (1196, 23, 0).
Proof. vm_compute. reflexivity. Qed.

Example C18_example_close : costs_nonneg [(0, 3); (0, 3); (5, 3)] /\
  close_model 0 [(0, 3); (0, 3); (5, 3)] 6 = (9, 3, 0) /\
  Forall (fun it => fst it <= 6 /\ 0 <= snd it) [(0, 3); (0, 3); (5, 3)].
Proof. split; [repeat constructor; simpl; lia|]. split; [vm_compute; reflexivity|repeat constructor; simpl; lia]. Qed.
