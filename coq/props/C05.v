(* C05 -- any input terminates in bounded time and memory; the interpreter survives.
   Statements only (`exact`), Print Assumptions after each.  The models: theories/Header.v (header
   parser; a count that the Python turns into an allocation or a loop bound is compared with `lim`,
   beyond it the answer is Err EFuel), theories/Decomp.v (SevenZipDecompressor.decompress),
   theories/Cost.v (the two decompress loops with their stall guard, the passes over declared numbers;
   proofs about the parser in theories/CostProofs.v).
   Status of the property on the current tree: the TIME clause holds of the model (section 3, 4: the
   decode loops end for every decoder behaviour, the passes are linear); the MEMORY clause is still
   FALSE: `_refuted` theorems carry the witnesses (numfiles, sub-stream counts), each replayed on the
   implementation by tools/harness/c05.py. *)
From P7 Require Import Prelude PyPrims Number Header Cost CostProofs.
Require P7.Decomp.
From P7 Require DecompGen ReadFully.
From P7gen Require DecompChain.
Open Scope Z_scope.

(* ---- 1. where the elements are read one by one, a count cannot force work beyond the input ---- *)

Theorem C05_primitive_readers_consume :
  consuming rd_byte /\ consuming rd_number /\ consuming rd_bond /\ consuming parse_coder /\
  (forall n, (0 < n)%nat -> consuming (rd_fixed n)) /\ (forall lim, consuming (parse_folder lim)).
Proof.
  exact (conj rd_byte_consumes (conj rd_number_consumes (conj rd_bond_consumes (conj parse_coder_consumes
        (conj rd_fixed_consumes parse_folder_consumes))))).
Qed.
Print Assumptions C05_primitive_readers_consume.

Theorem C05_repeated_reader_bounded : forall A (rd : reader A) n bs l r,
  consuming rd -> rd_many n rd bs = Ok (l, r) ->
  n <= zlen bs /\ zlen l = Z.max n 0 /\ zlen l + zlen r <= zlen bs.
Proof. exact @rd_many_count_le. Qed.
Print Assumptions C05_repeated_reader_bounded.

Theorem C05_overcount_fails : forall A (rd : reader A) n bs,
  consuming rd -> zlen bs < n -> exists e, rd_many n rd bs = Err e.
Proof. exact @rd_many_overcount_fails. Qed.
Print Assumptions C05_overcount_fails.

(* parse_terminates_structurally: the parser is a total function by structural recursion on
   fuel = S (length input); the fuel is never the reason of a failure *)
Theorem C05_parse_fuel_is_no_restriction : forall A (rd : reader A),
  consuming rd -> forall f1 f2 n bs, (length bs < f1)%nat -> (length bs < f2)%nat ->
  rd_rep f1 n rd bs = rd_rep f2 n rd bs.
Proof. exact @rd_rep_fuel_irrelevant. Qed.
Print Assumptions C05_parse_fuel_is_no_restriction.

Theorem C05_bit_vector_bounded : forall lim count checkall bs l r,
  rd_boolean lim count checkall bs = Ok (l, r) ->
  zlen l = Z.max count 0 /\ (length r <= length bs)%nat /\ (count <= lim \/ count <= 8 * (zlen bs - zlen r)).
Proof. exact rd_boolean_bound. Qed.
Print Assumptions C05_bit_vector_bounded.

(* PackInfo: with a SIZE section numstreams is backed by bytes *)
Theorem C05_packinfo_counts : forall lim bs p r,
  parse_packinfo lim bs = Ok (p, r) ->
  p_numstreams p <= lim /\ (length r < length bs)%nat /\ (p_sizes p = [] \/ p_numstreams p <= zlen bs).
Proof. exact parse_packinfo_bound. Qed.
Print Assumptions C05_packinfo_counts.

(* ... and packpositions is one pass over the sizes that were read: numstreams without sizes allocates nothing
   (formerly refuted: range(numstreams + 1) was walked, quadratically when sizes were present) *)
Theorem C05_packpositions_linear : forall sizes,
  zlen (packpositions sizes) = zlen sizes + 1 /\ packpositions_steps (zlen sizes) = zlen sizes + 1.
Proof. exact packpositions_linear. Qed.
Print Assumptions C05_packpositions_linear.

Theorem C05_packpositions_within_input : forall lim bs p r,
  parse_packinfo lim bs = Ok (p, r) -> 2 * zlen (packpositions (p_sizes p)) <= 4 * zlen bs + 2.
Proof. exact parse_packinfo_packpositions_linear. Qed.
Print Assumptions C05_packpositions_within_input.

(* Folder: immune -- the trip count of the packed_indices pass is at most bonds + 1 <= |input|, and the
   pass is one set construction plus one lookup per input stream (formerly a search per stream) *)
Theorem C05_folder_immune : forall lim bs, zlen bs < lim -> parse_folder lim bs <> Err EFuel.
Proof. exact parse_folder_immune. Qed.
Print Assumptions C05_folder_immune.

Theorem C05_bindpairs_linear : forall lim bs f r,
  parse_folder lim bs = Ok (f, r) ->
  let totalin := sumZ (map c_nin (f_coders f)) in
  let nbonds := sumZ (map c_nout (f_coders f)) - 1 in
  totalin - nbonds = 1 ->
  packed_indices_steps (f_bonds f) totalin <= 2 * zlen bs + 1.
Proof. exact parse_folder_bindpairs_linear. Qed.
Print Assumptions C05_bindpairs_linear.

(* ---- 2. the memory clause is still refuted: counts that are backed by nothing ---- *)

Theorem C05_numfiles_alloc_refuted :
  length witness_numfiles = 11%nat /\
  forall lim, lim < 2 ^ 63 -> parse_header lim witness_numfiles = Err EFuel.
Proof. exact numfiles_alloc_witness. Qed.
Print Assumptions C05_numfiles_alloc_refuted.

Theorem C05_substreams_alloc_refuted :
  length witness_substreams = 23%nat /\
  parse_header (2 ^ 62) witness_substreams = Err EFuel /\
  parse_header (2 ^ 20 * zlen witness_substreams) witness_substreams = Err EFuel.
Proof. exact substreams_alloc_witness. Qed.
Print Assumptions C05_substreams_alloc_refuted.

Theorem C05_alloc_by_declared_count_refuted :
  exists bs, (length bs <= 40)%nat /\
    forall a b, 0 <= a < 2 ^ 57 -> 0 <= b < 2 ^ 62 -> parse_header (a * zlen bs + b) bs = Err EFuel.
Proof. exact alloc_by_declared_count_refuted. Qed.
Print Assumptions C05_alloc_by_declared_count_refuted.

(* parse_cost_partial: what does hold -- the object graph the parser builds (every list cell, the
   packpositions included) is linear in the input and the limit; with every declared count within
   the limit and the limit within the input size it is linear in the input (wf_bytes: the input consists
   of bytes; a negative "number" could otherwise stand for a sub-stream count) *)
Theorem C05_parse_cost_partial : forall lim bs h,
  wf_bytes bs = true -> parse_header lim bs = Ok h -> header_size h <= 17 * zlen bs + 4 * Z.max lim 0 + 1.
Proof. exact parse_cost_partial. Qed.
Print Assumptions C05_parse_cost_partial.

Theorem C05_parse_cost_linear : forall lim bs h,
  wf_bytes bs = true -> lim <= zlen bs -> parse_header lim bs = Ok h -> header_size h <= 21 * zlen bs + 1.
Proof. exact parse_cost_linear. Qed.
Print Assumptions C05_parse_cost_linear.

Example C05_parse_cost_example :
  (do h <- parse_header 10 [1; 5; 3; 17; 5; 0; 65; 0; 0; 0; 0; 0]; Ok (header_size h)) = Ok 4.
Proof. vm_compute. reflexivity. Qed.

(* ---- 3. the passes over the input are linear (formerly refuted: 65536 reads per declared file at the end
        of the input; declared-packsize / blocksize reads in test()) ---- *)

Theorem C05_read_utf16_linear : forall bs, 1 <= utf16_iters bs /\ 2 * utf16_iters bs <= zlen bs + 2.
Proof. exact utf16_iters_linear. Qed.
Print Assumptions C05_read_utf16_linear.

Theorem C05_names_linear : forall n bs, 2 * names_steps n bs <= 2 * Z.of_nat n + zlen bs.
Proof. exact names_steps_linear. Qed.
Print Assumptions C05_names_linear.

Theorem C05_names_at_eof : forall n, names_steps n [] = Z.of_nat n.
Proof. exact names_steps_eof. Qed.
Print Assumptions C05_names_at_eof.

Theorem C05_read_digest_linear : forall size bsz avail,
  0 < bsz -> 0 <= read_digest_iters size bsz avail <= Z.max avail 0 + 1.
Proof. exact read_digest_iters_linear. Qed.
Print Assumptions C05_read_digest_linear.

(* ---- 4. THE HEADLINE: the decode loops end ---- *)

(* decompress_loop_terminates, unconditionally: for every type and behaviour of the decoder stages, every state of
   the decompressor, every max_block_size and every schedule of short reads, Worker.decompress ends -- with the
   bytes or with an ordinary exception -- within 18 * (declared size + bytes left in the file) + 17 rounds:
   at most 17 stalled rounds in a row; every other round delivers a byte of the declared size or takes a byte
   of the finite file *)
Theorem C05_decompress_loop_terminates :
  forall (stage_st : Type) (dstep : stage_st -> bytes -> Z -> stage_st * bytes)
         (st : Decomp.dstate stage_st) (size mb : Z) (sched : list nat) (fuel : nat),
    18 * (Z.max size 0 + Decomp.zlen (Decomp.fp_rest st) + Decomp.budget st) + 17 < Z.of_nat fuel ->
    worker_guarded dstep fuel st size mb 0 sched <> Err EFuel.
Proof. exact worker_guarded_rounds. Qed.
Print Assumptions C05_decompress_loop_terminates.

(* from any count of stalled rounds *)
Theorem C05_decompress_loop_terminates_from : 
  forall (stage_st : Type) (dstep : stage_st -> bytes -> Z -> stage_st * bytes)
         fuel (st : Decomp.dstate stage_st) size mb stalled sched,
    0 <= stalled <= 16 ->
    guarded_measure stage_st st size stalled < Z.of_nat fuel ->
    worker_guarded dstep fuel st size mb stalled sched <> Err EFuel.
Proof. exact worker_guarded_terminates. Qed.
Print Assumptions C05_decompress_loop_terminates_from.

(* encoded_header_loop: Header._read's loop, same bound *)
Theorem C05_encoded_header_loop_terminates :
  forall (stage_st : Type) (dstep : stage_st -> bytes -> Z -> stage_st * bytes)
         (st : Decomp.dstate stage_st) (usize : Z) (sched : list nat) (fuel : nat),
    18 * (Z.max usize 0 + Decomp.zlen (Decomp.fp_rest st) + Decomp.budget st) + 17 < Z.of_nat fuel ->
    header_guarded dstep fuel st usize [] 0 sched <> Err EFuel.
Proof. exact header_guarded_rounds. Qed.
Print Assumptions C05_encoded_header_loop_terminates.

(* the former loop (Decomp.worker_decompress, without the guard) never ended on a quiet, exhausted decompressor
   with bytes still wanted -- kept as the documented behaviour of the OLD code ... *)
Theorem C05_old_loop_spins :
  forall (stage_st : Type) (dstep : stage_st -> bytes -> Z -> stage_st * bytes) (quiet : stage_st -> Prop),
    (forall s ml, quiet s -> snd (dstep s [] ml) = [] /\ quiet (fst (dstep s [] ml))) ->
    forall fuel st size mb sched,
      Decomp.stuck quiet st -> 0 < size -> 0 < mb ->
      Decomp.worker_decompress dstep fuel st size mb sched = Err EFuel.
Proof. exact Decomp.worker_spins. Qed.
Print Assumptions C05_old_loop_spins.

(* ... in the very same states the guarded loop raises Bad7zFile after at most 17 rounds *)
Theorem C05_stuck_now_raises :
  forall (stage_st : Type) (dstep : stage_st -> bytes -> Z -> stage_st * bytes) (quiet : stage_st -> Prop),
    (forall s ml, quiet s -> snd (dstep s [] ml) = [] /\ quiet (fst (dstep s [] ml))) ->
    forall (n : nat) st size mb stalled sched (fuel : nat),
      Decomp.stuck quiet st -> 0 < size -> 0 < mb -> stalled = 16 - Z.of_nat n -> (n < fuel)%nat ->
      worker_guarded dstep fuel st size mb stalled sched = Err EBad7z.
Proof. exact worker_guarded_stuck_raises. Qed.
Print Assumptions C05_stuck_now_raises.

(* the concrete scenario (Copy, declared 10 bytes, the stream holds 3): old loop, new loops, and a run that succeeds
   under short reads *)
Example C05_declared_size_exceeds_stream :
  (forall fuel, Decomp.toy_worker fuel [Decomp.toy_st 0 0 []] [10] 3 100 [1; 2; 3] 10 100 [] = Err EFuel) /\
  toy_worker_guarded 40 [Decomp.toy_st 0 0 []] [10] 3 100 [1; 2; 3] 10 100 [] = Err EBad7z /\
  toy_header_guarded 40 [Decomp.toy_st 0 0 []] [10] 3 100 [1; 2; 3] 10 [] = Err EBad7z /\
  toy_worker_guarded 40 [Decomp.toy_st 0 0 []] [10] 10 4 [1; 2; 3; 4; 5; 6; 7; 8; 9; 10] 10 3 [1%nat; 2%nat]
    = Ok [1; 2; 3; 4; 5; 6; 7; 8; 9; 10].
Proof. exact (conj Decomp.toy_worker_spins toy_guarded_witness). Qed.

(* non-vacuity of the cost functions: concrete values *)
Example C05_cost_examples :
  packpositions [3; 4; 5] = [0; 3; 7; 12] /\ packpositions_steps 3 = 4 /\
  utf16_iters [65; 0; 0; 0; 7] = 2 /\ utf16_iters [65; 0; 66] = 2 /\ names_steps 3 [65; 0; 0; 0] = 4 /\
  packed_indices_steps [(1, 0); (2, 1)] 3 = 5 /\ packed_indices [(1, 0); (2, 1)] 3 = [0] /\
  read_digest_iters (2 ^ 63) (2 ^ 20) 100 = 2 /\
  parse_header 10 [1; 5; 3; 0; 0] <> Err EFuel /\ parse_header 2 [1; 5; 3; 0; 0] = Err EFuel.
Proof. vm_compute. repeat split; try reflexivity. discriminate. Qed.

(* ---- third wave (stage 7): SevenZipDecompressor._decompress / _read_data / decompress as translated on this run from
   py7zr/compressor.py (gen/DecompChain.v) ARE Decomp.v's run_chain / read_data / decompress: for every object state, every
   file content, every max_length and every read-schedule element rd (the most this call's fp.read returns), with the same
   abstract stage decoders `dstep` on both sides.  DecompGen.st_of o fp is the model state of the object o with the unread
   file fp; DecompGen.of_st st digest delivered the object of a model state (self.digest / self._delivered are not in
   Decomp.v's state).  The digest goes through the generated helpers.calculate_crc32 (fuel for its block loop). ---- *)

Theorem C05_gen_decompress_is_model_call :
  forall (stage : Type) (dstep : stage -> bytes -> Z -> stage * bytes) (zcrc32 : bytes -> Z -> Z)
         (self o' : DecompChain.SevenZipDecompressor stage) fp fp' fuel ml rd out,
  DecompChain.SevenZipDecompressor_decompress stage dstep zcrc32 self fp fuel ml rd = Ok ((o', out), fp') ->
  Decomp.decompress dstep (DecompGen.st_of stage self fp) ml rd = Ok (DecompGen.st_of stage o' fp', out).
Proof. exact DecompGen.gen_decompress_ok_inv. Qed.
Print Assumptions C05_gen_decompress_is_model_call.

(* ---- helpers.read_fully (every header and packed-stream read of the reader): what it asks the file
   for.  For every file, position, declared size, block size >= 1 and EVERY behaviour of the file
   (any schedule of short or zero-length answers) no read() asks for more than one block nor for more
   than is still missing, and there are at most size+1 read() calls -- a header declaring 2^63 bytes
   on a 40-byte file costs one block-sized request, not an allocation of the declared size (the
   seeded change C05-9 removed the `min`).  ReadFully.rf_requests is run against the sizes the
   Python actually asks a scheduled file for (GenDispatch FN 1088, tools/harness/prims.py in the
   C01/C02/C16/C17/C19 checks); C01_read_fully_any_schedule is the functional half. ---- *)
Theorem C05_read_fully_requests_bounded :
  forall bs : nat, (1 <= bs)%nat ->
  forall (fuel : nat) (data : bytes) (pos remaining : nat) (caps : list nat),
    Forall (fun r : nat => (1 <= r)%nat /\ (r <= bs)%nat /\ (r <= remaining)%nat)
           (ReadFully.rf_requests fuel data pos remaining bs caps).
Proof. exact ReadFully.rf_requests_bounded. Qed.
Print Assumptions C05_read_fully_requests_bounded.

Theorem C05_read_fully_call_count :
  forall (fuel : nat) (data : bytes) (pos remaining bs : nat) (caps : list nat),
    (length (ReadFully.rf_requests fuel data pos remaining bs caps) <= S remaining)%nat.
Proof. exact ReadFully.rf_requests_count. Qed.
Print Assumptions C05_read_fully_call_count.

Example C05_read_fully_requests_example :
  ReadFully.rf_requests 8 [1;2;3;4;5;6;7;8;9;10]%Z 2 7 4 [3;1;2]%nat = [4; 4; 3; 1]%nat.
Proof. exact ReadFully.rf_requests_example. Qed.
