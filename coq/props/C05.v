(* C05 -- any input terminates in bounded time and memory; the interpreter survives.
   Statements only (`exact`), Print Assumptions after each.  The models: theories/Header.v (header
   parser; a count that the Python turns into an allocation or a loop bound is compared with `lim`,
   beyond it the answer is Err EFuel), theories/Decomp.v (decompress, Worker.decompress),
   theories/Cost.v (loops whose trip count is a declared number, Header._read's loop; proofs about the
   parser in theories/CostProofs.v).
   The property as stated is FALSE of the code: the `_refuted` theorems carry the witnesses (each is
   replayed on the implementation by tools/harness/c05.py); the other theorems say what does hold. *)
From P7 Require Import Prelude PyPrims Number Header Cost CostProofs.
Require P7.Decomp.
Open Scope Z_scope.

(* ---- 1. where the elements are read one by one, a count cannot force work beyond the input ---- *)

Theorem C05_primitive_readers_consume :
  consuming rd_byte /\ consuming rd_number /\ consuming rd_bond /\ consuming parse_coder /\
  (forall n, (0 < n)%nat -> consuming (rd_fixed n)) /\ (forall lim, consuming (parse_folder lim)).
Proof.
  exact (conj rd_byte_consumes (conj rd_number_consumes (conj rd_bond_consumes (conj parse_coder_consumes
        (conj rd_fixed_consumes parse_folder_consumes))))).
Qed.
Print Assumptions C05_primitive_readers_consume.

Theorem C05_repeated_reader_bounded : forall A (rd : reader A) n bs l r,
  consuming rd -> rd_many n rd bs = Ok (l, r) ->
  n <= zlen bs /\ zlen l = Z.max n 0 /\ zlen l + zlen r <= zlen bs.
Proof. exact @rd_many_count_le. Qed.
Print Assumptions C05_repeated_reader_bounded.

Theorem C05_overcount_fails : forall A (rd : reader A) n bs,
  consuming rd -> zlen bs < n -> exists e, rd_many n rd bs = Err e.
Proof. exact @rd_many_overcount_fails. Qed.
Print Assumptions C05_overcount_fails.

(* parse_terminates_structurally: the parser is a total function by structural recursion on
   fuel = S (length input); the fuel is never the reason of a failure *)
Theorem C05_parse_fuel_is_no_restriction : forall A (rd : reader A),
  consuming rd -> forall f1 f2 n bs, (length bs < f1)%nat -> (length bs < f2)%nat ->
  rd_rep f1 n rd bs = rd_rep f2 n rd bs.
Proof. exact @rd_rep_fuel_irrelevant. Qed.
Print Assumptions C05_parse_fuel_is_no_restriction.

Theorem C05_bit_vector_bounded : forall lim count checkall bs l r,
  rd_boolean lim count checkall bs = Ok (l, r) ->
  zlen l = Z.max count 0 /\ (length r <= length bs)%nat /\ (count <= lim \/ count <= 8 * (zlen bs - zlen r)).
Proof. exact rd_boolean_bound. Qed.
Print Assumptions C05_bit_vector_bounded.

(* PackInfo: with a SIZE section numstreams is backed by bytes, without it it is free *)
Theorem C05_packinfo_counts : forall lim bs p r,
  parse_packinfo lim bs = Ok (p, r) ->
  p_numstreams p <= lim /\ (length r < length bs)%nat /\ (p_sizes p = [] \/ p_numstreams p <= zlen bs).
Proof. exact parse_packinfo_bound. Qed.
Print Assumptions C05_packinfo_counts.

Theorem C05_packinfo_resource_answer : forall lim bs,
  parse_packinfo lim bs = Err EFuel ->
  exists pos n r1 r2, rd_number bs = Ok (pos, r1) /\ rd_number r1 = Ok (n, r2) /\ lim < n.
Proof. exact parse_packinfo_fuel. Qed.
Print Assumptions C05_packinfo_resource_answer.

(* Folder: immune -- the trip count of the packed_indices loop is at most bonds + 1 <= |input| *)
Theorem C05_folder_immune : forall lim bs, zlen bs < lim -> parse_folder lim bs <> Err EFuel.
Proof. exact parse_folder_immune. Qed.
Print Assumptions C05_folder_immune.

(* ---- 2. the memory clause is refuted: counts that are backed by nothing ---- *)

Theorem C05_numfiles_alloc_refuted :
  length witness_numfiles = 11%nat /\
  forall lim, lim < 2 ^ 63 -> parse_header lim witness_numfiles = Err EFuel.
Proof. exact numfiles_alloc_witness. Qed.
Print Assumptions C05_numfiles_alloc_refuted.

Theorem C05_numstreams_alloc_refuted :
  length witness_numstreams = 13%nat /\
  forall lim, lim < 2 ^ 63 -> parse_header lim witness_numstreams = Err EFuel.
Proof. exact numstreams_alloc_witness. Qed.
Print Assumptions C05_numstreams_alloc_refuted.

Theorem C05_substreams_alloc_refuted :
  length witness_substreams = 23%nat /\
  parse_header (2 ^ 62) witness_substreams = Err EFuel /\
  parse_header (2 ^ 20 * zlen witness_substreams) witness_substreams = Err EFuel.
Proof. exact substreams_alloc_witness. Qed.
Print Assumptions C05_substreams_alloc_refuted.

Theorem C05_alloc_by_declared_count_refuted :
  exists bs, (length bs <= 40)%nat /\
    forall a b, 0 <= a < 2 ^ 57 -> 0 <= b < 2 ^ 62 -> parse_header (a * zlen bs + b) bs = Err EFuel.
Proof. exact alloc_by_declared_count_refuted. Qed.
Print Assumptions C05_alloc_by_declared_count_refuted.

(* parse_cost_partial: what does hold -- the object graph the parser builds (every list cell, the
   packpositions included) is linear in the input and the limit; with every declared count within
   the limit and the limit within the input size it is linear in the input (wf_bytes: the input consists
   of bytes; a negative "number" could otherwise stand for a sub-stream count) *)
Theorem C05_parse_cost_partial : forall lim bs h,
  wf_bytes bs = true -> parse_header lim bs = Ok h -> header_size h <= 17 * zlen bs + 5 * Z.max lim 0 + 1.
Proof. exact parse_cost_partial. Qed.
Print Assumptions C05_parse_cost_partial.

Theorem C05_parse_cost_linear : forall lim bs h,
  wf_bytes bs = true -> lim <= zlen bs -> parse_header lim bs = Ok h -> header_size h <= 22 * zlen bs + 1.
Proof. exact parse_cost_linear. Qed.
Print Assumptions C05_parse_cost_linear.

Example C05_parse_cost_example :
  (do h <- parse_header 10 [1; 5; 3; 17; 5; 0; 65; 0; 0; 0; 0; 0]; Ok (header_size h)) = Ok 4.
Proof. vm_compute. reflexivity. Qed.

(* ---- 3. the time clause is refuted: loops whose trip count is a declared number ---- *)

Theorem C05_packpositions_quadratic : forall n, 0 <= n -> 2 * packpositions_steps n n = (n + 1) * (n + 2).
Proof. exact packpositions_steps_quadratic. Qed.
Print Assumptions C05_packpositions_quadratic.

Theorem C05_packpositions_superlinear_refuted : forall a b,
  0 <= a -> 0 <= b -> exists n, 0 <= n /\ a * n + b < packpositions_steps n n.
Proof. exact packpositions_superlinear. Qed.
Print Assumptions C05_packpositions_superlinear_refuted.

Theorem C05_packpositions_without_sizes : forall n, 0 <= n -> packpositions_steps 0 n = n + 1.
Proof. exact packpositions_steps_nosizes. Qed.
Print Assumptions C05_packpositions_without_sizes.

Theorem C05_names_at_eof_refuted : forall n, names_steps n [] = 65536 * Z.of_nat n.
Proof. exact names_steps_eof. Qed.
Print Assumptions C05_names_at_eof_refuted.

Theorem C05_bindpairs_quadratic : forall bonds totalin,
  0 <= totalin -> (forall b, In b bonds -> fst b < 0 \/ totalin <= fst b) ->
  packed_indices_steps bonds totalin = zlen bonds * totalin.
Proof. exact packed_indices_steps_worst. Qed.
Print Assumptions C05_bindpairs_quadratic.

Theorem C05_read_digest_trip_count : forall size bsz,
  0 < size -> 0 < bsz -> size <= read_digest_iters size bsz * bsz.
Proof. exact read_digest_iters_bound. Qed.
Print Assumptions C05_read_digest_trip_count.

(* ---- 4. the decompress loops ---- *)

(* decompress_loop_terminates, under the progress contract: I relates the decompressor state to the
   bytes still wanted; a call may return nothing without having read input at most k times in a row *)
Theorem C05_decompress_loop_terminates :
  forall (stage_st : Type) (dstep : stage_st -> bytes -> Z -> stage_st * bytes)
         (I : Decomp.dstate stage_st -> Z -> Prop) (lat : Decomp.dstate stage_st -> nat) (k : nat) (mb L0 : Z),
    0 < mb ->
    (forall st size, I st size -> Decomp.book_inv L0 st) ->
    (forall st size rd st' out,
        I st size -> 0 < size -> okrd stage_st st rd ->
        Decomp.decompress dstep st (Z.min size mb) rd = Ok (st', out) ->
        0 < size - Decomp.zlen out -> I st' (size - Decomp.zlen out)) ->
    (forall st, (lat st <= k)%nat) ->
    (forall st size rd st',
        I st size -> 0 < size -> okrd stage_st st rd ->
        Decomp.decompress dstep st (Z.min size mb) rd = Ok (st', []) ->
        Decomp.consumed st' = Decomp.consumed st -> (lat st' < lat st)%nat) ->
    forall st size sched fuel,
      I st size -> Forall (fun k => (0 < k)%nat) sched ->
      (Z.max size 0 + Decomp.zlen (Decomp.fp_rest st) + 1) * (Z.of_nat k + 1) <= Z.of_nat fuel ->
      Decomp.worker_decompress dstep fuel st size mb sched <> Err EFuel.
Proof. exact worker_terminates. Qed.
Print Assumptions C05_decompress_loop_terminates.

(* the contract is satisfiable: the Copy stage on a stream that holds the declared bytes *)
Theorem C05_decompress_loop_terminates_copy : forall L0 mb st size sched fuel,
  0 < mb -> copy_inv L0 st size -> Forall (fun k => (0 < k)%nat) sched ->
  Z.max size 0 + Decomp.zlen (Decomp.fp_rest st) + 1 <= Z.of_nat fuel ->
  Decomp.worker_decompress Decomp.toy_dstep fuel st size mb sched <> Err EFuel.
Proof. exact copy_worker_terminates. Qed.
Print Assumptions C05_decompress_loop_terminates_copy.

Example C05_copy_contract_example :
  copy_inv 7 (Decomp.toy_init [copy_st] [7] 7 4 [1; 2; 3; 4; 5; 6; 7]) 5 /\
  Decomp.toy_worker 13 [copy_st] [7] 7 4 [1; 2; 3; 4; 5; 6; 7] 5 3 [1%nat; 2%nat] = Ok [1; 2; 3; 4; 5].
Proof. exact (conj copy_inv_example copy_worker_example). Qed.

(* without the contract: a quiet, exhausted decompressor and bytes still wanted -- no fuel suffices *)
Theorem C05_decompress_loop_refuted :
  forall (stage_st : Type) (dstep : stage_st -> bytes -> Z -> stage_st * bytes) (quiet : stage_st -> Prop),
    (forall s ml, quiet s -> snd (dstep s [] ml) = [] /\ quiet (fst (dstep s [] ml))) ->
    forall fuel st size mb sched,
      Decomp.stuck quiet st -> 0 < size -> 0 < mb ->
      Decomp.worker_decompress dstep fuel st size mb sched = Err EFuel.
Proof. exact Decomp.worker_spins. Qed.
Print Assumptions C05_decompress_loop_refuted.

(* the concrete scenario: Copy, declared unpack size 10, the stream holds 3 bytes *)
Theorem C05_declared_size_exceeds_stream_refuted : forall fuel,
  Decomp.toy_worker fuel [Decomp.toy_st 0 0 []] [10] 3 100 [1; 2; 3] 10 100 [] = Err EFuel.
Proof. exact Decomp.toy_worker_spins. Qed.
Print Assumptions C05_declared_size_exceeds_stream_refuted.

(* encoded_header_loop: the same loop (max_block_size = what is still missing), hence the same two results *)
Theorem C05_encoded_header_loop_is_worker_loop :
  forall (stage_st : Type) (dstep : stage_st -> bytes -> Z -> stage_st * bytes) fuel st usize acc sched mb,
    usize - Decomp.zlen acc <= mb ->
    header_loop dstep fuel st usize acc sched =
    with_acc stage_st acc (Decomp.worker_decompress dstep fuel st (usize - Decomp.zlen acc) mb sched).
Proof. exact header_loop_is_worker. Qed.
Print Assumptions C05_encoded_header_loop_is_worker_loop.

Theorem C05_encoded_header_loop_terminates :
  forall (stage_st : Type) (dstep : stage_st -> bytes -> Z -> stage_st * bytes)
         (I : Decomp.dstate stage_st -> Z -> Prop) (lat : Decomp.dstate stage_st -> nat) (k : nat) (L0 : Z)
         (st : Decomp.dstate stage_st) (usize : Z) (acc : bytes) (sched : list nat) (fuel : nat),
    let mb := usize - Decomp.zlen acc in
    0 < mb ->
    (forall st size, I st size -> Decomp.book_inv L0 st) ->
    (forall st size rd st' out,
        I st size -> 0 < size -> okrd stage_st st rd ->
        Decomp.decompress dstep st (Z.min size mb) rd = Ok (st', out) ->
        0 < size - Decomp.zlen out -> I st' (size - Decomp.zlen out)) ->
    (forall st, (lat st <= k)%nat) ->
    (forall st size rd st',
        I st size -> 0 < size -> okrd stage_st st rd ->
        Decomp.decompress dstep st (Z.min size mb) rd = Ok (st', []) ->
        Decomp.consumed st' = Decomp.consumed st -> (lat st' < lat st)%nat) ->
    I st mb -> Forall (fun k => (0 < k)%nat) sched ->
    (mb + Decomp.zlen (Decomp.fp_rest st) + 1) * (Z.of_nat k + 1) <= Z.of_nat fuel ->
    header_loop dstep fuel st usize acc sched <> Err EFuel.
Proof. exact header_loop_terminates. Qed.
Print Assumptions C05_encoded_header_loop_terminates.

Theorem C05_encoded_header_loop_refuted :
  forall (stage_st : Type) (dstep : stage_st -> bytes -> Z -> stage_st * bytes) (quiet : stage_st -> Prop),
    (forall s ml, quiet s -> snd (dstep s [] ml) = [] /\ quiet (fst (dstep s [] ml))) ->
    forall fuel st usize acc sched,
      Decomp.stuck quiet st -> Decomp.zlen acc < usize ->
      header_loop dstep fuel st usize acc sched = Err EFuel.
Proof. exact header_loop_spins. Qed.
Print Assumptions C05_encoded_header_loop_refuted.

Theorem C05_encoded_header_size_exceeds_stream_refuted : forall fuel,
  toy_header_loop fuel [Decomp.toy_st 0 0 []] [10] 3 100 [1; 2; 3] 10 [] = Err EFuel.
Proof. exact toy_header_loop_spins. Qed.
Print Assumptions C05_encoded_header_size_exceeds_stream_refuted.

(* non-vacuity of the cost functions: concrete values *)
Example C05_cost_examples :
  packpositions [3; 4; 5] 3 = [0; 3; 7; 12] /\ packpositions_steps 3 3 = 10 /\
  utf16_iters [65; 0; 0; 0; 7] = 2 /\ names_steps 3 [65; 0; 0; 0] = 131074 /\
  packed_indices_steps [(1, 0); (2, 1)] 3 = 5 /\ read_digest_iters (2 ^ 63) (2 ^ 20) = 2 ^ 43 /\
  parse_header 10 [1; 5; 3; 0; 0] <> Err EFuel /\ parse_header 2 [1; 5; 3; 0; 0] = Err EFuel.
Proof. vm_compute. repeat split; try reflexivity. discriminate. Qed.
