(* C12 -- Read sessions are repeatable and never modify the archive.
   Only statements, `exact`, Print Assumptions.  The machine is coq/theories/RSession.v (a transcription of
   SevenZipFile's read-mode calls and Worker.extract over cached folder decoders), tied to py7zr by
   tools/harness/c12.py (every disciplined call sequence up to the tier's length, results + file operations).
   [crc] is any digest function; the witnesses use CRC-32. *)
From P7 Require Import Prelude Crc32 RSession RSessionProofs.
Open Scope Z_scope.

(* ---- reset() ------------------------------------------------------------------------------------ *)
(* after reset() the state later calls can depend on (fp position, worker target map, decoder cache) is
   that of a freshly opened archive, from ANY state *)
Theorem C12_after_reset_fresh : forall (crc : bytes -> Z) (A : arch) (s : st),
  abs (step_reset crc A s) = abs (fresh A).
Proof. exact after_reset_fresh. Qed.
Print Assumptions C12_after_reset_fresh.

(* hence each of the eleven calls gives after reset() what it gives on a freshly opened archive *)
Theorem C12_after_reset_results : forall (crc : bytes -> Z) (A : arch) (s : st) (o : op),
  snd (step crc A (step_reset crc A s) o) = fresh_result crc A o.
Proof. exact after_reset_results. Qed.
Print Assumptions C12_after_reset_results.

(* ---- sessions ------------------------------------------------------------------------------------ *)
(* FULL statement (every call of every sequence obeying the property's discipline gives the fresh-session
   result): FALSE of py7zr.  Witness: extractall(factory); testzip() -- testzip never returns. *)
Theorem C12_session_equiv_refuted :
  exists (A : arch) (ops : list op) (i : nat) (o : op) (r : result),
    wf_arch A = true /\ disciplined false ops = true /\
    nth_error ops i = Some o /\ nth_error (fst (run crc32 A (fresh A) ops)) i = Some r /\
    r <> fresh_result crc32 A o.
Proof. exact session_equiv_refuted. Qed.
Print Assumptions C12_session_equiv_refuted.

(* what holds: under the property's discipline every call, in sequences of any length, gives the
   fresh-session result, the only exception being a testzip() made while decoders are cached *)
Theorem C12_session_equiv_partial : forall (crc : bytes -> Z) (A : arch) (ops : list op),
  disciplined false ops = true ->
  forall (i : nat) (o : op) (r : result),
    nth_error ops i = Some o -> nth_error (fst (run crc A (fresh A) ops)) i = Some r ->
    (o = OTestzip /\ dirty_after false (firstn i ops) = true) \/ r = fresh_result crc A o.
Proof. exact session_equiv_partial. Qed.
Print Assumptions C12_session_equiv_partial.

(* and with the discipline extended to testzip() (every decoding call after a decoding call has a reset()
   between) the whole statement holds *)
Theorem C12_session_equiv_strict : forall (crc : bytes -> Z) (A : arch) (ops : list op),
  strict false ops = true ->
  forall (i : nat) (o : op) (r : result),
    nth_error ops i = Some o -> nth_error (fst (run crc A (fresh A) ops)) i = Some r ->
    r = fresh_result crc A o.
Proof. exact session_equiv_strict. Qed.
Print Assumptions C12_session_equiv_strict.

Example C12_strict_hypothesis_met :
  strict false [OXallF; OReset; OExt [1]; OTest; OReset; OTestzip; OGetnames; OReset; OXallP] = true.
Proof. exact ex_strict_session. Qed.

Example C12_disciplined_hypothesis_met :
  disciplined false [OExt [1]; OTestzip; OTest; OReset; OXallF] = true
  /\ strict false [OExt [1]; OTestzip; OTest; OReset; OXallF] = false.
Proof. exact ex_disciplined_not_strict. Qed.

(* ---- verdicts ------------------------------------------------------------------------------------ *)
(* FULL statement (test() and testzip() right at any point of a disciplined session): FALSE of py7zr.
   (1) after extractall testzip never returns; (2) after extract(targets) that stopped inside a solid
   folder testzip names an intact member; (3) on a fresh session of a multi-folder, not password-protected
   archive opened from a nameless stream testzip raises InternalError. *)
Theorem C12_verdict_anywhere_refuted :
  (exists (A : arch) (ops : list op),
      wf_arch A = true /\ disciplined false ops = true /\
      (forall r, In r (fst (run crc32 A (fresh A) ops)) -> hung r = false) /\
      snd (step crc32 A (state_after A ops) OTestzip) = Err EFuel)
  /\ (exists (A : arch) (ops : list op) (wrong : Z),
      wf_arch A = true /\ disciplined false ops = true /\ zip_spec crc32 A = None /\
      snd (step crc32 A (state_after A ops) OTestzip) = Ok (VZip (Some wrong)))
  /\ (exists (A : arch), wf_arch A = true /\ snd (step crc32 A (fresh A) OTestzip) = Err EOther).
Proof. exact verdict_anywhere_refuted. Qed.
Print Assumptions C12_verdict_anywhere_refuted.

(* Err EFuel is a real non-termination, not an artefact of the fuel: a decoder with fewer bytes left than
   asked for makes the loop of Worker.decompress fail to end for EVERY fuel *)
Theorem C12_exhausted_decoder_spins : forall (fuel : nat) (s : bytes) (p size mb : Z),
  0 < mb -> 0 <= p -> blen s - p < size -> 0 < size -> wloop fuel s p size mb = Err EFuel.
Proof. exact wloop_short. Qed.
Print Assumptions C12_exhausted_decoder_spins.

(* and with enough bytes left it ends, handing out exactly the next [size] bytes *)
Theorem C12_decoder_delivers : forall (fuel : nat) (s : bytes) (p size mb : Z),
  0 < mb -> 0 <= p -> 0 <= size -> p + size <= blen s -> (Z.to_nat size <= fuel)%nat ->
  wloop fuel s p size mb = Ok (p + size, take s p size).
Proof. exact wloop_ok. Qed.
Print Assumptions C12_decoder_delivers.

(* what holds, 1: test() gives the right verdict in every state whatsoever (None = no packed-stream digest
   stored, nothing to report; Some b = whether all stored digests match) *)
Theorem C12_test_right_anywhere : forall (crc : bytes -> Z) (A : arch) (s : st),
  snd (step crc A s OTest) = Ok (VVerdict (test_spec A)).
Proof. exact test_right_anywhere. Qed.
Print Assumptions C12_test_right_anywhere.

(* what holds, 2: testzip() gives the right verdict (the first member, in archive order, whose bytes do not
   have the stored digest, else None) whenever no decoder is cached -- a fresh session, or right after
   reset() -- except for a several-folder, not password-protected archive opened from a nameless stream
   (par_ok: one folder, or testzip not parallel, or the file has a name) *)
Theorem C12_testzip_clean_right : forall (crc : bytes -> Z) (A : arch) (s : st),
  wf_arch A = true -> clean A s ->
  ((exists fo, a_folders A = [fo]) \/ testzip_parallel A = false \/ has_name A = true) ->
  snd (step crc A s OTestzip) = Ok (VZip (zip_spec crc A)).
Proof. exact testzip_clean_right. Qed.
Print Assumptions C12_testzip_clean_right.

(* what holds, 3: along sessions of any length *)
Theorem C12_verdict_partial : forall (crc : bytes -> Z) (A : arch) (ops : list op),
  wf_arch A = true ->
  let s := snd (run crc A (fresh A) ops) in
  snd (step crc A s OTest) = Ok (VVerdict (test_spec A))
  /\ (dirty_after false ops = false ->
      (forall r, In r (fst (run crc A (fresh A) ops)) -> hung r = false) ->
      ((exists fo, a_folders A = [fo]) \/ testzip_parallel A = false \/ has_name A = true) ->
      snd (step crc A s OTestzip) = Ok (VZip (zip_spec crc A))).
Proof. exact verdict_partial. Qed.
Print Assumptions C12_verdict_partial.

Example C12_verdict_partial_hypotheses_met :
  wf_arch exMdmg = true
  /\ dirty_after false [OXallF; OTest; OReset; OList] = false
  /\ (forall r, In r (fst (run crc32 exMdmg (fresh exMdmg) [OXallF; OTest; OReset; OList])) -> hung r = false)
  /\ testzip_parallel exMdmg = false.
Proof. split; [exact exMdmg_wf | exact ex_verdict_partial_hyps]. Qed.

(* a damaged archive: both verdicts name the damage, fresh and after reset() *)
Example C12_damaged_archive_verdicts :
  zip_spec crc32 exMdmg = Some 3 /\ test_spec exMdmg = Some false
  /\ fst (run crc32 exMdmg (fresh exMdmg) [OTestzip; OReset; OTestzip; OTest])
     = [Ok (VZip (Some 3)); Ok VUnit; Ok (VZip (Some 3)); Ok (VVerdict (Some false))].
Proof. exact w_damaged_verdicts. Qed.

Example C12_witness_archives_wellformed : wf_arch exS = true /\ wf_arch exM = true.
Proof. split; [exact exS_wf | exact exM_wf]. Qed.

(* the three witnesses as they are replayed on the implementation *)
Example C12_witness_extractall_testzip :
  disciplined false [OXallF; OTestzip] = true
  /\ zip_spec crc32 exS = None
  /\ snd (step crc32 exS (state_after exS [OXallF]) OTestzip) = Err EFuel
  /\ fst (run crc32 exS (fresh exS) [OXallF; OTestzip])
     = [Ok (VDeliv [(0, w_a); (1, w_b); (2, w_c)] []); Err EFuel].
Proof. exact w_testzip_after_extractall_hangs. Qed.

Example C12_witness_partial_extract_testzip :
  disciplined false [OExt [1]; OTestzip] = true
  /\ zip_spec crc32 exS = None
  /\ snd (step crc32 exS (state_after exS [OExt [1]]) OTestzip) = Ok (VZip (Some 0)).
Proof. exact w_testzip_after_partial_extract_wrong. Qed.

Example C12_witness_stream_multifolder :
  snd (step crc32 exM (fresh exM) OTestzip) = Err EOther /\ zip_spec crc32 exM = None.
Proof. exact w_testzip_stream_multifolder. Qed.

(* ---- the two proposed repairs --------------------------------------------------------------------- *)
(* The machine carries two switches, false for the code as it is: a_fixz = testzip() begins with reset();
   a_fixp = testzip()'s parallel flag also requires an archive opened by path.  With them the FULL statements
   hold (the harness selects the switches by probing the implementation, so these are the theorems in force
   once py7zr is repaired). *)
Theorem C12_session_equiv_repaired : forall (crc : bytes -> Z) (A : arch) (ops : list op),
  a_fixz A = true -> disciplined false ops = true ->
  forall (i : nat) (o : op) (r : result),
    nth_error ops i = Some o -> nth_error (fst (run crc A (fresh A) ops)) i = Some r -> r = fresh_result crc A o.
Proof. exact session_equiv_fixed. Qed.
Print Assumptions C12_session_equiv_repaired.

Theorem C12_verdict_anywhere_repaired : forall (crc : bytes -> Z) (A : arch) (s : st),
  a_fixz A = true -> a_fixp A = true -> wf_arch A = true ->
  snd (step crc A s OTest) = Ok (VVerdict (test_spec A))
  /\ snd (step crc A s OTestzip) = Ok (VZip (zip_spec crc A)).
Proof.
  intros crc A s Hz Hp Hwf. split; [apply test_right_anywhere | now apply testzip_right_anywhere_fixed].
Qed.
Print Assumptions C12_verdict_anywhere_repaired.

Example C12_repaired_witnesses :
  wf_arch (repaired exS) = true /\ wf_arch (repaired exM) = true
  /\ fst (run crc32 (repaired exS) (fresh (repaired exS)) [OXallF; OTestzip; OReset; OExt [1]; OTestzip])
     = [Ok (VDeliv [(0, w_a); (1, w_b); (2, w_c)] []); Ok (VZip None); Ok VUnit; Ok (VDeliv [(1, w_b)] []);
        Ok (VZip None)]
  /\ snd (step crc32 (repaired exM) (fresh (repaired exM)) OTestzip) = Ok (VZip None).
Proof. exact w_repaired. Qed.

(* ---- the archive is never written ------------------------------------------------------------------ *)
(* a whole read session -- constructor, ANY calls in any order (disciplined or not), close -- issues on the
   archive only: open in mode 'rb', seek, read, close *)
Theorem C12_read_never_writes : forall (crc : bytes -> Z) (A : arch) (ops : list op),
  forallb ev_ok (s_log (snd (run crc A (fresh A) ops)) ++ close_events A) = true.
Proof. exact read_never_writes. Qed.
Print Assumptions C12_read_never_writes.

(* per call, from any state *)
Theorem C12_call_never_writes : forall (crc : bytes -> Z) (A : arch) tgt decs (o : op),
  forallb ev_ok (snd (fst (core crc A tgt decs o))) = true.
Proof. exact core_never_writes. Qed.
Print Assumptions C12_call_never_writes.

(* the constructor's retry loop over modeDict cannot turn mode 'r' into a writable mode, whatever open()
   accepts; for mode 'a' it can (shown so that the statement is not vacuous) *)
Theorem C12_mode_r_opens_rb : forall (can : fm -> bool) (m : fm), ctor_open can Fr = Some m -> m = Frb.
Proof. exact ctor_open_r. Qed.
Print Assumptions C12_mode_r_opens_rb.

Example C12_mode_a_falls_through :
  ctor_open (fun m => match m with Fwpb => true | _ => false end) Fa = Some Fwpb.
Proof. exact ctor_open_a_falls_through. Qed.
