(* C08 -- append preserves history.  Statements only (general theorems arrive with HeaderProofs.v / AppendProofs.v). *)
From P7 Require Import Prelude PyPrims Number Header Spec.
Open Scope Z_scope.

(* re-serialising a parsed py7zr-like header is lossless for the members it describes (concrete instance by computation) *)
Definition c08_example : header :=
  mkHeader
    (Some (mkStreams (Some (mkPack 0 2 [40; 7] [] []))
                     (Some [mkFolder [mkCoder [33] 1 1 (Some [24])] [] [] [300] false None;
                            mkFolder [mkCoder [0] 1 1 None] [] [] [7] false None])
                     (Some (mkSub [2; 1] (Some [100; 200; 7]) [true; true; true] [305419896; 2596069104; 7]))))
    (Some [mkFile false (Some [97]) None None (Some (Some 132223104000000000)) (Some (Some 32));
           mkFile true (Some [100]) None None (Some (Some 132223104000000001)) (Some (Some 16));
           mkFile false (Some [98]) None None (Some None) (Some (Some 32));
           mkFile false (Some [99]) None None (Some (Some 5)) (Some None)])
    [false; true; false; false].

Example C08_reserialise_lossless_example :
  match write_header false 79 c08_example with
  | Ok bs => match parse_header 1000 bs with
             | Ok h' => match write_header false 79 h' with
                        | Ok bs' => bs' = bs /\
                                    match s_header 1000 bs, s_header 1000 bs' with
                                    | Ok a, Ok b => spec_plans a = spec_plans b /\ length (spec_plans a) = 4%nat
                                    | _, _ => False
                                    end
                        | Err _ => False
                        end
             | Err _ => False
             end
  | Err _ => False
  end.
Proof. vm_compute. repeat split; reflexivity. Qed.
