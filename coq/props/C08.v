(* C08 -- append preserves history.  Statements only; model in theories/Append.v, proofs in theories/AppendProofs.v
   (composition with HeaderProofs.header_roundtrip and Assign.v impl_plans). *)
From P7 Require Import Prelude PyPrims Number Header Spec Assign AssignProofs Append AppendProofs.
From P7 Require HeaderProofs.
Open Scope Z_scope.

(* re-serialising a parsed py7zr-like header is lossless for the members it describes (concrete instance by computation) *)
Definition c08_example : header :=
  mkHeader
    (Some (mkStreams (Some (mkPack 0 2 [40; 7] [] []))
                     (Some [mkFolder [mkCoder [33] 1 1 (Some [24])] [] [] [300] false None;
                            mkFolder [mkCoder [0] 1 1 None] [] [] [7] false None])
                     (Some (mkSub [2; 1] (Some [100; 200; 7]) [true; true; true] [305419896; 2596069104; 7]))))
    (Some [mkFile false (Some [97]) None None (Some (Some 132223104000000000)) (Some (Some 32));
           mkFile true (Some [100]) None None (Some (Some 132223104000000001)) (Some (Some 16));
           mkFile false (Some [98]) None None (Some None) (Some (Some 32));
           mkFile false (Some [99]) None None (Some (Some 5)) (Some None)])
    [false; true; false; false].

Example C08_reserialise_lossless_example :
  match write_header false 79 c08_example with
  | Ok bs => match parse_header 1000 bs with
             | Ok h' => match write_header false 79 h' with
                        | Ok bs' => bs' = bs /\
                                    match s_header 1000 bs, s_header 1000 bs' with
                                    | Ok a, Ok b => spec_plans a = spec_plans b /\ length (spec_plans a) = 4%nat
                                    | _, _ => False
                                    end
                        | Err _ => False
                        end
             | Err _ => False
             end
  | Err _ => False
  end.
Proof. vm_compute. repeat split; reflexivity. Qed.

(* ------------------------------------------------------------------ *)
(* (1) the meaning of the result extends the meaning of the base: every earlier entry keeps name, kind,
   folder, offset, size, CRC, mtime, attributes and id; the session's members follow in order, in the new
   folder, at consecutive offsets *)
Theorem C08_append_preserves_plans : forall pw h nf ms psz pcrc h' ps,
  base_ok h = true -> impl_plans h = Ok ps -> forallb member_ok ms = true ->
  append_session pw h nf ms psz pcrc = Ok h' ->
  impl_plans h' = Ok (ps ++ new_plans (nfiles h) (nfolders h) 0 ms).
Proof. exact append_preserves_plans. Qed.
Print Assumptions C08_append_preserves_plans.

(* a base that was read WITHOUT SubStreamsInfo: _real_get_contents installs SubstreamsInfo.default(folders) in the
   graph (Assign.install_sub) and the session works on that; the earlier plans are those of the graph as parsed *)
Theorem C08_append_preserves_installed_base : forall pw h nf ms psz pcrc h' ps,
  base_ok (install_sub h) = true -> impl_plans h = Ok ps -> forallb member_ok ms = true ->
  append_session pw (install_sub h) nf ms psz pcrc = Ok h' ->
  impl_plans h' = Ok (ps ++ new_plans (nfiles h) (nfolders h) 0 ms).
Proof. exact append_preserves_installed_base. Qed.
Print Assumptions C08_append_preserves_installed_base.

(* the same for a base read from a header that is valid by the format's own reading (Spec.v, AssignProofs.nice):
   its plans are the format's plans (assign_conforms) and the append extends them *)
Theorem C08_append_preserves_spec_base : forall pw sh nf ms psz pcrc h',
  nice sh = true -> forallb member_ok ms = true ->
  append_session pw (embed sh) nf ms psz pcrc = Ok h' ->
  exists ps, impl_plans (embed sh) = Ok ps /\ plans_agree 0 (spec_plans sh) ps = true /\
             impl_plans h' = Ok (ps ++ new_plans (zlen (sh_files sh)) (zlen (sh_folders sh)) 0 ms).
Proof. exact append_preserves_spec_base. Qed.
Print Assumptions C08_append_preserves_spec_base.

(* ... and what close() writes reads back with those plans *)
Theorem C08_append_then_reopen : forall lim pw h nf ms psz pcrc h' ps pos bs,
  base_ok h = true -> impl_plans h = Ok ps -> forallb member_ok ms = true ->
  append_session pw h nf ms psz pcrc = Ok h' ->
  HeaderProofs.wf_header lim (enable_digests pw h) (canon_header h') = true ->
  sizes_canonical h' = true -> nums_nonempty h' = true ->
  write_header (enable_digests pw h) pos h' = Ok bs ->
  exists h2, parse_header lim bs = Ok h2 /\
             impl_plans h2 = Ok (ps ++ new_plans (nfiles h) (nfolders h) 0 ms).
Proof. exact append_then_reopen. Qed.
Print Assumptions C08_append_then_reopen.

(* re-serialisation alone: norm drops only what impl_plans does not read *)
Theorem C08_impl_plans_norm : forall lim en h,
  HeaderProofs.wf_header lim en h = true -> sizes_canonical h = true -> nums_nonempty h = true ->
  impl_plans (HeaderProofs.norm en h) = impl_plans h.
Proof. exact impl_plans_norm. Qed.
Print Assumptions C08_impl_plans_norm.

(* (2) the new packed stream starts exactly at the end of the base's packed area; the packed streams of the
   result tile [start, pos + packsize); no old packed byte lies in what the session writes *)
Theorem C08_append_position_after_data : forall pw h nf ms psz pcrc h' ah,
  ms <> [] -> append_session pw h nf ms psz pcrc = Ok h' ->
  let p := base_pack h in
  p_numstreams p = zlen (p_sizes p) ->
  let start := ah + p_pos p in
  let pos := start + sumZ (p_sizes p) in
  append_position h ah = Ok pos /\
  exists p', pack_of h' = Some p' /\ p_pos p' = p_pos p /\ p_sizes p' = p_sizes p ++ [psz] /\
             p_numstreams p' = zlen (p_sizes p') /\
             tiling start (p_sizes p') = tiling start (p_sizes p) ++ [(pos, psz)] /\
             tiles start (tiling start (p_sizes p')) (pos + psz) /\
             (Forall (fun x => 0 <= x) (p_sizes p) ->
              forall o s, In (o, s) (tiling start (p_sizes p)) -> start <= o /\ o + s <= pos).
Proof. exact append_position_after_data. Qed.
Print Assumptions C08_append_position_after_data.

(* (3) k sessions: the graph a session leaves is again a base, and every earlier plan survives; with the
   archive written and read back between the sessions (reopen_checked: Header.write, Header._read, the
   generated names, guarded by the computable well-formedness conditions of the round trip) *)
Theorem C08_append_session_base_ok : forall pw h nf ms psz pcrc h',
  base_ok h = true -> forallb member_ok ms = true ->
  append_session pw h nf ms psz pcrc = Ok h' -> base_ok h' = true.
Proof. exact append_session_base_ok. Qed.
Print Assumptions C08_append_session_base_ok.

Theorem C08_append_sessions_preserve : forall lim pw posf dflt ss h ps hk,
  base_ok h = true -> impl_plans h = Ok ps ->
  Forall (fun s => forallb member_ok (ss_members s) = true) ss ->
  append_sessions (reopen_checked lim pw posf dflt) pw h ss = Ok hk ->
  base_ok hk = true /\ exists qs, impl_plans hk = Ok (ps ++ qs).
Proof. exact append_sessions_preserve_reopened. Qed.
Print Assumptions C08_append_sessions_preserve.

Theorem C08_append_sessions_preserve_graph : forall pw ss h ps hk,
  base_ok h = true -> impl_plans h = Ok ps ->
  Forall (fun s => forallb member_ok (ss_members s) = true) ss ->
  append_sessions (fun x => Ok x) pw h ss = Ok hk ->
  base_ok hk = true /\ exists qs, impl_plans hk = Ok (ps ++ qs).
Proof. exact append_sessions_preserve_graph. Qed.
Print Assumptions C08_append_sessions_preserve_graph.

(* the hypotheses are met by concrete non-trivial states (a two-folder base with a directory between data
   entries; a session of two data members and a directory; a foreign base without SIZE record, with partly
   defined packed-stream CRCs; two sessions with a real re-open between them) *)
Example C08_hypotheses_example :
  base_ok x_base = true /\ forallb member_ok x_members = true /\
  exists h', append_session false x_base x_newfolder x_members 12 999 = Ok h' /\
             HeaderProofs.wf_header 1000 (enable_digests false x_base) (canon_header h') = true /\
             sizes_canonical h' = true /\ nums_nonempty h' = true /\
             reopen_guard 1000 (enable_digests false h') h' = true.
Proof. exact append_example_hypotheses. Qed.

Example C08_partial_pack_crc_example :
  exists h' bs h2, append_session false x_foreign x_newfolder x_members 12 999 = Ok h' /\
    write_header (enable_digests false x_foreign) 84 h' = Ok bs /\ parse_header 1000 bs = Ok h2 /\
    option_map (fun p => (p_sizes p, p_digestdefined p, p_crcs p)) (pack_of h2) =
      Some ([40; 7; 12], [true; false; true], [77; 0; 999]) /\
    append_position x_foreign 32 = Ok (32 + 5 + 47).
Proof. exact append_partial_pack_crc_example. Qed.

Example C08_sessions_example :
  let s1 := mkSession x_newfolder x_members 12 999 in
  let s2 := mkSession (mkFolder [x_lzma2] [] [] [9] false None) [mkMember (x_file 130 6000) (Some (9, 333))] 20 555 in
  exists ps hk qs, impl_plans x_foreign = Ok ps /\ length ps = 3%nat /\
    append_sessions (reopen_checked 1000 false (fun _ => 100) [99]) false x_foreign [s1; s2] = Ok hk /\
    impl_plans hk = Ok (ps ++ qs) /\ length qs = 4%nat.
Proof. exact append_sessions_example. Qed.

(* a base without SubStreamsInfo (two folders, the first with a folder-level CRC): opened, appended to, written and
   read back *)
Example C08_no_substreams_example :
  exists bs0 h ps h' bs h2,
    write_header false 79 x_nosub = Ok bs0 /\
    open_for_append 1000 [99] bs0 = Ok h /\
    option_map si_sub (h_streams h) = Some (Some (mkSub [1; 1] None [false; false] [0; 0])) /\
    install_sub x_nosub =
      mkHeader (Some (mkStreams (Some (mkPack 0 2 [40; 7] [] []))
                                (Some [mkFolder [x_lzma2] [] [0] [300] true (Some 11); mkFolder [x_copy] [] [0] [7] false None])
                                (Some (mkSub [1; 1] None [true; false] [11; 0]))))
               (h_files x_nosub) (h_emptyfiles x_nosub) /\
    base_ok (install_sub x_nosub) = true /\ forallb member_ok x_members = true /\
    impl_plans x_nosub = Ok ps /\
    map (fun p => (ip_id p, ip_kind p, ip_folder p, ip_offset p, ip_size p, ip_crc p)) ps =
      [(0, 0, 0, 0, 300, Some 11); (1, 2, -1, 0, 0, None); (2, 0, 1, 0, 7, None)] /\
    append_session false (install_sub x_nosub) x_newfolder x_members 12 999 = Ok h' /\
    impl_plans h' = Ok (ps ++ new_plans 3 2 0 x_members) /\
    reopen_guard 1000 false h' = true /\
    write_header false 79 h' = Ok bs /\ parse_header 1000 bs = Ok h2 /\
    impl_plans h2 = Ok (ps ++ new_plans 3 2 0 x_members).
Proof. exact append_no_substreams_example. Qed.

(* an existing archive whose header cannot be read (here: a valid header with ArchiveProperties) is refused,
   never replaced *)
Example C08_open_unreadable_example :
  exists bs0, write_header false 79 x_base = Ok bs0 /\
    (exists sh, s_header 1000 (1 :: [2; 153; 1; 7; 0] ++ tl bs0) = Ok sh /\ s_valid sh = true /\ length (spec_plans sh) = 4%nat) /\
    open_for_append 1000 [99] (1 :: [2; 153; 1; 7; 0] ++ tl bs0) = Err EBad7z.
Proof. exact open_for_append_unreadable_example. Qed.

(* ------------------------------------------------------------------ *)
(* (4) creation and access times (7-Zip -mtc/-mta; the format lets every entry carry them): an append keeps
   them at every earlier entry.  times_of h = per entry (creation time, access time), None when undefined.
   No hypothesis on the base other than the conditions of the header round trip. *)
(* the graph at close: earlier entries are the same records, the session's entries follow *)
Theorem C08_append_session_times : forall pw h nf ms psz pcrc h',
  append_session pw h nf ms psz pcrc = Ok h' ->
  times_of h' = times_of h ++ map (fun m => entry_times (m_file m)) ms.
Proof. exact append_session_times. Qed.
Print Assumptions C08_append_session_times.

(* what close() writes reads back with the times of every earlier entry at its position *)
Theorem C08_append_then_reopen_times : forall lim pw h nf ms psz pcrc h' pos bs,
  append_session pw h nf ms psz pcrc = Ok h' ->
  HeaderProofs.wf_header lim (enable_digests pw h) (canon_header h') = true ->
  write_header (enable_digests pw h) pos h' = Ok bs ->
  exists h2, parse_header lim bs = Ok h2 /\
             times_of h2 = times_of h ++ map (fun m => entry_times (m_file m)) ms /\
             firstn (length (times_of h)) (times_of h2) = times_of h.
Proof. exact append_then_reopen_times. Qed.
Print Assumptions C08_append_then_reopen_times.

(* re-serialisation alone keeps the times of every entry *)
Theorem C08_reserialise_keeps_times : forall lim en pos h bs,
  HeaderProofs.wf_header lim en (canon_header h) = true -> write_header en pos h = Ok bs ->
  exists h2, parse_header lim bs = Ok h2 /\ times_of h2 = times_of h.
Proof. exact reserialise_keeps_times. Qed.
Print Assumptions C08_reserialise_keeps_times.

(* k sessions with the archive written and read back between them *)
Theorem C08_append_sessions_preserve_times : forall lim pw posf dflt ss h hk,
  append_sessions (reopen_checked lim pw posf dflt) pw h ss = Ok hk ->
  exists ts, times_of hk = times_of h ++ ts.
Proof. exact append_sessions_preserve_times. Qed.
Print Assumptions C08_append_sessions_preserve_times.

(* the hypotheses are met: the foreign base whose first entry has creation time 1 and access time 2 (the
   witness of the repaired defect C08-append-drops-ctime-atime) *)
Example C08_append_keeps_ctime_atime_example :
  exists h' bs h2, append_session false x_foreign x_newfolder x_members 12 999 = Ok h' /\
    write_header (enable_digests false x_foreign) 84 h' = Ok bs /\ parse_header 1000 bs = Ok h2 /\
    times_of x_foreign = [(Some 1, Some 2); (None, None); (None, None)] /\
    times_of h2 = times_of x_foreign ++ [(None, None); (None, None); (None, None)] /\
    option_map (fun fl => map (fun e => (e_ctime e, e_atime e)) (firstn 2 fl)) (h_files h2) =
      Some [(Some (Some 1), Some (Some 2)); (Some None, Some None)].
Proof. exact append_keeps_ctime_atime_example. Qed.

(* regression: with the writer as it was before the repair (no CREATION_TIME / LAST_ACCESS_TIME records) the
   same session loses the times of the earlier entry *)
Example C08_append_drops_ctime_atime_unrepaired :
  exists h' bs h2, append_session false x_foreign x_newfolder x_members 12 999 = Ok h' /\
    write_header_unrepaired (enable_digests false x_foreign) 84 h' = Ok bs /\ parse_header 1000 bs = Ok h2 /\
    option_map (fun fl => map (fun e => (e_ctime e, e_atime e)) (firstn 1 fl)) (h_files x_foreign) = Some [(Some (Some 1), Some (Some 2))] /\
    option_map (fun fl => map (fun e => (e_ctime e, e_atime e)) (firstn 1 fl)) (h_files h2) = Some [(None, None)] /\
    times_of h2 <> times_of x_foreign ++ [(None, None); (None, None); (None, None)].
Proof. exact append_drops_ctime_atime_unrepaired. Qed.

(* ------------------------------------------------------------------ *)
(* (5) what an append does NOT preserve of a foreign base *)
Theorem C08_append_names_unnamed_refuted :
  exists bs0 h h' bs h2,
    write_header false 39 x_unnamed = Ok bs0 /\ s_valid match s_header 1000 bs0 with Ok a => a | Err _ => mkSHeader 0 [] [] [] [] [] [] [] [] end = true /\
    open_for_append 1000 [99] bs0 = Ok h /\
    append_session false h x_newfolder x_members 12 999 = Ok h' /\
    write_header false 51 h' = Ok bs /\ parse_header 1000 bs = Ok h2 /\
    option_map (fun fl => map e_name (firstn 1 fl)) (h_files x_unnamed) = Some [None] /\
    option_map (fun fl => map e_name (firstn 1 fl)) (h_files h2) = Some [Some [99]].
Proof. exact append_names_unnamed_refuted. Qed.

(* necessity of base_ok's clause on bases without SIZE record (reader: unpacksizes[-1]; initialize: get_unpack_size()) *)
Theorem C08_append_needs_last_is_main_refuted :
  base_ok x_mainfirst = false /\
  exists ps h' ps', impl_plans x_mainfirst = Ok ps /\ map ip_size ps = [7] /\
    append_session false x_mainfirst x_newfolder x_members 12 999 = Ok h' /\
    impl_plans h' = Ok ps' /\ map ip_size (firstn 1 ps') = [5].
Proof. exact append_needs_last_is_main_refuted. Qed.
