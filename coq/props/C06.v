(* C06 -- reader conformance.  Statements only. *)
From P7 Require Import Prelude PyPrims Number Header Spec Assign.
Open Scope Z_scope.

(* placeholder obligations (computation on a concrete header) until AssignProofs.v lands *)
Example C06_spec_reads_minimal_header :
  match s_header 100 [1; 0] with Ok h => s_valid h = true /\ spec_plans h = [] | Err _ => False end.
Proof. vm_compute. split; reflexivity. Qed.
