(* C06 -- reader conformance: any valid 7z layout is read as the format defines it.
   Statements, `exact`, Print Assumptions only; the proofs are in theories/AssignProofs.v.
   spec_plans (Spec.v): what the format says every entry is; impl_plans (Assign.v): what
   py7zr's _real_get_contents / worker-id arithmetic / kind decision make of the parsed header;
   embed (AssignProofs.v): the header graph py7zr's parser builds for a specification header that
   carries its SubStreamsInfo; embed_nosub: the graph for a header that omits the section;
   embed_nostreams: the graph for a header without MainStreamsInfo. *)
From P7 Require Import Prelude PyPrims Number Header Spec Assign AssignProofs.
From P7 Require PackInfoGen.
From P7 Require HeaderGenPrims FolderGen.
From P7 Require SubstreamsGen.
From P7 Require StreamsGen.
From P7 Require FilesGen.
From P7 Require Crc32 Trace SigGen.
From P7gen Require ArchiveinfoSig.
From P7gen Require ArchiveinfoRecords.
Open Scope Z_scope.

Example C06_spec_reads_minimal_header :
  match s_header 100 [1; 0] with Ok h => s_valid h = true /\ spec_plans h = [] | Err _ => False end.
Proof. vm_compute. split; reflexivity. Qed.

(* the conditions under which py7zr conforms, spelled out: structural validity, counts are counts,
   and no entry WITH data carries FILE_ATTRIBUTE_DIRECTORY.  Entries without data are not constrained:
   directory or empty file is read from the EmptyFile bit, as the format says, whatever their attributes *)
Theorem C06_nice_spelled_out : forall h,
  nice h = s_valid h
           && forallb (fun n => 0 <=? n) (sh_nums h)
           && forallb (fun p => negb ((pl_kind p =? 0)
                                      && (match pl_attr p with Some v => negb (Z.land v 16 =? 0) | None => false end)))
                      (spec_plans h).
Proof. intros h. reflexivity. Qed.
Print Assumptions C06_nice_spelled_out.

(* A. every number of folders, sub-streams and entries: name, kind, folder, offset in folder,
   size, CRC, mtime, attributes and lookup id of every entry are the format's *)
Theorem C06_assign_conforms : forall h, nice h = true ->
  exists ps, impl_plans (embed h) = Ok ps /\ plans_agree 0 (spec_plans h) ps = true.
Proof. exact assign_conforms. Qed.
Print Assumptions C06_assign_conforms.

(* archives without MainStreamsInfo (py7zr: header.main_streams is None) *)
Theorem C06_assign_conforms_nostreams : forall h, nice h = true -> sh_folders h = [] ->
  exists ps, impl_plans (embed_nostreams h) = Ok ps /\ plans_agree 0 (spec_plans h) ps = true.
Proof. exact assign_conforms_nostreams. Qed.
Print Assumptions C06_assign_conforms_nostreams.

(* archives without SubStreamsInfo (py7zr: main_streams.substreamsinfo is None after parsing): the format says one
   sub-stream per folder whose size and CRC are the folder's -- which is what `absent_sub` states of the three
   sub-stream vectors of the specification header; `sizes_from_last`: the folder's size is its last unpack size
   (true of every coder chain py7zr decodes) *)
Theorem C06_absent_sub_spelled_out : forall h,
  absent_sub h <->
  (sh_nums h = repeat 1 (length (sh_folders h)) /\
   s_default_sizes (sh_nums h) (sh_folders h) = Ok (sh_sizes h) /\
   sh_crcs h = map sf_crc (sh_folders h)).
Proof. intros h. reflexivity. Qed.
Print Assumptions C06_absent_sub_spelled_out.

Theorem C06_assign_conforms_no_substreams : forall h,
  nice h = true -> absent_sub h -> sizes_from_last h = true ->
  exists ps, impl_plans (embed_nosub h) = Ok ps /\ plans_agree 0 (spec_plans h) ps = true.
Proof. exact assign_conforms_no_substreams. Qed.
Print Assumptions C06_assign_conforms_no_substreams.

(* the object _real_get_contents installs in the graph for the absent section, and reading the graph again *)
Theorem C06_install_sub_embed_nosub : forall h,
  install_sub (embed_nosub h) =
  mkHeader (Some (mkStreams (Some (embed_pack h)) (Some (map embed_folder (sh_folders h)))
                            (Some (mkSub (repeat 1 (length (sh_folders h))) None
                                         (map is_some (map sf_crc (sh_folders h))) (map or0 (map sf_crc (sh_folders h)))))))
           (Some (sh_files h)) (sh_emptyfile h).
Proof. exact install_sub_embed_nosub. Qed.
Print Assumptions C06_install_sub_embed_nosub.
Theorem C06_impl_plans_install_sub : forall h, impl_plans (install_sub h) = impl_plans h.
Proof. exact impl_plans_install_sub. Qed.
Print Assumptions C06_impl_plans_install_sub.

(* the EmptyFile vector is consulted through the bit of each entry without data, in order (a short vector
   stands for one padded with False, surplus bits are not read) ... *)
Theorem C06_impl_reads_emptyfile_vector_aligned : forall st fl ef,
  let nes := Z.to_nat (count_true (map e_emptystream fl)) in
  impl_plans (mkHeader st (Some fl) (firstn nes (ef ++ repeat false nes))) = impl_plans (mkHeader st (Some fl) ef).
Proof. exact impl_plans_emptyfiles_aligned. Qed.
Print Assumptions C06_impl_reads_emptyfile_vector_aligned.
(* ... and it decides the kind of those entries: the decision of ArchiveFile.is_directory differs from the one made
   before the repair (attribute word alone) exactly on the entries without data whose attributes disagree with
   their EmptyFile bit *)
Theorem C06_kind_decision_vs_before_repair : forall e ef,
  entry_kind e ef = kind_before_repair e <->
  (e_emptystream e = true -> negb ef = attr_is_dir (e_attr e)).
Proof. exact kind_before_repair_agrees. Qed.
Print Assumptions C06_kind_decision_vs_before_repair.

(* B. what remains necessary, and what the repairs made unnecessary *)
Theorem C06_zero_folder_conforms :
  nice w_zero_folder = true /\
  exists ps, impl_plans (embed w_zero_folder) = Ok ps /\
    map iplan_view ps = [(0, 0, 1, 0, 5); (1, 0, 4, 0, 3); (2, 2, -1, 0, 0); (3, 0, 4, 3, 4)] /\
    plans_agree 0 (spec_plans w_zero_folder) ps = true.
Proof. exact assign_zero_folder_conforms. Qed.
Print Assumptions C06_zero_folder_conforms.

Theorem C06_multifolder_id_conforms :
  nice w_multi_id = true /\
  exists ps, impl_plans (embed w_multi_id) = Ok ps /\ map ip_id ps = [0; 1; 2; 3] /\
    plans_agree 0 (spec_plans w_multi_id) ps = true.
Proof. exact assign_multifolder_id_conforms. Qed.
Print Assumptions C06_multifolder_id_conforms.

Theorem C06_negative_count_refuted :
  s_valid w_negative = true /\ kinds_consistent w_negative = true /\ nums_nonneg w_negative = false /\
  map pl_folder (spec_plans w_negative) = [1] /\
  (exists ps, impl_plans (embed w_negative) = Ok ps /\ map ip_folder ps = [0]) /\
  disagrees w_negative.
Proof. exact assign_negative_count_refuted. Qed.
Print Assumptions C06_negative_count_refuted.

(* directories without attributes / with an attribute word lacking the directory bit, and an empty file whose
   attribute word carries it: read as the format says since the repair of ArchiveFile.is_directory *)
Theorem C06_dir_without_attribute_conforms :
  (nice w_dir_noattr = true /\
   map pl_kind (spec_plans w_dir_noattr) = [0; 2] /\
   exists ps, impl_plans (embed w_dir_noattr) = Ok ps /\ map ip_kind ps = [0; 2] /\
     plans_agree 0 (spec_plans w_dir_noattr) ps = true) /\
  (nice w_dir_attr_nobit = true /\
   map pl_kind (spec_plans w_dir_attr_nobit) = [2; 0; 2; 2] /\
   exists ps, impl_plans (embed w_dir_attr_nobit) = Ok ps /\ map ip_kind ps = [2; 0; 2; 2] /\
     plans_agree 0 (spec_plans w_dir_attr_nobit) ps = true).
Proof. exact assign_dir_without_attribute_conforms. Qed.
Print Assumptions C06_dir_without_attribute_conforms.

Theorem C06_emptyfile_with_dir_attribute_conforms :
  nice w_file_dirattr = true /\
  map pl_kind (spec_plans w_file_dirattr) = [0; 1] /\
  exists ps, impl_plans (embed w_file_dirattr) = Ok ps /\ map ip_kind ps = [0; 1] /\
    plans_agree 0 (spec_plans w_file_dirattr) ps = true.
Proof. exact assign_emptyfile_with_dir_attribute_conforms. Qed.
Print Assumptions C06_emptyfile_with_dir_attribute_conforms.

(* regression: the decision as it was (attribute word alone) misreads exactly these three headers *)
Example C06_kind_before_repair_refuted :
  (map kind_before_repair (sh_files w_dir_noattr) = [0; 1] /\ map pl_kind (spec_plans w_dir_noattr) = [0; 2]) /\
  (map kind_before_repair (sh_files w_dir_attr_nobit) = [1; 0; 1; 2] /\
   map pl_kind (spec_plans w_dir_attr_nobit) = [2; 0; 2; 2]) /\
  (map kind_before_repair (sh_files w_file_dirattr) = [0; 2] /\ map pl_kind (spec_plans w_file_dirattr) = [0; 1]).
Proof. exact assign_kind_before_repair_refuted. Qed.

(* what remains necessary of the clause on kinds: an entry WITH data whose attributes carry the directory bit
   is taken for a directory *)
Theorem C06_data_with_dir_attribute_refuted :
  s_valid w_data_dirattr && nums_nonneg w_data_dirattr = true /\ kinds_consistent w_data_dirattr = false /\
  map pl_kind (spec_plans w_data_dirattr) = [0] /\
  (exists ps, impl_plans (embed w_data_dirattr) = Ok ps /\ map ip_kind ps = [2]) /\
  disagrees w_data_dirattr.
Proof. exact assign_data_with_dir_attribute_refuted. Qed.
Print Assumptions C06_data_with_dir_attribute_refuted.

(* a header without SubStreamsInfo, read from its bytes by both parsers: the hypotheses above hold of what the
   specification reader yields, py7zr's parser yields embed_nosub of it, the member is assigned as the format says;
   before the repair (impl_plans_before_repair: `subinfo` None and dereferenced) the assignment raised *)
Theorem C06_no_substreams_conforms :
  exists h, s_header 100 w_nosub_bytes = Ok h /\ nice h = true /\ absent_sub h /\ sizes_from_last h = true /\
    parse_header 100 w_nosub_bytes = Ok (embed_nosub h) /\
    map (fun p => (pl_kind p, pl_folder p, pl_offset p, pl_size p)) (spec_plans h) = [(0, 0, 0, 5)] /\
    (exists ps, impl_plans (embed_nosub h) = Ok ps /\ map iplan_view ps = [(0, 0, 0, 0, 5)] /\
                plans_agree 0 (spec_plans h) ps = true) /\
    impl_plans_before_repair (embed_nosub h) = Err EOther.
Proof. exact assign_no_substreams_conforms. Qed.
Print Assumptions C06_no_substreams_conforms.

Theorem C06_before_repair_refuted :
  forall pk fs fl ef, existsb (fun e => negb (e_emptystream e)) fl = true ->
    impl_plans_before_repair (mkHeader (Some (mkStreams (Some pk) (Some fs) None)) (Some fl) ef) = Err EOther.
Proof. exact assign_before_repair_refuted. Qed.
Print Assumptions C06_before_repair_refuted.

(* C. every member is delivered once, under its own index, from the right position: the members of
   a folder, in archive order, occupy consecutive intervals from 0 to the sum of the folder's
   sub-stream sizes, which for a header read by the specification reader is the folder's unpack size *)
Theorem C06_extract_plan_complete : forall h, nice h = true ->
  exists ps, impl_plans (embed h) = Ok ps /\
    length ps = length (sh_files h) /\
    (forall i e p, nth_error (sh_files h) i = Some e -> nth_error ps i = Some p ->
       ip_id p = Z.of_nat i /\ ip_name p = e_name e /\ (ip_kind p =? 0) = negb (e_emptystream e)) /\
    (forall p, In p ps -> ip_kind p = 0 -> 0 <= ip_folder p < zlen (sh_folders h)) /\
    (forall f, (f < length (sh_folders h))%nat ->
       let chunk := folder_chunk (sh_nums h) (sh_sizes h) f in
       let ivs := map (fun p => (ip_offset p, ip_size p)) (filter (in_folder (Z.of_nat f)) ps) in
       ivs = tiling 0 chunk /\ tiles 0 ivs (sumZ chunk) /\ zlen chunk = nth f (sh_nums h) 0).
Proof. exact extract_plan_complete. Qed.
Print Assumptions C06_extract_plan_complete.

Theorem C06_tiling_positions : forall szs off k o s, nth_error (tiling off szs) k = Some (o, s) ->
  o = off + sumZ (firstn k szs) /\ nth_error szs k = Some s.
Proof. exact tiling_nth. Qed.
Print Assumptions C06_tiling_positions.

Theorem C06_extract_plan_tiles_unpack_size : forall h, nice h = true ->
  fills (sh_nums h) (sh_folders h) (sh_sizes h) ->
  exists ps, impl_plans (embed h) = Ok ps /\
    forall f fo, nth_error (sh_folders h) f = Some fo -> 1 <= nth f (sh_nums h) 0 ->
      exists total, sfolder_unpack_size fo = Ok total /\
        tiles 0 (map (fun p => (ip_offset p, ip_size p)) (filter (in_folder (Z.of_nat f)) ps)) total.
Proof. exact extract_plan_tiles_unpack_size. Qed.
Print Assumptions C06_extract_plan_tiles_unpack_size.

Theorem C06_spec_reader_sizes_fill_folders : forall lim bs h, s_header lim bs = Ok h -> nums_nonneg h = true ->
  fills (sh_nums h) (sh_folders h) (sh_sizes h).
Proof. exact s_header_fills. Qed.
Print Assumptions C06_spec_reader_sizes_fill_folders.

(* D. non-vacuity *)
Example C06_nice_example : nice w_nice = true /\ fills (sh_nums w_nice) (sh_folders w_nice) (sh_sizes w_nice).
Proof. exact nice_example. Qed.
Example C06_nice_example_plans :
  exists ps, impl_plans (embed w_nice) = Ok ps /\
    map (fun p => (ip_id p, ip_kind p, ip_folder p, ip_offset p, ip_size p, ip_crc p)) ps =
    [(0, 2, -1, 0, 0, None); (1, 0, 0, 0, 3, Some 11); (2, 1, -1, 0, 0, None); (3, 0, 0, 3, 4, None);
     (4, 2, -1, 0, 0, None); (5, 1, -1, 0, 0, None);
     (6, 0, 2, 0, 1, Some 14); (7, 0, 2, 1, 2, None); (8, 2, -1, 0, 0, None); (9, 0, 2, 3, 3, Some 16);
     (10, 2, -1, 0, 0, None)] /\
    plans_agree 0 (spec_plans w_nice) ps = true.
Proof. exact nice_example_plans. Qed.
Example C06_nice_read_example :
  exists h, s_header 100 w_read_bytes = Ok h /\ nice h = true /\
    map (fun p => (pl_kind p, pl_folder p, pl_offset p, pl_size p)) (spec_plans h) =
      [(0, 0, 0, 2); (2, -1, 0, 0); (0, 0, 2, 3)] /\
    exists g, parse_header 100 w_read_bytes = Ok g /\ impl_plans g = impl_plans (embed h).
Proof. exact nice_read_example. Qed.
Example C06_nice_nostreams_example :
  let h := mkSHeader 0 [] [] [] [] [] [] [w_dir 100 (Some (Some 16)); w_dir 101 None] [false; true] in
  nice h = true /\ sh_folders h = [] /\
  exists ps, impl_plans (embed_nostreams h) = Ok ps /\ map iplan_view ps = [(0, 2, -1, 0, 0); (1, 1, -1, 0, 0)].
Proof. exact nice_nostreams_example. Qed.
Example C06_no_substreams_example :
  nice w_nosub3 = true /\ absent_sub w_nosub3 /\ sizes_from_last w_nosub3 = true /\
  exists ps, impl_plans (embed_nosub w_nosub3) = Ok ps /\
    map (fun p => (ip_id p, ip_kind p, ip_folder p, ip_offset p, ip_size p, ip_crc p)) ps =
      [(0, 2, -1, 0, 0, None); (1, 0, 0, 0, 3, Some 11); (2, 1, -1, 0, 0, None); (3, 0, 1, 0, 0, None);
       (4, 2, -1, 0, 0, None); (5, 0, 2, 0, 4, Some 13); (6, 2, -1, 0, 0, None)] /\
    plans_agree 0 (spec_plans w_nosub3) ps = true /\
    impl_plans_before_repair (embed_nosub w_nosub3) = Err EOther.
Proof. exact assign_no_substreams_example. Qed.

(* ---- third wave (stage 1): the header record readers as translated on this run (coq/gen/ArchiveinfoRecords.v, regenerated
   from py7zr/archiveinfo.py) are the parser of Header.v that embed / impl_plans are about.  An object is a record with
   one field per attribute; PackInfoGen.pack_of forgets the derived attributes packpositions / enable_digests.
   Side conditions, exactly: the input is a byte string (wf_bytes); the model's resource guard did not fire (the code has no
   such guard: it would try to allocate). ---- *)
Theorem C06_gen_PackInfo_retrieve_is_parse_packinfo : forall lim bs, wf_bytes bs = true ->
  parse_packinfo lim bs <> Err EFuel ->
  (do (o, r) <- ArchiveinfoRecords.PackInfo_retrieve bs; Ok (PackInfoGen.pack_of o, r)) = parse_packinfo lim bs.
Proof. exact PackInfoGen.gen_PackInfo_retrieve_eq_model. Qed.
Print Assumptions C06_gen_PackInfo_retrieve_is_parse_packinfo.

Example C06_gen_PackInfo_example :
  (do (o, r) <- ArchiveinfoRecords.PackInfo_retrieve [5; 2; 9; 40; 129; 44; 10; 0; 128; 120; 86; 52; 18; 0; 77];
   Ok (PackInfoGen.pack_of o, r)) = Ok (mkPack 5 2 [40; 300] [true; false] [305419896; 0], [77])
  /\ ArchiveinfoRecords.PackInfo_retrieve [5; 0; 7] = Err EBad7z.
Proof. split; vm_compute; reflexivity. Qed.

(* ---- third wave (stage 2): Folder._read / retrieve and UnpackInfo._read / _retrieve_coders_info / retrieve as translated
   on this run are parse_folder / parse_unpackinfo.  FolderGen.folder_of maps the generated record to the model's (coders
   are dicts with the four keys, bind pairs are Bond objects; `solid` and the compressor attributes are not in the model).
   UnpackInfo: equal up to the CLASS of the exception (res_same): at the end of the record the code formats
   `0x{ord(pid):02x}` into its Bad7zFile message, so at end of input it raises TypeError where the model says Bad7zFile;
   the branch for an external folder stream (file.seek, "no live example") is not translated: both sides answer
   EUnsupported there. ---- *)
Theorem C06_gen_Folder_retrieve_is_parse_folder : forall lim bs, wf_bytes bs = true -> parse_folder lim bs <> Err EFuel ->
  (do (o, r) <- ArchiveinfoRecords.Folder_retrieve bs; Ok (FolderGen.folder_of o, r)) = parse_folder lim bs.
Proof. exact FolderGen.gen_Folder_retrieve_eq_model. Qed.
Print Assumptions C06_gen_Folder_retrieve_is_parse_folder.

Theorem C06_gen_UnpackInfo_retrieve_is_parse_unpackinfo : forall lim bs, wf_bytes bs = true ->
  parse_unpackinfo lim bs = Err EFuel \/
  HeaderGenPrims.res_same
    (do (o, r) <- ArchiveinfoRecords.UnpackInfo_retrieve bs;
     Ok (map FolderGen.folder_of (ArchiveinfoRecords.UnpackInfo_folders o), r))
    (parse_unpackinfo lim bs).
Proof. exact FolderGen.gen_UnpackInfo_retrieve_model_or. Qed.
Print Assumptions C06_gen_UnpackInfo_retrieve_is_parse_unpackinfo.

(* whenever the model accepts, the generated reader returns exactly the model's folders and the same rest *)
Theorem C06_gen_UnpackInfo_retrieve_accepts : forall lim bs fs r, wf_bytes bs = true -> parse_unpackinfo lim bs = Ok (fs, r) ->
  (do (o, r) <- ArchiveinfoRecords.UnpackInfo_retrieve bs;
   Ok (map FolderGen.folder_of (ArchiveinfoRecords.UnpackInfo_folders o), r)) = Ok (fs, r).
Proof. exact FolderGen.gen_UnpackInfo_retrieve_eq_model. Qed.
Print Assumptions C06_gen_UnpackInfo_retrieve_accepts.

Theorem C06_gen_read_crcs_is_rd_crcs : forall bs count, 0 <= count -> ArchiveinfoRecords.read_crcs bs count = rd_crcs count bs.
Proof. exact FolderGen.gen_read_crcs_rd_crcs. Qed.
Print Assumptions C06_gen_read_crcs_is_rd_crcs.

(* ---- third wave (stage 3): SubstreamsInfo._read / retrieve / _inherit_folder_digests / default and Folder.get_unpack_size /
   _find_out_bin_pair as translated on this run are parse_substreams / default_digests / folder_unpack_size.
   The reader is called as the code calls it: numfolders = len(folders).  Exact equality, error classes included. ---- *)
Theorem C06_gen_SubstreamsInfo_retrieve_is_parse_substreams : forall lim bs (gfs : list ArchiveinfoRecords.Folder),
  wf_bytes bs = true -> parse_substreams lim (map FolderGen.folder_of gfs) bs <> Err EFuel ->
  (do (o, r) <- ArchiveinfoRecords.SubstreamsInfo_retrieve bs (zlen gfs) gfs; Ok (SubstreamsGen.sub_of o, r))
  = parse_substreams lim (map FolderGen.folder_of gfs) bs.
Proof. exact SubstreamsGen.gen_SubstreamsInfo_retrieve_eq_model. Qed.
Print Assumptions C06_gen_SubstreamsInfo_retrieve_is_parse_substreams.

Theorem C06_gen_Folder_get_unpack_size_is_model : forall g : ArchiveinfoRecords.Folder,
  ArchiveinfoRecords.Folder_get_unpack_size g = folder_unpack_size (FolderGen.folder_of g).
Proof. exact SubstreamsGen.gen_get_unpack_size. Qed.
Print Assumptions C06_gen_Folder_get_unpack_size_is_model.

(* SubstreamsInfo.default(folders): what the reader installs for an archive without a SubStreamsInfo record (F11 repair) *)
Theorem C06_gen_SubstreamsInfo_default_is_default_digests : forall gfs : list ArchiveinfoRecords.Folder,
  ArchiveinfoRecords.SubstreamsInfo_default gfs
  = let '(d, g) := default_digests (repeat 1 (length gfs)) (map FolderGen.folder_of gfs) in
    Ok (ArchiveinfoRecords.mkSubstreamsInfo g d None (repeat 1 (length gfs))).
Proof. exact SubstreamsGen.gen_SubstreamsInfo_default. Qed.
Print Assumptions C06_gen_SubstreamsInfo_default_is_default_digests.

(* ---- third wave (stage 4): StreamsInfo.read / retrieve as translated on this run is parse_streams.  StreamsGen.streams_of maps
   the object (three attributes, each an object or None) to the model's record.  Equal up to the CLASS of the exception
   (res_same), for the reason given at C06_gen_UnpackInfo_retrieve_is_parse_unpackinfo; when the model accepts, the generated
   reader returns exactly the model's value and rest.  The call of SubstreamsInfo.retrieve gets numfolders and folders from
   the UnpackInfo object just read: StreamsGen.gen_UnpackInfo_retrieve_ok shows numfolders = len(folders) there. ---- *)
Theorem C06_gen_StreamsInfo_retrieve_is_parse_streams : forall lim bs, wf_bytes bs = true ->
  parse_streams lim bs = Err EFuel \/
  HeaderGenPrims.res_same (do (o, r) <- ArchiveinfoRecords.StreamsInfo_retrieve bs; Ok (StreamsGen.streams_of o, r))
                          (parse_streams lim bs).
Proof. exact StreamsGen.gen_StreamsInfo_retrieve_model_or. Qed.
Print Assumptions C06_gen_StreamsInfo_retrieve_is_parse_streams.

Theorem C06_gen_StreamsInfo_retrieve_accepts : forall lim bs s r, wf_bytes bs = true -> parse_streams lim bs = Ok (s, r) ->
  (do (o, r) <- ArchiveinfoRecords.StreamsInfo_retrieve bs; Ok (StreamsGen.streams_of o, r)) = Ok (s, r).
Proof. exact StreamsGen.gen_StreamsInfo_retrieve_eq_model. Qed.
Print Assumptions C06_gen_StreamsInfo_retrieve_accepts.

(* ---- third wave (stage 5, pieces): read_utf16 and the FilesInfo readers _read_name / _read_attributes / _read_times (one
   generated function per key the class passes: creationtime, lastaccesstime, lastwritetime) as translated on this run are
   rd_utf16 / rd_names / rd_per_file and the times branch of parse_file_prop.  An entry of FilesInfo.files is a dict whose
   keys other than "emptystream" may be absent: record FileEntry with option fields; FilesGen.file_of maps it to the model's
   fileent (which has no EmptyFile field: the generated functions keep it unchanged). ---- *)
Theorem C06_gen_read_utf16_is_rd_utf16 : forall bs,
  (do (cs, r) <- ArchiveinfoRecords.read_utf16 bs; Ok (map fix_backslash cs, r)) = rd_utf16 bs.
Proof. intros bs. rewrite FilesGen.gen_read_utf16. symmetry. apply FilesGen.rd_utf16_plain_fix. Qed.
Print Assumptions C06_gen_read_utf16_is_rd_utf16.

Theorem C06_gen_FilesInfo_read_name_is_rd_names : forall (self : ArchiveinfoRecords.FilesInfo) bs,
  (do (o, r) <- ArchiveinfoRecords.FilesInfo_read_name self bs;
   Ok (map FilesGen.file_of (ArchiveinfoRecords.FilesInfo_files o), ArchiveinfoRecords.FilesInfo_emptyfiles o, r))
  = (do (fs, r) <- rd_names (map FilesGen.file_of (ArchiveinfoRecords.FilesInfo_files self)) bs;
     Ok (fs, ArchiveinfoRecords.FilesInfo_emptyfiles self, r)).
Proof. exact FilesGen.gen_FilesInfo_read_name_model. Qed.
Print Assumptions C06_gen_FilesInfo_read_name_is_rd_names.

Theorem C06_gen_FilesInfo_read_attributes_is_rd_per_file : forall (self : ArchiveinfoRecords.FilesInfo) bs defined,
  (do (o, r) <- ArchiveinfoRecords.FilesInfo_read_attributes self bs defined;
   Ok (map FilesGen.file_of (ArchiveinfoRecords.FilesInfo_files o), ArchiveinfoRecords.FilesInfo_emptyfiles o, r))
  = (do (fs, r) <- rd_per_file 4 (map FilesGen.file_of (ArchiveinfoRecords.FilesInfo_files self)) defined set_attr bs;
     Ok (fs, ArchiveinfoRecords.FilesInfo_emptyfiles self, r)).
Proof. exact FilesGen.gen_FilesInfo_read_attributes_model. Qed.
Print Assumptions C06_gen_FilesInfo_read_attributes_is_rd_per_file.

(* FilesGen.times_branch lim which files emptyfiles bs is, verbatim, the branch `(prop =? 18) || (prop =? 19) || (prop =? 20)` of
   parse_file_prop with the rest of the buffer kept *)
Theorem C06_gen_FilesInfo_read_times_are_model : forall lim (self : ArchiveinfoRecords.FilesInfo) bs, wf_bytes bs = true ->
  rd_boolean lim (zlen (ArchiveinfoRecords.FilesInfo_files self)) true bs = Err EFuel \/
  ((do (o, r) <- ArchiveinfoRecords.FilesInfo_read_times_creationtime self bs;
    Ok (map FilesGen.file_of (ArchiveinfoRecords.FilesInfo_files o), ArchiveinfoRecords.FilesInfo_emptyfiles o, r))
   = FilesGen.times_branch lim 18 (map FilesGen.file_of (ArchiveinfoRecords.FilesInfo_files self)) (ArchiveinfoRecords.FilesInfo_emptyfiles self) bs /\
   (do (o, r) <- ArchiveinfoRecords.FilesInfo_read_times_lastaccesstime self bs;
    Ok (map FilesGen.file_of (ArchiveinfoRecords.FilesInfo_files o), ArchiveinfoRecords.FilesInfo_emptyfiles o, r))
   = FilesGen.times_branch lim 19 (map FilesGen.file_of (ArchiveinfoRecords.FilesInfo_files self)) (ArchiveinfoRecords.FilesInfo_emptyfiles self) bs /\
   (do (o, r) <- ArchiveinfoRecords.FilesInfo_read_times_lastwritetime self bs;
    Ok (map FilesGen.file_of (ArchiveinfoRecords.FilesInfo_files o), ArchiveinfoRecords.FilesInfo_emptyfiles o, r))
   = FilesGen.times_branch lim 20 (map FilesGen.file_of (ArchiveinfoRecords.FilesInfo_files self)) (ArchiveinfoRecords.FilesInfo_emptyfiles self) bs).
Proof. exact FilesGen.gen_FilesInfo_read_times_model. Qed.
Print Assumptions C06_gen_FilesInfo_read_times_are_model.

(* ---- third wave (stage 5, whole reader): FilesInfo._read / retrieve as translated on this run is parse_files.  The `while
   True` loop runs on explicit fuel (any fuel above the length of the input suffices: every round that does not end the loop
   consumes the property id and a NUMBER).  FilesGen.entry_flags reads the EmptyFile flag _read stores with every empty-stream
   entry: together they are the model's second component.  Equal up to the class of the exception (res_same): START_POS
   (id 24; _read_start_pos always fails an assert) and the "external" forms of names / attributes (fp.tell / fp.seek,
   "no-cover") are not translated: the generated function answers EUnsupported there. ---- *)
Theorem C06_gen_FilesInfo_retrieve_is_parse_files : forall lim bs fuel, wf_bytes bs = true -> (length bs < fuel)%nat ->
  parse_files lim bs = Err EFuel \/
  HeaderGenPrims.res_same
    (do (o, r) <- ArchiveinfoRecords.FilesInfo_retrieve bs fuel;
     Ok ((map FilesGen.file_of (ArchiveinfoRecords.FilesInfo_files o), FilesGen.entry_flags (ArchiveinfoRecords.FilesInfo_files o)), r))
    (parse_files lim bs).
Proof. exact FilesGen.gen_FilesInfo_retrieve_model_or. Qed.
Print Assumptions C06_gen_FilesInfo_retrieve_is_parse_files.

(* ---- third wave (stage 4, part 2): SignatureHeader._read / retrieve as translated on this run (gen/ArchiveinfoSig.v, over the
   generated helpers.calculate_crc32 with zlib.crc32 := Crc32.crc32_update), on the whole file image of at least 32 bytes
   (the method seeks to offset 6 itself; read_fully(file, 26) = the next 26 bytes, compared with helpers.read_fully by
   harness/prims.py): the fields are Trace.v's sig_ofs / sig_size / sig_hcrc, Bad7zFile exactly when the start header CRC
   does not match (the second conjunct of Trace.sig_ok; the first, the magic, is _check_7zfile's). ---- *)
Theorem C06_gen_SignatureHeader_retrieve_is_sig_fields : forall (img : bytes) fuel, (8 <= fuel)%nat -> (32 <= length img)%nat ->
  ArchiveinfoSig.SignatureHeader_retrieve SigGen.zcrc img fuel
  = if Crc32.crc32 (Trace.slice img 12 20) =? le_value (Trace.slice img 8 4)
    then Ok (ArchiveinfoSig.mkSignatureHeader ([nth 6 img 0], [nth 7 img 0]) (le_value (Trace.slice img 8 4))
               (Trace.sig_ofs img) (Trace.sig_size img) (Trace.sig_hcrc img), [])
    else Err EBad7z.
Proof. exact SigGen.gen_sig_retrieve. Qed.
Print Assumptions C06_gen_SignatureHeader_retrieve_is_sig_fields.
