(* C11 -- Encryption: nothing leaks, nothing is delivered without the right password.
   Statements only; the model is theories/Enc.v (definitions), the proofs theories/EncProofs.v, the AES
   residue buffering and CBC theories/Aes.v, the header writer/parser theories/Header.v, CRC-32 theories/Crc32.v.

   Abstract (universally quantified, NOT verified): the hash (only update(update h a) b = update h (a ++ b)),
   the AES block function under a key (any function on byte strings; Db (Eb x) = x only in the round trip),
   the coders in front of AES (any step/flush functions on any state type), the LZMA2 coder of a
   non-encrypted encoded header, the RNG (any stream).  Confidentiality of AES-CBC itself is outside the model:
   the theorems say that contents reach the file ONLY through the cipher, they do not say the cipher is good. *)
From P7 Require Import Prelude PyPrims Number Crc32 Header Aes Enc EncProofs.
From P7 Require PwInj.
Open Scope Z_scope.

(* ---------------------------------------------------------------------------------------------- *)
(* 1. Key derivation                                                                               *)
(* ---------------------------------------------------------------------------------------------- *)
(* _calculate_key3 (64 rounds per update, 2^(cycles-6) updates) = _calculate_key1 (one update per round):
   for EVERY value of cycles, error cases and the 0x3F special case included *)
Theorem C11_kdf_staging : forall (H : Type) (hinit : H) (hupdate : H -> bytes -> H) (hdigest : H -> bytes),
  (forall (h : H) (a b : bytes), hupdate (hupdate h a) b = hupdate h (a ++ b)) ->
  forall (pw : bytes) (cycles : Z) (salt : bytes),
  key3 H hinit hupdate hdigest pw cycles salt = key1 H hinit hupdate hdigest pw cycles salt.
Proof. exact kdf_staging. Qed.
Print Assumptions C11_kdf_staging.

(* what is hashed: salt ++ password ++ LE64(round), round = 0 .. 2^cycles - 1, in one message *)
Theorem C11_kdf_message : forall (H : Type) (hinit : H) (hupdate : H -> bytes -> H) (hdigest : H -> bytes),
  (forall (h : H) (a b : bytes), hupdate (hupdate h a) b = hupdate h (a ++ b)) ->
  forall (pw : bytes) (cycles : Z) (salt : bytes), 0 <= cycles < 63 ->
  key3 H hinit hupdate hdigest pw cycles salt =
  Ok (firstn 32 (hdigest (hupdate hinit
        (concat (map (fun r => (salt ++ pw) ++ le_bytes 8 r) (range_from 0 (Z.to_nat (2 ^ cycles)))))))).
Proof. intros H hi hu hd Happ pw c s Hc. rewrite (kdf_staging H hi hu hd Happ). exact (key1_message H hi hu hd Happ pw c s Hc). Qed.
Print Assumptions C11_kdf_message.

Theorem C11_kdf_cycles_3f : forall (H : Type) (hinit : H) (hupdate : H -> bytes -> H) (hdigest : H -> bytes) (pw salt : bytes),
  key3 H hinit hupdate hdigest pw 63 salt = Ok (firstn 32 (salt ++ pw ++ zeros 32)) /\
  key1 H hinit hupdate hdigest pw 63 salt = Ok (firstn 32 (salt ++ pw ++ zeros 32)).
Proof. exact kdf_cycles_3f. Qed.
Print Assumptions C11_kdf_cycles_3f.

(* the hash contract is satisfiable (free hash = the transcript), and the function the harness runs is it *)
Theorem C11_kdf_contract_satisfiable : forall h a b : bytes, fh_update (fh_update h a) b = fh_update h (a ++ b).
Proof. exact fh_update_app. Qed.
Print Assumptions C11_kdf_contract_satisfiable.

Theorem C11_kdf_transcript : forall (which : Z) (pw : bytes) (cycles : Z) (salt : bytes), 0 <= cycles < 63 ->
  kdf_transcript which pw cycles salt =
  Ok (concat (map (fun r => (salt ++ pw) ++ le_bytes 8 r) (range_from 0 (Z.to_nat (2 ^ cycles))))).
Proof. exact kdf_transcript_is_message. Qed.
Print Assumptions C11_kdf_transcript.

(* the password enters as UTF-16-LE: BMP, astral (surrogate pair), empty; a lone surrogate is refused *)
Example C11_password_utf16 :
  pw_utf16 [112; 228; 223] = Ok [112; 0; 228; 0; 223; 0] /\
  pw_utf16 [128273] = Ok [61; 216; 17; 221] /\
  pw_utf16 [] = Ok [] /\
  pw_utf16 [55357] = Err EOther.
Proof. vm_compute. repeat split. Qed.

Example C11_kdf_example :
  key3 bytes [] fh_update fh_digest [97; 0] 1 [7] = Ok [7; 97; 0; 0;0;0;0;0;0;0;0; 7; 97; 0; 1;0;0;0;0;0;0;0].
Proof. exact kdf_example. Qed.

(* ---------------------------------------------------------------------------------------------- *)
(* 2. 7zAES coder properties                                                                       *)
(* ---------------------------------------------------------------------------------------------- *)
Theorem C11_aes_props_roundtrip : forall (cycles : Z) (salt iv : bytes),
  0 <= cycles <= 24 -> blen salt <= 16 -> 1 <= blen iv <= 16 ->
  exists p, aes_encode_props cycles salt iv = Ok p /\ blen p = 2 + blen salt + blen iv /\
            aes_parse_props p = Ok (cycles, salt, iv ++ zeros (16 - blen iv)).
Proof. exact aes_props_roundtrip. Qed.
Print Assumptions C11_aes_props_roundtrip.

Theorem C11_aes_props_cycles_rejected : forall (cycles : Z) (salt iv : bytes),
  24 < cycles <= 63 -> blen salt <= 16 -> 1 <= blen iv <= 16 ->
  exists p, aes_encode_props cycles salt iv = Ok p /\ aes_parse_props p = Err EOther.
Proof. exact aes_props_cycles_rejected. Qed.
Print Assumptions C11_aes_props_cycles_rejected.

(* the writer (cycles 19, empty salt, 16 drawn bytes) stores exactly its IV *)
Theorem C11_aes_coder_stores_iv : forall iv : bytes, length iv = 16%nat ->
  exists p, aes_coder iv = Ok (mkCoder AES_METHOD 1 1 (Some p)) /\ aes_parse_props p = Ok (19, [], iv).
Proof. exact aes_coder_stores_iv. Qed.
Print Assumptions C11_aes_coder_stores_iv.

Example C11_aes_props_example :
  aes_encode_props 19 [] (map Z.of_nat (seq 1 16)) = Ok ([83; 15] ++ map Z.of_nat (seq 1 16)) /\
  aes_parse_props ([83; 15] ++ map Z.of_nat (seq 1 16)) = Ok (19, [], map Z.of_nat (seq 1 16)) /\
  aes_parse_props [19] = Err EUnsupported.
Proof. exact aes_props_example. Qed.

(* ---------------------------------------------------------------------------------------------- *)
(* 3. Information-flow structure of the writer                                                     *)
(* ---------------------------------------------------------------------------------------------- *)
(* SevenZipCompressor.compress x n then flush over [stages..., AES]: the bytes written are
   CBC(iv, pad16(what the stages hand to AES)), whatever the block size and whatever the pieces;
   the recorded stage input sizes do not depend on the cipher *)
Theorem C11_packed_is_cbc : forall (Eb : bytes -> bytes) (C : Type) (c_step : C -> bytes -> C * bytes)
    (c_flush : C -> bytes) (cs : list C) (iv : bytes) (blocks : list bytes),
  let (ch1, o1) := sz_blocks Eb C c_step (chain_init C cs iv) blocks in
  let (ch2, o2) := sz_flush Eb C c_step c_flush ch1 in
  o1 ++ o2 = fst (cbc_enc Eb iv (pad16 (snd (pre_run C c_step c_flush cs blocks)))) /\
  ch_usz_pre C ch2 = fst (pre_run C c_step c_flush cs blocks) /\
  ch_usz_aes C ch2 = blen (snd (pre_run C c_step c_flush cs blocks)).
Proof. intros Eb C st fl. exact (chain_run_spec Eb C st fl (fun x => x)). Qed.
Print Assumptions C11_packed_is_cbc.

(* chain [AES] alone (ciphertext is the only protection): what is encrypted is exactly the contents *)
Theorem C11_aes_only_stream : forall (C : Type) (c_step : C -> bytes -> C * bytes) (c_flush : C -> bytes) (bs : Z),
  1 <= bs -> forall ms : list member, pre_stream C c_step c_flush bs [] ms = concat (map m_data ms).
Proof. intros C st fl. exact (aes_only_stream (fun x => x) C st fl (fun x => x)). Qed.
Print Assumptions C11_aes_only_stream.

(* the whole write session = archive_of (metadata record) (main ciphertext): archive_of has no member
   and no content among its arguments; the metadata record has the fields listed in C11_meta_fields *)
Theorem C11_writer_is_layout_of_meta_and_cipher : forall (Eb : bytes -> bytes) (C : Type)
    (c_step : C -> bytes -> C * bytes) (c_flush : C -> bytes) (hdr_lzma : bytes -> bytes) (mode : Z)
    (mm : list bool) (pre_coders : list coder) (hcoder : coder) (bs : Z), 1 <= bs ->
  forall (cs : list C) (r : rng) (p0 : nat) (ms : list member),
  write_archive Eb C c_step c_flush hdr_lzma mode mm pre_coders hcoder bs cs r p0 ms =
  (do m <- session_meta C c_step c_flush mm pre_coders bs cs (draw16 r (draw_pos p0 0)) ms;
   archive_of Eb hdr_lzma mode hcoder m
     (fst (cbc_enc Eb (draw16 r (draw_pos p0 0)) (pad16 (pre_stream C c_step c_flush bs cs ms)))) r p0).
Proof. exact write_archive_spec. Qed.
Print Assumptions C11_writer_is_layout_of_meta_and_cipher.

Theorem C11_content_only_through_cipher : forall (Eb : bytes -> bytes) (C : Type)
    (c_step : C -> bytes -> C * bytes) (c_flush : C -> bytes) (hdr_lzma : bytes -> bytes) (mode : Z)
    (mm : list bool) (pre_coders : list coder) (hcoder : coder) (bs : Z), 1 <= bs ->
  forall (cs cs' : list C) (r : rng) (p0 : nat) (ms ms' : list member),
  session_meta C c_step c_flush mm pre_coders bs cs (draw16 r (draw_pos p0 0)) ms =
  session_meta C c_step c_flush mm pre_coders bs cs' (draw16 r (draw_pos p0 0)) ms' ->
  fst (cbc_enc Eb (draw16 r (draw_pos p0 0)) (pad16 (pre_stream C c_step c_flush bs cs ms))) =
  fst (cbc_enc Eb (draw16 r (draw_pos p0 0)) (pad16 (pre_stream C c_step c_flush bs cs' ms'))) ->
  write_archive Eb C c_step c_flush hdr_lzma mode mm pre_coders hcoder bs cs r p0 ms =
  write_archive Eb C c_step c_flush hdr_lzma mode mm pre_coders hcoder bs cs' r p0 ms'.
Proof. exact content_only_through_cipher. Qed.
Print Assumptions C11_content_only_through_cipher.

(* the metadata record: names, times, attributes, sizes, coder properties, IV -- and the CRC-32 of every
   member's PLAINTEXT, which is therefore stored in the clear unless the header is encrypted *)
Theorem C11_meta_fields : forall (C : Type) (c_step : C -> bytes -> C * bytes) (c_flush : C -> bytes)
    (mm : list bool) (pre_coders : list coder) (bs : Z) (cs : list C) (iv : bytes) (ms : list member) (m : meta),
  session_meta C c_step c_flush mm pre_coders bs cs iv ms = Ok m ->
  mt_names m = map m_name ms /\ mt_mtimes m = map m_mtime ms /\ mt_attrs m = map m_attr ms /\
  mt_sizes m = map (fun x : member => blen (m_data x)) ms /\
  mt_crcs m = map (fun x : member => crc32 (m_data x)) ms /\
  mt_pre_coders m = pre_coders /\ mt_iv m = iv.
Proof. exact session_meta_fields. Qed.
Print Assumptions C11_meta_fields.

(* header encryption: around the two ciphertexts there is only the signature header and the descriptor, which
   depend on the header only through its ciphertext, the LENGTH of its plaintext and the CRC-32 of its plaintext
   (the record that makes a wrong password detectable; it is stored in the clear BY CONSTRUCTION) *)
Theorem C11_names_only_through_cipher : forall (h h' : header) (packed : bytes) (hcs : list coder) (hp r1 r2 : bytes),
  write_header true 0 h = Ok r1 -> write_header true 0 h' = Ok r2 -> blen r1 = blen r2 -> crc32 r1 = crc32 r2 ->
  assemble 2 h packed hcs hp = assemble 2 h' packed hcs hp.
Proof. exact names_only_through_cipher. Qed.
Print Assumptions C11_names_only_through_cipher.

Theorem C11_encrypted_archive_layout : forall (h : header) (packed : bytes) (hcs : list coder) (hp : bytes),
  assemble 2 h packed hcs hp =
  (do hraw <- write_header true 0 h;
   do sd <- plain_parts (blen packed) hcs hp (blen hraw) (crc32 hraw);
   Ok (fst sd ++ packed ++ hp ++ snd sd)).
Proof. exact assemble2_plain_parts. Qed.
Print Assumptions C11_encrypted_archive_layout.

Theorem C11_names_only_through_header_cipher : forall (Eb hdr_lzma : bytes -> bytes) (hcoder : coder) (m m' : meta)
    (packed : bytes) (r : rng) (p0 : nat) (hraw hraw' : bytes),
  header_raw m packed = Ok hraw -> header_raw m' packed = Ok hraw' -> blen hraw = blen hraw' ->
  crc32 hraw = crc32 hraw' ->
  fst (cbc_enc Eb (draw16 r (draw_pos p0 1)) (pad16 hraw)) = fst (cbc_enc Eb (draw16 r (draw_pos p0 1)) (pad16 hraw')) ->
  archive_of Eb hdr_lzma 2 hcoder m packed r p0 = archive_of Eb hdr_lzma 2 hcoder m' packed r p0.
Proof. exact names_only_through_header_cipher. Qed.
Print Assumptions C11_names_only_through_header_cipher.

(* non-vacuity: two different names of equal length give different raw headers of equal length; the bytes around
   the header ciphertext then differ only through the CRC argument *)
Example C11_names_example :
  mt_names ex_meta <> mt_names ex_meta' /\
  (exists r1 r2, header_raw ex_meta (ex_plain 32) = Ok r1 /\ header_raw ex_meta' (ex_plain 32) = Ok r2 /\
     r1 <> r2 /\ blen r1 = blen r2 /\
     forall hcs hp c, plain_parts 32 hcs hp (blen r1) c = plain_parts 32 hcs hp (blen r2) c).
Proof. exact names_example. Qed.

(* non-vacuity: a complete run of the step model ([Copy, AES], block size 16, header encrypted) *)
Example C11_write_archive_example :
  exists a, write_archive (toyK ex_K) unit copy_step copy_flush (fun x => x) 2 [false; false]
                          [mkCoder [0] 1 1 None] (mkCoder [0] 1 1 None) 16 [tt] ex_rng 0 ex_members = Ok (a, 32%nat)
            /\ (100 < blen a).
Proof. exact write_archive_example. Qed.

(* ---------------------------------------------------------------------------------------------- *)
(* 4. IVs                                                                                          *)
(* ---------------------------------------------------------------------------------------------- *)
(* the k-th AESCompressor construction reads RNG positions draw_pos p0 k .. +15: distinct constructions
   read disjoint slices; the stored IV IS the slice (never a constant); sessions continue the stream *)
Theorem C11_iv_fresh : forall p0 i j a b : nat, i <> j -> (a < 16)%nat -> (b < 16)%nat ->
  (draw_pos p0 i + a)%nat <> (draw_pos p0 j + b)%nat.
Proof. exact iv_fresh. Qed.
Print Assumptions C11_iv_fresh.

Theorem C11_iv_is_the_slice : forall (r r' : rng) (p : nat), draw16 r p = draw16 r' p ->
  forall a, (a < 16)%nat -> r (p + a)%nat = r' (p + a)%nat.
Proof. exact iv_is_the_slice. Qed.
Print Assumptions C11_iv_is_the_slice.

Theorem C11_session_rng_position : forall (Eb : bytes -> bytes) (C : Type) (c_step : C -> bytes -> C * bytes)
    (c_flush : C -> bytes) (hdr_lzma : bytes -> bytes) (mode : Z) (mm : list bool) (pre_coders : list coder)
    (hcoder : coder) (bs : Z) (cs : list C) (r : rng) (p0 : nat) (ms : list member) (a : bytes) (p1 : nat),
  write_archive Eb C c_step c_flush hdr_lzma mode mm pre_coders hcoder bs cs r p0 ms = Ok (a, p1) ->
  p1 = draw_pos p0 (if (mode =? 0) || (mode =? 1) then 1%nat else 2%nat).
Proof. exact write_archive_rng_position. Qed.
Print Assumptions C11_session_rng_position.

Theorem C11_sessions_continue_stream : forall p0 k j : nat, draw_pos (draw_pos p0 k) j = draw_pos p0 (k + j).
Proof. exact draw_pos_add. Qed.
Print Assumptions C11_sessions_continue_stream.

Example C11_iv_fresh_example :
  draw16 ex_rng (draw_pos 0 0) <> draw16 ex_rng (draw_pos 0 1) /\ draw_pos (draw_pos 0 2) 1 = draw_pos 0 3.
Proof. exact iv_fresh_example. Qed.

(* ---------------------------------------------------------------------------------------------- *)
(* 5. Reading: decisions                                                                           *)
(* ---------------------------------------------------------------------------------------------- *)
(* AES coder present and no password: PasswordRequired from the coder list alone, before any decoder exists *)
Theorem C11_no_password_refused : forall methods : list bytes,
  zlen methods <= 4 -> known_methods methods = true -> needs_password methods = true ->
  sz_decompressor_precheck methods false = Err EPassword.
Proof. exact no_password_refused. Qed.
Print Assumptions C11_no_password_refused.

Theorem C11_no_password_never_accepted : forall methods : list bytes, needs_password methods = true ->
  sz_decompressor_precheck methods false <> Ok tt.
Proof. exact no_password_never_accepted. Qed.
Print Assumptions C11_no_password_never_accepted.

Example C11_no_password_example :
  sz_decompressor_precheck [AES_METHOD; [33]] false = Err EPassword /\
  sz_decompressor_precheck [AES_METHOD; [33]] true = Ok tt /\
  sz_decompressor_precheck [[33]] false = Ok tt.
Proof. exact no_password_example. Qed.

(* chains [AES] and [Copy, AES], ANY key (Db' arbitrary): CrcError -- nothing else --, or members with the stored CRCs *)
Theorem C11_wrong_password_error_or_collision : forall Db' : bytes -> bytes,
  (forall x : bytes, length x = 16%nat -> length (Db' x) = 16%nat) ->
  forall iv packed : bytes, length iv = 16%nat -> blen packed mod 16 = 0 ->
  forall sizes crcs : list Z, Forall (fun n => 0 <= n) sizes -> total sizes <= blen packed ->
  match read_aes_folder Db' iv packed sizes crcs with
  | Ok gs => Forall2 (fun g c => crc32 g = c) gs (firstn (length gs) crcs)
  | Err e => e = ECrc
  end.
Proof. exact wrong_password_error_or_collision. Qed.
Print Assumptions C11_wrong_password_error_or_collision.

(* delivered bytes that differ from the originals = a CRC-32 collision, explicitly *)
Theorem C11_delivered_different_is_collision : forall (stream : bytes) (sizes : list Z) (origs gs : list bytes),
  length sizes = length origs -> extract_members stream sizes (map crc32 origs) = Ok gs -> gs <> origs ->
  exists g o, In (g, o) (combine gs origs) /\ g <> o /\ crc32 g = crc32 o.
Proof. exact delivered_different_is_collision. Qed.
Print Assumptions C11_delivered_different_is_collision.

(* ANY chain behind AES, any key: an error (CrcError; Bad7zFile when the decoder runs dry before the declared size;
   the decoder's own error) or members with the stored CRCs -- full strength: the call always returns *)
Theorem C11_wrong_password_any_chain : forall (Db' : bytes -> bytes) (Dz : bytes -> res bytes) (iv packed : bytes)
    (sizes crcs : list Z),
  match read_chain_folder Db' Dz iv packed sizes crcs with
  | Ok gs => Forall2 (fun g c => crc32 g = c) gs (firstn (length gs) crcs)
  | Err e => e = ECrc \/ e = EBad7z \/ Dz (fst (cbc_dec Db' iv packed)) = Err e
  end.
Proof. exact wrong_password_any_chain. Qed.
Print Assumptions C11_wrong_password_any_chain.

Theorem C11_wrong_password_partial : forall (Db' : bytes -> bytes) (Dz : bytes -> res bytes) (iv packed : bytes)
    (sizes crcs : list Z) (gs : list bytes),
  read_chain_folder Db' Dz iv packed sizes crcs = Ok gs ->
  Forall2 (fun g c => crc32 g = c) gs (firstn (length gs) crcs).
Proof. exact wrong_password_partial. Qed.
Print Assumptions C11_wrong_password_partial.

(* the decoder finds an early end of stream in the garbage: Bad7zFile (this case used to hang, see the harness) *)
Example C11_wrong_password_decoder_runs_dry :
  read_chain_folder toyD (fun _ => Ok []) ex_iv (ex_plain 32) [24] [0] = Err EBad7z.
Proof. exact wrong_password_decoder_runs_dry. Qed.

Theorem C11_right_password_delivers_original : forall Eb Db : bytes -> bytes,
  (forall x : bytes, length x = 16%nat -> Db (Eb x) = x) ->
  (forall x : bytes, length x = 16%nat -> length (Eb x) = 16%nat) ->
  forall iv : bytes, length iv = 16%nat -> forall datas : list bytes,
  read_aes_folder Db iv (fst (cbc_enc Eb iv (pad16 (concat datas)))) (map blen datas) (map crc32 datas) = Ok datas.
Proof. exact right_password_delivers_original. Qed.
Print Assumptions C11_right_password_delivers_original.

Example C11_right_wrong_password_example :
  read_aes_folder (toyK ex_K) ex_iv
    (fst (cbc_enc (toyK ex_K) ex_iv (pad16 (concat (map m_data ex_members)))))
    (map (fun m => blen (m_data m)) ex_members) (map (fun m => crc32 (m_data m)) ex_members)
  = Ok (map m_data ex_members) /\
  read_aes_folder (toyK ex_K') ex_iv
    (fst (cbc_enc (toyK ex_K) ex_iv (pad16 (concat (map m_data ex_members)))))
    (map (fun m => blen (m_data m)) ex_members) (map (fun m => crc32 (m_data m)) ex_members)
  = Err ECrc.
Proof. exact right_password_example. Qed.

(* encrypted header under any key: THE acceptance condition.  With the CRC record that py7zr writes (fcrc = Some c):
   stored CRC-32 matches AND first byte 01 AND the body parses; without it (foreign archive): the last two only *)
Theorem C11_encrypted_header_wrong_pw_accept_condition : forall (Db' : bytes -> bytes) (lim : Z) (ivh hp : bytes)
    (n : Z) (fcrc : option Z) (h : header),
  open_encrypted_header Db' lim ivh hp n fcrc = Ok h <->
  (match fcrc with Some c => crc32 (takeZ n (fst (cbc_dec Db' ivh hp))) = c | None => True end) /\
  exists r rest, takeZ n (fst (cbc_dec Db' ivh hp)) = 1 :: r /\ parse_header_body lim r = Ok (h, rest).
Proof. exact encrypted_header_wrong_pw_accept_condition. Qed.
Print Assumptions C11_encrypted_header_wrong_pw_accept_condition.

(* what py7zr writes: under ANY key, opening succeeds only if the decrypted bytes have the CRC-32 of the plain
   header; otherwise Bad7zFile("invalid block data") -- error, or CRC collision (explicit disjunct) *)
Theorem C11_encrypted_header_wrong_pw_error_or_collision : forall (Db' : bytes -> bytes) (lim : Z) (ivh hp hraw : bytes),
  match open_encrypted_header Db' lim ivh hp (blen hraw) (Some (crc32 hraw)) with
  | Ok _ => crc32 (takeZ (blen hraw) (fst (cbc_dec Db' ivh hp))) = crc32 hraw
  | Err e => crc32 (takeZ (blen hraw) (fst (cbc_dec Db' ivh hp))) <> crc32 hraw -> e = EBad7z
  end.
Proof. exact encrypted_header_wrong_pw_error_or_collision. Qed.
Print Assumptions C11_encrypted_header_wrong_pw_error_or_collision.

Theorem C11_encrypted_header_right_key : forall Eb Db : bytes -> bytes,
  (forall x : bytes, length x = 16%nat -> Db (Eb x) = x) ->
  (forall x : bytes, length x = 16%nat -> length (Eb x) = 16%nat) ->
  forall (lim : Z) (ivh : bytes), length ivh = 16%nat -> forall hraw : bytes,
  open_encrypted_header Db lim ivh (fst (cbc_enc Eb ivh (pad16 hraw))) (blen hraw) (Some (crc32 hraw)) =
  decoded_header lim hraw.
Proof. exact encrypted_header_right_key. Qed.
Print Assumptions C11_encrypted_header_right_key.

(* any key, any archive: a first decrypted byte <> 01 is an error (TypeError, or Bad7zFile when a CRC is stored) *)
Theorem C11_encrypted_header_wrong_pw_partial : forall (Db' : bytes -> bytes) (lim : Z) (ivh hp : bytes) (n b : Z)
    (r : bytes) (fcrc : option Z),
  takeZ n (fst (cbc_dec Db' ivh hp)) = b :: r -> b <> 1 ->
  exists e, open_encrypted_header Db' lim ivh hp n fcrc = Err e /\ (e = EOther \/ e = EBad7z).
Proof. exact encrypted_header_wrong_pw_partial. Qed.
Print Assumptions C11_encrypted_header_wrong_pw_partial.

(* garbage beginning 01 00 parses as the header of an EMPTY archive, whatever follows ... *)
Theorem C11_encrypted_header_accepts_01_00 : forall (lim : Z) (rest : bytes),
  decoded_header lim (1 :: 0 :: rest) = Ok (mkHeader None None []).
Proof. exact encrypted_header_accepts_01_00. Qed.
Print Assumptions C11_encrypted_header_accepts_01_00.

(* ... as written by py7zr (CRC record) the wrong key is rejected and the right key opens the header *)
Example C11_encrypted_header_wrong_key_rejected :
  ex_K <> ex_K' /\
  (exists h, open_encrypted_header (toyK ex_K) 4096 ex_iv ex_hcipher (blen ex_hraw) (Some (crc32 ex_hraw)) = Ok h /\
             h_files h <> None) /\
  open_encrypted_header (toyK ex_K') 4096 ex_iv ex_hcipher (blen ex_hraw) (Some (crc32 ex_hraw)) = Err EBad7z.
Proof. exact encrypted_header_wrong_key_rejected. Qed.

(* ... but for an archive whose encoded header carries NO CRC record (a foreign writer; py7zr before the repair)
   "a wrong password fails with an error" is REFUTED: the same ciphertext opens under K' <> K as an empty archive.
   Replay on the implementation: harness (the CRC record cut out of an archive py7zr wrote). *)
Theorem C11_encrypted_header_without_crc_refuted :
  ex_K <> ex_K' /\
  (exists h, open_encrypted_header (toyK ex_K) 4096 ex_iv ex_hcipher (blen ex_hraw) None = Ok h /\ h_files h <> None) /\
  open_encrypted_header (toyK ex_K') 4096 ex_iv ex_hcipher (blen ex_hraw) None = Ok (mkHeader None None []).
Proof. exact encrypted_header_without_crc_refuted. Qed.
Print Assumptions C11_encrypted_header_without_crc_refuted.

(* ---- the password is hashed as the UTF-16LE code units of the string exactly as given: the
   encoding is injective, so no two different strings (a password and its NFC/NFD/NFKC form, a
   case-folded variant, ...) ever hash the same message -- a reader that accepted the normalised
   form of the password, or a writer that normalised it before deriving the key (seeded change
   C07-10), would not be the key derivation C11_kdf_message states.  Enc.pw_utf16 is
   str.encode("utf-16LE") (FilesGen.py_encode_utf16le_eq over the translated write_utf16;
   prims.py against CPython); the harness reads and writes with a non-normalised password and
   offers its normal forms as wrong passwords. ---- *)
Theorem C11_password_exact_code_units : forall (s t : list Z) (b : bytes),
  pw_utf16 s = Ok b -> pw_utf16 t = Ok b -> s = t.
Proof. exact PwInj.pw_utf16_injective. Qed.
Print Assumptions C11_password_exact_code_units.

Example C11_password_nfc_nfd_differ :
  pw_utf16 [233] = Ok [233; 0] /\ pw_utf16 [101; 769] = Ok [101; 0; 1; 3].
Proof. exact PwInj.pw_utf16_nfc_nfd_differ. Qed.
