(* C01 -- Content round trip: what is written is what is read, for every codec chain.
   This file holds only statements, `exact`, and Print Assumptions.

   Models: theories/Comp.v (SevenZipCompressor.compress / flush / unpacksizes and the write
   session), theories/Decomp.v (SevenZipDecompressor.decompress / _decompress / _read_data and
   the Worker.decompress loop), theories/Aes.v (the 16-byte residue buffering around AES-CBC),
   theories/RoundTrip.v (their composition).  The stage codecs themselves (liblzma, zlib, bz2,
   zstd, ppmd, brotli, bcj, pycryptodome AES) are ABSTRACT: the hypotheses spelled out in each
   statement below (stream-encoder contract, monotone prefix-safe stream decoder, decoder
   inverts encoder up to trailing bytes) are validated on the real wrapper classes by
   tools/harness/c01.py, not proved.  Every such hypothesis is shown satisfiable by the toy
   instances at the end. *)
From P7 Require Import Prelude Crc32 Decomp Comp RoundTrip.
From P7 Require Aes.
From P7 Require AesGen CrcGen.
From P7gen Require AesBuf HelpersCrc.
From P7 Require PyPrims DecompGen.
From P7gen Require DecompChain.
From P7 Require CompSession CompGen ReadFully.
From P7gen Require CompChain.
Open Scope Z_scope.

(* ------------------------------------------------------------------------------------ *)
(* 1. WRITE SIDE                                                                         *)
(* ------------------------------------------------------------------------------------ *)

(* the packed stream of a session is an encoding by stage n of (... an encoding by stage 1 of
   (the concatenation of the members' bytes)), for every block size <> 0, every read schedule of
   the sources, any number of members.  E s0 x y reads "y is an encoding of x by a stage
   created in state s0" (a relation: what a real codec emits may depend on the chunking) *)
Theorem C01_compress_chain :
  forall (cst : Type) (cstep : cst -> bytes -> cst * bytes) (cflush : cst -> cst * bytes)
         (E : cst -> bytes -> bytes -> Prop) (wf : cst -> Prop),
    (forall (s0 s : cst) (cin cout : bytes),
        wf s0 -> ereach cstep s0 s cin cout -> E s0 cin (cout ++ snd (cflush s))) ->
    forall (s0s : list cst) (bsz : Z) (fuel : nat) (ms : list (bytes * list nat))
           (st : cstate cst) (infos : list (Z * Z * Z)) (n : Z),
      Forall wf s0s -> bsz <> 0 ->
      write_session cstep cflush fuel (cinit s0s bsz) ms = Ok (st, infos, n) ->
      exists ins, Echain E s0s (concat (map fst ms)) ins (cout st).
Proof. exact compress_chain. Qed.
Print Assumptions C01_compress_chain.

(* what the header records: per member its length and CRC-32; pack size and CRC-32 of the
   packed stream; per stage the length of its input; foutsizes + flush add up to the pack size *)
Theorem C01_sizes_and_crcs :
  forall (cst : Type) (cstep : cst -> bytes -> cst * bytes) (cflush : cst -> cst * bytes)
         (E : cst -> bytes -> bytes -> Prop) (wf : cst -> Prop),
    (forall (s0 s : cst) (cin cout : bytes),
        wf s0 -> ereach cstep s0 s cin cout -> E s0 cin (cout ++ snd (cflush s))) ->
    forall (s0s : list cst) (bsz : Z) (fuel : nat) (ms : list (bytes * list nat))
           (st : cstate cst) (infos : list (Z * Z * Z)) (n : Z),
      Forall wf s0s -> bsz <> 0 ->
      write_session cstep cflush fuel (cinit s0s bsz) ms = Ok (st, infos, n) ->
      map info_in infos = map (fun m : bytes * list nat => zlen (fst m)) ms /\
      map info_crc infos = map (fun m : bytes * list nat => crc32 (fst m)) ms /\
      cpacksize st = zlen (cout st) /\
      cdigest st = crc32 (cout st) /\
      zsum (map info_out infos) + n = cpacksize st /\
      exists ins, Echain E s0s (concat (map fst ms)) ins (cout st) /\ cunpack st = map zlen ins.
Proof. exact sizes_and_crcs. Qed.
Print Assumptions C01_sizes_and_crcs.

(* the session raises nothing (no IndexError on _unpacksizes) and its block loops terminate *)
Theorem C01_write_session_total :
  forall (cst : Type) (cstep : cst -> bytes -> cst * bytes) (cflush : cst -> cst * bytes)
         (E : cst -> bytes -> bytes -> Prop) (wf : cst -> Prop),
    (forall (s0 s : cst) (cin cout : bytes),
        wf s0 -> ereach cstep s0 s cin cout -> E s0 cin (cout ++ snd (cflush s))) ->
    forall (s0s : list cst) (bsz : Z) (fuel : nat) (ms : list (bytes * list nat)),
      Forall wf s0s -> bsz <> 0 ->
      Forall (fun m : bytes * list nat => (length (fst m) < fuel)%nat) ms ->
      exists r, write_session cstep cflush fuel (cinit s0s bsz) ms = Ok r.
Proof. exact write_session_total. Qed.
Print Assumptions C01_write_session_total.

(* folder.unpacksizes for the three chain shapes SevenZipCompressor.__init__ accepts, and its
   reading by SevenZipDecompressor.__init__ *)
Theorem C01_unpacksizes_all_alternative : forall us : list Z,
  (do f <- unpacksizes_prop (repeat false (length us)) us;
   dec_unpacksizes (repeat false (length f)) f) = Ok (rev us).
Proof. exact unpacksizes_roundtrip_all_alternative. Qed.
Print Assumptions C01_unpacksizes_all_alternative.

Theorem C01_unpacksizes_all_native : forall (u : Z) (n : nat),
  unpacksizes_prop (repeat true (S n)) [u] = Ok (repeat u (S n)).
Proof. exact unpacksizes_all_native. Qed.
Print Assumptions C01_unpacksizes_all_native.

Theorem C01_unpacksizes_native_then_aes : forall (u v : Z) (n : nat),
  unpacksizes_prop (repeat true (S n) ++ [false]) [u; v] = Ok (v :: repeat u (S n)).
Proof. exact unpacksizes_native_then_aes. Qed.
Print Assumptions C01_unpacksizes_native_then_aes.

(* ------------------------------------------------------------------------------------ *)
(* 2. READ SIDE (Decomp.v restated)                                                      *)
(* ------------------------------------------------------------------------------------ *)

(* whatever the max_length requests and the (short) reads: what decompress has returned plus
   what it holds in _buf is a prefix of D_n(... D_1(packed)) *)
Theorem C01_prefix_safety :
  forall (stage_st : Type) (dstep : stage_st -> bytes -> Z -> stage_st * bytes)
         (D : stage_st -> bytes -> bytes),
    (forall (s0 : stage_st) (a b : bytes), prefix (D s0 a) (D s0 (a ++ b))) ->
    (forall (s0 s : stage_st) (cin cout : bytes), reach dstep s0 s cin cout -> prefix cout (D s0 cin)) ->
    forall (st st' : dstate stage_st) (calls : list (Z * nat)) (outs : bytes),
      fresh st ->
      decompress_seq dstep st calls = Ok (st', outs) ->
      prefix (outs ++ py_from (buf st') (pos st')) (Dchain D (stages st) (packed_of st)).
Proof. exact prefix_safety. Qed.
Print Assumptions C01_prefix_safety.

(* each result honours max_length *)
Theorem C01_decompress_len :
  forall (stage_st : Type) (dstep : stage_st -> bytes -> Z -> stage_st * bytes)
         (st st' : dstate stage_st) (ml : Z) (rd : nat) (out : bytes),
    0 <= pos st <= zlen (buf st) -> unused st = [] -> 0 <= ml ->
    decompress dstep st ml rd = Ok (st', out) -> zlen out <= ml.
Proof. exact decompress_len. Qed.
Print Assumptions C01_decompress_len.

(* the Worker.decompress loop delivers exactly the next `size` bytes of the decoded stream *)
Theorem C01_worker_next :
  forall (stage_st : Type) (dstep : stage_st -> bytes -> Z -> stage_st * bytes)
         (D : stage_st -> bytes -> bytes),
    (forall (s0 : stage_st) (a b : bytes), prefix (D s0 a) (D s0 (a ++ b))) ->
    (forall (s0 s : stage_st) (cin cout : bytes), reach dstep s0 s cin cout -> prefix cout (D s0 cin)) ->
    forall (s0s : list stage_st) (P0 : bytes) (fuel : nat) (st st' : dstate stage_st)
           (size mb : Z) (sched : list nat) (acc out : bytes),
      safe_state dstep s0s P0 st acc -> 0 <= size -> 0 < mb ->
      worker_decompress dstep fuel st size mb sched = Ok (st', out) ->
      safe_state dstep s0s P0 st' (acc ++ out) /\
      zlen out = size /\
      out = firstn (Z.to_nat size)
                   (skipn (length acc) (Dchain D s0s (firstn (Z.to_nat (input_size st)) P0))).
Proof. exact worker_next. Qed.
Print Assumptions C01_worker_next.

Theorem C01_worker_first :
  forall (stage_st : Type) (dstep : stage_st -> bytes -> Z -> stage_st * bytes)
         (D : stage_st -> bytes -> bytes),
    (forall (s0 : stage_st) (a b : bytes), prefix (D s0 a) (D s0 (a ++ b))) ->
    (forall (s0 s : stage_st) (cin cout : bytes), reach dstep s0 s cin cout -> prefix cout (D s0 cin)) ->
    forall (fuel : nat) (st st' : dstate stage_st) (size mb : Z) (sched : list nat) (out : bytes),
      fresh st -> 0 <= size -> 0 < mb ->
      worker_decompress dstep fuel st size mb sched = Ok (st', out) ->
      zlen out = size /\ out = firstn (Z.to_nat size) (Dchain D (stages st) (packed_of st)).
Proof. exact worker_first. Qed.
Print Assumptions C01_worker_first.

Theorem C01_worker_len :
  forall (stage_st : Type) (dstep : stage_st -> bytes -> Z -> stage_st * bytes)
         (L0 : Z) (fuel : nat) (st st' : dstate stage_st) (size mb : Z) (sched : list nat) (out : bytes),
    book_inv L0 st -> 0 <= size -> 0 < mb ->
    worker_decompress dstep fuel st size mb sched = Ok (st', out) -> zlen out = size /\ book_inv L0 st'.
Proof. exact worker_len. Qed.
Print Assumptions C01_worker_len.

(* Decomp.v's loop (the code as it stood) has no progress guard: once every stage is quiet on empty
   input and nothing more can be read it never returns *)
Theorem C01_worker_spins :
  forall (stage_st : Type) (dstep : stage_st -> bytes -> Z -> stage_st * bytes)
         (quiet : stage_st -> Prop),
    (forall (s : stage_st) (ml : Z), quiet s -> snd (dstep s [] ml) = [] /\ quiet (fst (dstep s [] ml))) ->
    forall (fuel : nat) (st : dstate stage_st) (size mb : Z) (sched : list nat),
      stuck quiet st -> 0 < size -> 0 < mb -> worker_decompress dstep fuel st size mb sched = Err EFuel.
Proof. exact worker_spins. Qed.
Print Assumptions C01_worker_spins.

(* the loop as it stands since the repairs (MAX_STALLED_ROUNDS = 16; a round is stalled when nothing is delivered, no
   input is taken and no coder of the chain puts anything out: Decomp.idle; RoundTrip.gworker): whenever it
   returns it returns what Decomp.v's loop returns, so everything above and below holds of it ... *)
Theorem C01_guarded_worker_refines :
  forall (dst : Type) (dstep : dst -> bytes -> Z -> dst * bytes) (failed : dst -> bool)
         (fuel : nat) (st : dstate dst) (size mb : Z) (sched : list nat) (stalled : Z) r,
    gworker dstep failed fuel st size mb sched stalled = Ok r ->
    worker_decompress dstep fuel st size mb sched = Ok r.
Proof. exact gworker_ok. Qed.
Print Assumptions C01_guarded_worker_refines.

Theorem C01_guarded_extract_refines :
  forall (dst : Type) (dstep : dst -> bytes -> Z -> dst * bytes) (failed : dst -> bool)
         (fuel : nat) (mb : Z) (sizes : list Z) (st : dstate dst) (scheds : list (list nat)) r,
    gextract dstep failed fuel st sizes mb scheds = Ok r ->
    extract_members dstep fuel st sizes mb scheds = Ok r.
Proof. exact gextract_ok. Qed.
Print Assumptions C01_guarded_extract_refines.

(* ... and where Decomp.v's loop spins, it raises Bad7zFile at the 17th idle round *)
Theorem C01_guarded_worker_raises :
  forall (dst : Type) (dstep : dst -> bytes -> Z -> dst * bytes) (failed : dst -> bool)
         (quiet : dst -> Prop),
    (forall (s : dst) (ml : Z), quiet s -> snd (dstep s [] ml) = [] /\ quiet (fst (dstep s [] ml))) ->
    (forall s : dst, quiet s -> failed s = false) ->
    forall (n fuel : nat) (st : dstate dst) (size mb : Z) (sched : list nat) (stalled : Z),
      ended dst quiet st -> 0 < size -> 0 < mb -> stalled = 16 - Z.of_nat n -> (n < fuel)%nat ->
      gworker dstep failed fuel st size mb sched stalled = Err EBad7z.
Proof. exact gworker_raises. Qed.
Print Assumptions C01_guarded_worker_raises.

(* the member loop of _extract_single delivers consecutive slices of the decoded stream *)
Theorem C01_extract_members :
  forall (dst : Type) (dstep : dst -> bytes -> Z -> dst * bytes) (D : dst -> bytes -> bytes),
    (forall (s0 : dst) (a b : bytes), prefix (D s0 a) (D s0 (a ++ b))) ->
    (forall (s0 s : dst) (cin cout : bytes), reach dstep s0 s cin cout -> prefix cout (D s0 cin)) ->
    forall (s0s : list dst) (P0 : bytes) (fuel : nat) (mb : Z) (sizes : list Z)
           (st st' : dstate dst) (scheds : list (list nat)) (acc : bytes) (outs : list bytes),
      safe_state dstep s0s P0 st acc -> Forall (fun n : Z => 0 <= n) sizes -> 0 < mb ->
      extract_members dstep fuel st sizes mb scheds = Ok (st', outs) ->
      outs = split_sizes (skipn (length acc) (Dchain D s0s (firstn (Z.to_nat (input_size st)) P0))) sizes /\
      map zlen outs = sizes.
Proof. exact extract_members_spec. Qed.
Print Assumptions C01_extract_members.

(* ------------------------------------------------------------------------------------ *)
(* 3. ROUND TRIP                                                                         *)
(* ------------------------------------------------------------------------------------ *)

(* Hypotheses on the codecs, in this order: stream-encoder contract of every encoder stage;
   monotonicity and prefix safety of every decoder stage; (codec_inverse) decoder stage j
   applied to the output of encoder stage n-1-j has the input as a prefix.
   Conclusion: if the extraction loop returns, it returns every member's bytes, in order, and
   the CRC-32 values it computes are the recorded ones -- for every block size on either side,
   every read schedule on either side, every chunk limit, any bytes after the packed stream. *)
Theorem C01_roundtrip_chain :
  forall (cst : Type) (cstep : cst -> bytes -> cst * bytes) (cflush : cst -> cst * bytes)
         (E : cst -> bytes -> bytes -> Prop) (wf : cst -> Prop),
    (forall (s0 s : cst) (cin cout : bytes),
        wf s0 -> ereach cstep s0 s cin cout -> E s0 cin (cout ++ snd (cflush s))) ->
    forall (dst : Type) (dstep : dst -> bytes -> Z -> dst * bytes) (D : dst -> bytes -> bytes),
      (forall (s0 : dst) (a b : bytes), prefix (D s0 a) (D s0 (a ++ b))) ->
      (forall (s0 s : dst) (cin cout : bytes), reach dstep s0 s cin cout -> prefix cout (D s0 cin)) ->
      forall (s0s : list cst) (d0s : list dst) (bsz : Z) (fuel : nat) (ms : list (bytes * list nat))
             (cs : cstate cst) (infos : list (Z * Z * Z)) (n : Z) (us : list Z) (bsr : Z)
             (trailer : bytes) (fuelr : nat) (mb : Z) (scheds : list (list nat)) (ds : dstate dst)
             (outs : list bytes),
        Forall wf s0s ->
        Forall2 (fun s d => forall x y, E s x y -> prefix x (D d y)) s0s (rev d0s) ->
        bsz <> 0 -> 0 < mb ->
        write_session cstep cflush fuel (cinit s0s bsz) ms = Ok (cs, infos, n) ->
        extract_members dstep fuelr (init_state d0s us (cpacksize cs) bsr (cout cs ++ trailer))
                        (map info_in infos) mb scheds = Ok (ds, outs) ->
        outs = map fst ms /\ map crc32 outs = map info_crc infos.
Proof. exact roundtrip_chain. Qed.
Print Assumptions C01_roundtrip_chain.

Theorem C01_roundtrip_single_stage :
  forall (cst : Type) (cstep : cst -> bytes -> cst * bytes) (cflush : cst -> cst * bytes)
         (E : cst -> bytes -> bytes -> Prop) (wf : cst -> Prop),
    (forall (s0 s : cst) (cin cout : bytes),
        wf s0 -> ereach cstep s0 s cin cout -> E s0 cin (cout ++ snd (cflush s))) ->
    forall (dst : Type) (dstep : dst -> bytes -> Z -> dst * bytes) (D : dst -> bytes -> bytes),
      (forall (s0 : dst) (a b : bytes), prefix (D s0 a) (D s0 (a ++ b))) ->
      (forall (s0 s : dst) (cin cout : bytes), reach dstep s0 s cin cout -> prefix cout (D s0 cin)) ->
      forall (s0 : cst) (d0 : dst) (bsz : Z) (fuel : nat) (ms : list (bytes * list nat))
             (cs : cstate cst) (infos : list (Z * Z * Z)) (n : Z) (us : list Z) (bsr : Z)
             (trailer : bytes) (fuelr : nat) (mb : Z) (scheds : list (list nat)) (ds : dstate dst)
             (outs : list bytes),
        wf s0 -> (forall x y : bytes, E s0 x y -> prefix x (D d0 y)) -> bsz <> 0 -> 0 < mb ->
        write_session cstep cflush fuel (cinit [s0] bsz) ms = Ok (cs, infos, n) ->
        extract_members dstep fuelr (init_state [d0] us (cpacksize cs) bsr (cout cs ++ trailer))
                        (map info_in infos) mb scheds = Ok (ds, outs) ->
        outs = map fst ms /\ map crc32 outs = map info_crc infos.
Proof. exact roundtrip_single_stage. Qed.
Print Assumptions C01_roundtrip_single_stage.

(* ------------------------------------------------------------------------------------ *)
(* 4. AES (Aes.v restated; the block cipher is abstract)                                  *)
(* ------------------------------------------------------------------------------------ *)

(* AESCompressor: for EVERY chunking, outputs ++ flush = CBC-encrypt (pad16 (all input)) *)
Theorem C01_aes_compress_chunking :
  forall (Eb : bytes -> bytes) (iv : bytes) (chunks : list bytes),
    let '(st, out) := Aes.compress_all Eb (Aes.cinit iv) chunks in
    let '(_, tail) := Aes.aes_flush Eb st in
    out ++ tail = fst (Aes.cbc_enc Eb iv (Aes.pad16 (concat chunks))).
Proof. exact Aes.aes_compress_chunking. Qed.
Print Assumptions C01_aes_compress_chunking.

(* hence AESCompressor is a stage in the sense of C01_compress_chain *)
Theorem C01_aes_enc_contract :
  forall (Eb : bytes -> bytes) (s0 s : Aes.cstate) (cin cout : bytes),
    aes_cwf s0 -> ereach (aes_cstep Eb) s0 s cin cout ->
    cout ++ snd (aes_cflush Eb s) = aes_E Eb s0 cin.
Proof. exact aes_enc_contract. Qed.
Print Assumptions C01_aes_enc_contract.

(* AESDecompressor: correct for the chunk schedules satisfying dec_chunks_ok (no EMPTY chunk on a non-empty
   residue; since the repair of the unaligned branch nothing else is required) ... *)
Theorem C01_aes_decompress_chunking :
  forall (Db : bytes -> bytes) (iv : bytes) (chunks : list bytes),
    Aes.dec_chunks_ok 0 chunks = true ->
    let '(st, out) := Aes.decompress_all Db (Aes.dinit iv) chunks in
    let '(_, tail) := Aes.aes_decompress Db st [] in
    out ++ tail = fst (Aes.cbc_dec Db iv (Aes.pad16 (concat chunks))).
Proof. exact Aes.aes_decompress_chunking. Qed.
Print Assumptions C01_aes_decompress_chunking.

(* ... which decrypts what the compressor wrote to pad16 of the plaintext (the padding is cut
   off by the recorded member sizes: C01_worker_next takes `size` bytes) *)
Theorem C01_aes_roundtrip_stream :
  forall Eb Db : bytes -> bytes,
    (forall x : bytes, length x = 16%nat -> Db (Eb x) = x) ->
    (forall x : bytes, length x = 16%nat -> length (Eb x) = 16%nat) ->
    forall (iv : bytes) (pchunks cchunks : list bytes),
      length iv = 16%nat ->
      concat cchunks = Aes.compress_stream Eb iv pchunks ->
      Aes.dec_chunks_ok 0 cchunks = true ->
      Aes.decompress_stream Db iv cchunks = Aes.pad16 (concat pchunks).
Proof. exact Aes.aes_roundtrip_stream. Qed.
Print Assumptions C01_aes_roundtrip_stream.

Theorem C01_aes_codec_inverse :
  forall Eb Db : bytes -> bytes,
    (forall x : bytes, length x = 16%nat -> Db (Eb x) = x) ->
    (forall x : bytes, length x = 16%nat -> length (Eb x) = 16%nat) ->
    forall iv x : bytes,
      length iv = 16%nat ->
      fst (Aes.cbc_dec Db iv (Aes.pad16 (aes_E Eb (Aes.cinit iv) x))) = Aes.pad16 x /\
      prefix x (Aes.pad16 x).
Proof. exact aes_codec_inverse. Qed.
Print Assumptions C01_aes_codec_inverse.

(* schedules that ARE safe: every chunk but the last has >= 16 bytes and the packed length is a
   multiple of 16 (full reads with any block size >= 16; multi-volume files whose volumes are
   not larger than the block size) *)
Theorem C01_aes_regular_schedules_ok :
  forall chunks : list bytes,
    Aes.blen (concat chunks) mod 16 = 0 ->
    all_but_last_ge16 (map Aes.blen chunks) ->
    Aes.dec_chunks_ok 0 chunks = true.
Proof. exact dec_chunks_ok_regular. Qed.
Print Assumptions C01_aes_regular_schedules_ok.

(* ... in particular for EVERY chunking into non-empty chunks, whatever their sizes (short reads at volume
   boundaries, block sizes below 16) ... *)
Theorem C01_aes_decompress_chunking_nonempty :
  forall (Db : bytes -> bytes) (iv : bytes) (chunks : list bytes),
    Forall (fun d => 0 < Aes.blen d) chunks ->
    let '(st, out) := Aes.decompress_all Db (Aes.dinit iv) chunks in
    let '(_, tail) := Aes.aes_decompress Db st [] in
    out ++ tail = fst (Aes.cbc_dec Db iv (Aes.pad16 (concat chunks))).
Proof. exact Aes.aes_decompress_chunking_nonempty. Qed.
Print Assumptions C01_aes_decompress_chunking_nonempty.

(* ... because a non-empty chunk that does not complete a block together with the residue is kept for the next
   call (before the repair: negative slice, misaligned decrypt, ValueError) *)
Theorem C01_aes_decompress_short_buffered :
  forall (Db : bytes -> bytes) (st : Aes.dstate) (d : bytes),
    0 < Aes.blen d -> Aes.blen (Aes.dbuf st) + Aes.blen d < 16 ->
    Aes.aes_decompress_chk Db st d = Ok ({| Aes.dbuf := Aes.dbuf st ++ d; Aes.dcst := Aes.dcst st |}, []) /\
    Aes.aes_decompress Db st d = ({| Aes.dbuf := Aes.dbuf st ++ d; Aes.dcst := Aes.dcst st |}, []).
Proof. exact Aes.aes_decompress_short_buffered. Qed.
Print Assumptions C01_aes_decompress_short_buffered.

(* the schedule that used to raise: 32 bytes of ciphertext delivered as 5 + 5 + 22 bytes *)
Theorem C01_aes_decompress_short_chunks_ok :
  Aes.dec_chunks_ok 0 Aes.ex_short_chunks = true /\
  (exists r, Aes.decompress_all_chk Aes.toyD (Aes.dinit Aes.ex_iv) Aes.ex_short_chunks = Ok r) /\
  Aes.decompress_stream Aes.toyD Aes.ex_iv Aes.ex_short_chunks = Aes.ex_plain 32.
Proof. exact Aes.aes_decompress_short_chunks_ok. Qed.
Print Assumptions C01_aes_decompress_short_chunks_ok.

(* what remains excluded: an EMPTY chunk arriving on a non-empty residue pads prematurely and corrupts the
   stream without any exception (decompress(b"") is the end-of-stream call) *)
Theorem C01_aes_decompress_empty_chunk_refuted :
  exists (iv : bytes) (chunks : list bytes),
    Aes.decompress_stream Aes.toyD iv chunks <> fst (Aes.cbc_dec Aes.toyD iv (Aes.pad16 (concat chunks))) /\
    (exists r, Aes.decompress_all_chk Aes.toyD (Aes.dinit iv) chunks = Ok r) /\
    Aes.blen (Aes.decompress_stream Aes.toyD iv chunks) = 48 /\ Aes.blen (concat chunks) = 32.
Proof. exact Aes.aes_decompress_empty_chunk_refuted. Qed.
Print Assumptions C01_aes_decompress_empty_chunk_refuted.

(* that empty chunk is not reachable for archives py7zr writes (AES is always the first decoder stage, _unused is
   never non-empty, _read_data returns b"" only when the whole packed stream, a multiple of 16 bytes, has been
   consumed), and every read schedule _read_data produces -- any block size, any volume size -- is safe *)
Theorem C01_aes_read_schedules_ok :
  forall (fuel : nat) (p n bs V : Z), dec_sizes_ok 0 (mv_chunks fuel p n bs V) = true.
Proof. exact mv_schedules_ok. Qed.
Print Assumptions C01_aes_read_schedules_ok.

(* through SevenZipDecompressor: volumes of 70 bytes, block size 32; the fifth read hands the AES stage 6 bytes on a
   residue of 6 (ValueError before the repair): they are kept, and the loop delivers all 112 bytes, as with full reads *)
Theorem C01_aes_short_read_delivered :
  (exists st', worker_decompress (aes_dstep Aes.toyD) 10 (rt_state 32) 112 1000
                                 (map Z.to_nat (mv_chunks 10 32 112 32 70)) = Ok (st', rt_plain)) /\
  (exists st'', worker_decompress (aes_dstep Aes.toyD) 10 (rt_state 32) 112 1000 [] = Ok (st'', rt_plain)) /\
  (exists st5 outs, decompress_seq (aes_dstep Aes.toyD) (rt_state 32)
                      [(112, 32%nat); (80, 6%nat); (80, 32%nat); (48, 32%nat); (16, 6%nat)] = Ok (st5, outs) /\
                    zlen outs = 96 /\
                    exists a, stages st5 = [Ok a] /\ Aes.blen (Aes.dbuf a) = 12).
Proof. exact aes_short_read_delivered. Qed.
Print Assumptions C01_aes_short_read_delivered.

(* read schedules of _read_data by computation; the last two raised before the repair (volumes of 1 MiB + 4 bytes
   at the DEFAULT block size; block size 32 with 70-byte volumes) *)
Theorem C01_read_schedules :
  mv_chunks 10 32 3145744 1048576 (2 ^ 62) = [1048576; 1048576; 1048576; 16] /\
  mv_chunks 10 32 208 1048576 70 = [38; 70; 70; 30] /\
  mv_chunks 10 32 2097200 1048576 1048580 = [1048548; 1048576; 4; 72] /\
  dec_sizes_ok 0 (mv_chunks 10 32 2097200 1048576 1048580) = true /\
  mv_chunks 10 32 112 32 70 = [32; 6; 32; 32; 6; 4] /\
  dec_sizes_ok 0 (mv_chunks 10 32 112 32 70) = true.
Proof. exact mv_chunks_examples. Qed.
Print Assumptions C01_read_schedules.

(* ------------------------------------------------------------------------------------ *)
(* 5. NON-VACUITY: every hypothesis above is met by concrete, non-trivial instances       *)
(* ------------------------------------------------------------------------------------ *)

(* the toy encoder stages satisfy the stream-encoder contract, the toy decoder stages are
   monotone and prefix safe, matching pairs are inverse: the round trip theorem instantiated *)
Theorem C01_toy_roundtrip_chain :
  forall (s0s d0s : list toy_state) (bsz : Z) (fuel : nat)
         (ms : list (bytes * list nat)) (cs : cstate toy_state) (infos : list (Z * Z * Z)) (n : Z)
         (us : list Z) (bsr : Z) (trailer : bytes) (fuelr : nat) (mb : Z)
         (scheds : list (list nat)) (ds : dstate toy_state) (outs : list bytes),
    Forall2 (fun s d => toy_pair_ok s d = true) s0s (rev d0s) -> bsz <> 0 -> 0 < mb ->
    write_session toy_cstep toy_cflush fuel (cinit s0s bsz) ms = Ok (cs, infos, n) ->
    extract_members toy_dstep fuelr (init_state d0s us (cpacksize cs) bsr (cout cs ++ trailer))
                    (map info_in infos) mb scheds = Ok (ds, outs) ->
    outs = map fst ms /\ map crc32 outs = map info_crc infos.
Proof. exact toy_roundtrip_chain. Qed.
Print Assumptions C01_toy_roundtrip_chain.

(* for encoders that are functions of their input the packed stream is the composition *)
Theorem C01_toy_compress_chain :
  forall (s0s : list toy_state) (bsz : Z) (fuel : nat) (ms : list (bytes * list nat))
         (st : cstate toy_state) (infos : list (Z * Z * Z)) (n : Z),
    bsz <> 0 ->
    write_session toy_cstep toy_cflush fuel (cinit s0s bsz) ms = Ok (st, infos, n) ->
    cout st = Echainf toy_E s0s (concat (map fst ms)).
Proof. exact toy_compress_chain. Qed.
Print Assumptions C01_toy_compress_chain.

(* both sides return on a concrete session: [lagging(2); padder(4)], block size 3, a short
   read; read back through [copy; lagging(1)], block size 2, chunk limit 3, a short read *)
Example C01_toy_roundtrip_example :
  match write_session toy_cstep toy_cflush 20 (cinit [toy_st 1 2 []; toy_st 4 4 []] 3)
                      [([1; 2; 3; 4; 5], [2%nat]); ([], []); ([6; 7], [])] with
  | Ok (cs, infos, n) =>
    cout cs = [1; 2; 3; 4; 5; 6; 7; 0] /\
    match extract_members toy_dstep 30
            (init_state [toy_st 0 0 []; toy_st 1 1 []] [8; 8] (cpacksize cs) 2 (cout cs ++ [9; 9; 9; 9; 9]))
            (map info_in infos) 3 [[1%nat]; []; []] with
    | Ok (_, outs) => outs = [[1; 2; 3; 4; 5]; []; [6; 7]]
    | Err _ => False
    end
  | Err _ => False
  end.
Proof. exact toy_roundtrip_ex. Qed.

(* the toy cipher meets the hypotheses on the block cipher: encrypt in odd chunks, decrypt in
   other legal chunks, pad16 of the plaintext comes back *)
Example C01_aes_toy_example :
  let c := Aes.compress_stream Aes.toyE Aes.ex_iv
             [Aes.ex_plain 5; Aes.ex_plain 0; map (Z.add 5) (Aes.ex_plain 32)] in
  Aes.blen c = 48 /\
  Aes.decompress_stream Aes.toyD Aes.ex_iv [firstn 7 c; skipn 7 (firstn 30 c); skipn 30 c]
  = Aes.ex_plain 37 ++ Aes.zeros 11.
Proof. exact Aes.ex_roundtrip. Qed.

(* the stall guard, concretely: declared unpack size 10, the stream holds 3 bytes *)
Example C01_toy_guard_example :
  (exists st, gworker toy_dstep (fun _ => false) 30 (init_state [toy_st 0 0 []] [10] 3 100 [1; 2; 3]) 3 100 [] 0
              = Ok (st, [1; 2; 3])) /\
  gworker toy_dstep (fun _ => false) 30 (init_state [toy_st 0 0 []] [10] 3 100 [1; 2; 3]) 10 100 [] 0 = Err EBad7z /\
  gworker toy_dstep (fun _ => false) 17 (init_state [toy_st 0 0 []] [10] 3 100 [1; 2; 3]) 10 100 [] 0 = Err EFuel.
Proof. exact toy_guard_ex. Qed.

(* a spinning Worker.decompress (the loop without the guard), concretely: declared unpack size 10, stream holds 3 bytes *)
Example C01_toy_worker_spins : forall fuel : nat,
  toy_worker fuel [toy_st 0 0 []] [10] 3 100 [1; 2; 3] 10 100 [] = Err EFuel.
Proof. exact toy_worker_spins. Qed.

(* ------------------------------------------------------------------------------------ *)
(* G. The same, over the code as it is NOW (translator tie)                              *)
(* ------------------------------------------------------------------------------------ *)
(* AesBuf.* and HelpersCrc.* are the definitions of coq/gen/AesBuf.v and coq/gen/HelpersCrc.v, regenerated by
   tools/translate.py on every run from py7zr/compressor.py (AESCompressor.compress / flush,
   AESDecompressor.decompress) and py7zr/helpers.py (calculate_crc32).  The cipher object is abstract: a state and
   two operations enc / dec that may raise; a generated method takes the object state (bytes of self.buf's view,
   cipher state) and returns (result, new state).  AesGen.enc_chk Eb / dec_chk Db is CBC over the block function with
   pycryptodome's ValueError on input that is not a multiple of 16 bytes. *)

(* the hand model of Aes.v (with the ValueError made explicit) IS what the source says, call by call *)
Theorem C01_gen_aes_compress_is_model : forall (Eb : bytes -> bytes) (st : Aes.cstate) (d : bytes),
  AesBuf.AESCompressor_compress Aes.cst (AesGen.enc_chk Eb) (Aes.cbuf st) (Aes.ccst st) d
  = (do r <- Aes.aes_compress_chk Eb st d; Ok (AesGen.c_ret r)).
Proof. exact AesGen.gen_compress_chk. Qed.
Print Assumptions C01_gen_aes_compress_is_model.

Theorem C01_gen_aes_flush_is_model : forall (Eb : bytes -> bytes) (st : Aes.cstate),
  AesBuf.AESCompressor_flush Aes.cst (AesGen.enc_chk Eb) (Aes.cbuf st) (Aes.ccst st)
  = (do r <- Aes.aes_flush_chk Eb st; Ok (AesGen.c_ret r)).
Proof. exact AesGen.gen_flush_chk. Qed.
Print Assumptions C01_gen_aes_flush_is_model.

Theorem C01_gen_aes_decompress_is_model : forall (Db : bytes -> bytes) (st : Aes.dstate) (d : bytes) (max_length : Z),
  AesBuf.AESDecompressor_decompress Aes.cst (AesGen.dec_chk Db) (Aes.dbuf st) (Aes.dcst st) d max_length
  = (do r <- Aes.aes_decompress_chk Db st d; Ok (AesGen.d_ret r)).
Proof. exact AesGen.gen_decompress_chk. Qed.
Print Assumptions C01_gen_aes_decompress_is_model.

(* ... and with a cipher that never raises, the unchecked model *)
Theorem C01_gen_aes_unchecked_is_model : forall (Eb Db : bytes -> bytes),
  (forall st d, AesBuf.AESCompressor_compress Aes.cst (AesGen.enc_tot Eb) (Aes.cbuf st) (Aes.ccst st) d
                = Ok (AesGen.c_ret (Aes.aes_compress Eb st d))) /\
  (forall st, AesBuf.AESCompressor_flush Aes.cst (AesGen.enc_tot Eb) (Aes.cbuf st) (Aes.ccst st)
              = Ok (AesGen.c_ret (Aes.aes_flush Eb st))) /\
  (forall st d ml, AesBuf.AESDecompressor_decompress Aes.cst (AesGen.dec_tot Db) (Aes.dbuf st) (Aes.dcst st) d ml
                   = Ok (AesGen.d_ret (Aes.aes_decompress Db st d))).
Proof.
  intros Eb Db. split; [exact (AesGen.gen_compress Eb) | split; [exact (AesGen.gen_flush Eb) | exact (AesGen.gen_decompress Db)]].
Qed.
Print Assumptions C01_gen_aes_unchecked_is_model.

(* chunking, over the generated methods: a session of compress() calls then flush() on a fresh object never raises and
   emits the CBC encryption of the zero-padded concatenation of the chunks, however the data is chunked *)
Theorem C01_gen_aes_compress_chunking : forall (Eb : bytes -> bytes) (iv : bytes) (chunks : list bytes),
  AesGen.gen_compress_stream Aes.cst (AesGen.enc_chk Eb) iv chunks
  = Ok (fst (Aes.cbc_enc Eb iv (Aes.pad16 (concat chunks)))).
Proof. exact AesGen.gen_aes_compress_chunking. Qed.
Print Assumptions C01_gen_aes_compress_chunking.

(* ... and decompress() calls then the final decompress(b""), on every schedule where a chunk arrives on a non-empty
   residue only if it completes a block *)
Theorem C01_gen_aes_decompress_chunking : forall (Db : bytes -> bytes) (iv : bytes) (chunks : list bytes),
  Aes.dec_chunks_ok 0 chunks = true ->
  AesGen.gen_decompress_stream Aes.cst (AesGen.dec_chk Db) iv chunks
  = Ok (fst (Aes.cbc_dec Db iv (Aes.pad16 (concat chunks)))).
Proof. exact AesGen.gen_aes_decompress_chunking. Qed.
Print Assumptions C01_gen_aes_decompress_chunking.

(* the repaired behaviour over the generated code: a short chunk on a non-empty residue is kept, the cipher is not called *)
Theorem C01_gen_aes_decompress_short_buffers : forall (Db : bytes -> bytes) (buf c d : bytes) (max_length : Z),
  0 < Aes.blen d -> Aes.blen buf + Aes.blen d < 16 ->
  AesBuf.AESDecompressor_decompress Aes.cst (AesGen.dec_chk Db) buf c d max_length = Ok ([], (buf ++ d, c)).
Proof. exact AesGen.gen_decompress_short_buffers. Qed.
Print Assumptions C01_gen_aes_decompress_short_buffers.

(* hence every chunking into non-empty chunks decrypts correctly, over the generated code with the raising cipher *)
Theorem C01_gen_aes_decompress_chunking_nonempty : forall (Db : bytes -> bytes) (iv : bytes) (chunks : list bytes),
  Forall (fun d => 0 < Aes.blen d) chunks ->
  AesGen.gen_decompress_stream Aes.cst (AesGen.dec_chk Db) iv chunks
  = Ok (fst (Aes.cbc_dec Db iv (Aes.pad16 (concat chunks)))).
Proof. exact AesGen.gen_aes_decompress_chunking_nonempty. Qed.
Print Assumptions C01_gen_aes_decompress_chunking_nonempty.

(* helpers.calculate_crc32: the block loop computes the one-shot CRC, for EVERY function zcrc32 in the place of
   zlib.crc32 that satisfies the append law and stays in 32 bits, every positive block size, enough fuel for the
   `while` (one unit per byte suffices; without a positive block size the Python does not terminate) *)
Theorem C01_gen_calculate_crc32 : forall (zcrc32 : bytes -> Z -> Z),
  (forall d v, 0 <= v < 2 ^ 32 -> 0 <= zcrc32 d v < 2 ^ 32) ->
  (forall a b v, 0 <= v < 2 ^ 32 -> zcrc32 (a ++ b) v = zcrc32 b (zcrc32 a v)) ->
  forall (fuel : nat) (data : bytes) (value blocksize : Z),
    0 <= value < 2 ^ 32 -> 0 < blocksize -> (length data <= fuel)%nat ->
    HelpersCrc.calculate_crc32 zcrc32 fuel data value blocksize = Ok (zcrc32 data value).
Proof. exact CrcGen.gen_calculate_crc32. Qed.
Print Assumptions C01_gen_calculate_crc32.

(* the hypotheses are met by the CRC-32 of Crc32.v (the model of zlib.crc32): calculate_crc32(data) is crc32 data *)
Theorem C01_gen_calculate_crc32_is_crc32 : forall (data : bytes),
  HelpersCrc.calculate_crc32 (fun d v => crc32_update v d) (length data) data 0 (1024 * 1024) = Ok (crc32 data).
Proof. exact CrcGen.gen_calculate_crc32_default. Qed.
Print Assumptions C01_gen_calculate_crc32_is_crc32.

Example C01_gen_examples :
  HelpersCrc.calculate_crc32 (fun d v => crc32_update v d) 9 [49;50;51;52;53;54;55;56;57] 0 4 = Ok 3421780262 /\
  Aes.dec_chunks_ok 0 [repeatZ 1 17; repeatZ 2 15] = true.
Proof. split; [exact CrcGen.ex_gen_crc | reflexivity]. Qed.

(* ---- third wave (stage 7): SevenZipDecompressor._decompress / _read_data / decompress as translated on this run from
   py7zr/compressor.py (gen/DecompChain.v) ARE Decomp.v's run_chain / read_data / decompress: for every object state, every
   file content, every max_length and every read-schedule element rd (the most this call's fp.read returns), with the same
   abstract stage decoders `dstep` on both sides.  DecompGen.st_of o fp is the model state of the object o with the unread
   file fp; DecompGen.of_st st digest delivered the object of a model state (self.digest / self._delivered are not in
   Decomp.v's state).  The digest goes through the generated helpers.calculate_crc32 (fuel for its block loop). ---- *)

Theorem C01_gen_decompress_is_model :
  forall (stage : Type) (dstep : stage -> bytes -> Z -> stage * bytes) (zcrc32 : bytes -> Z -> Z)
         (self : DecompChain.SevenZipDecompressor stage) (fp : bytes) (fuel : nat) (ml : Z) (rd : nat),
  DecompChain.SevenZipDecompressor_decompress stage dstep zcrc32 self fp fuel ml rd
  = (do r <- decompress dstep (DecompGen.st_of stage self fp) ml rd;
     let '(st', out) := r in
     do dg <- HelpersCrc.calculate_crc32 zcrc32 fuel out (DecompChain.SevenZipDecompressor_digest self) 1048576;
     Ok ((DecompGen.of_st stage st' dg (DecompChain.SevenZipDecompressor__delivered self + PyPrims.py_len out), out), fp_rest st')).
Proof. exact DecompGen.gen_decompress. Qed.
Print Assumptions C01_gen_decompress_is_model.

Theorem C01_gen_decompress_chain_is_run_chain :
  forall (stage : Type) (dstep : stage -> bytes -> Z -> stage * bytes) (self : DecompChain.SevenZipDecompressor stage) (fp data : bytes) (ml : Z),
  DecompChain.SevenZipDecompressor_decompress_chain stage dstep self data ml
  = (do r <- run_chain dstep (DecompGen.st_of stage self fp) data ml;
     let '(st', out) := r in
     Ok (DecompGen.of_st stage st' (DecompChain.SevenZipDecompressor_digest self) (DecompChain.SevenZipDecompressor__delivered self), out)).
Proof. intros stage dstep. exact (DecompGen.gen_decompress_chain stage dstep (fun _ v => v)). Qed.
Print Assumptions C01_gen_decompress_chain_is_run_chain.

Theorem C01_gen_read_data_is_model :
  forall (stage : Type) (self : DecompChain.SevenZipDecompressor stage) (fp : bytes) (rd : nat),
  DecompChain.SevenZipDecompressor_read_data stage self fp rd
  = (let '(st1, data) := read_data (DecompGen.st_of stage self fp) rd in
     Ok ((DecompGen.of_st stage st1 (DecompChain.SevenZipDecompressor_digest self) (DecompChain.SevenZipDecompressor__delivered self), data),
         fp_rest st1)).
Proof. exact DecompGen.gen_read_data. Qed.
Print Assumptions C01_gen_read_data_is_model.

(* with a zlib.crc32 obeying the two laws of Crc32.crc32_update: the model's answer is the code's answer (fuel >= len(result)),
   and the digest is the running CRC-32 of what was returned *)
Theorem C01_gen_decompress_accepts :
  forall (stage : Type) (dstep : stage -> bytes -> Z -> stage * bytes) (zcrc32 : bytes -> Z -> Z),
  (forall d v, 0 <= v < 2 ^ 32 -> 0 <= zcrc32 d v < 2 ^ 32) ->
  (forall a b v, 0 <= v < 2 ^ 32 -> zcrc32 (a ++ b) v = zcrc32 b (zcrc32 a v)) ->
  forall (self : DecompChain.SevenZipDecompressor stage) (fp : bytes) (fuel : nat) (ml : Z) (rd : nat) st' out,
  0 <= DecompChain.SevenZipDecompressor_digest self < 2 ^ 32 ->
  decompress dstep (DecompGen.st_of stage self fp) ml rd = Ok (st', out) -> (length out <= fuel)%nat ->
  DecompChain.SevenZipDecompressor_decompress stage dstep zcrc32 self fp fuel ml rd
  = Ok ((DecompGen.of_st stage st' (zcrc32 out (DecompChain.SevenZipDecompressor_digest self))
           (DecompChain.SevenZipDecompressor__delivered self + PyPrims.py_len out), out), fp_rest st').
Proof. exact DecompGen.gen_decompress_is_model. Qed.
Print Assumptions C01_gen_decompress_accepts.

(* C01_decompress_len over the code as translated *)
Theorem C01_gen_decompress_len :
  forall (stage : Type) (dstep : stage -> bytes -> Z -> stage * bytes) (zcrc32 : bytes -> Z -> Z)
         (self o' : DecompChain.SevenZipDecompressor stage) fp fp' fuel ml rd out,
  0 <= DecompChain.SevenZipDecompressor__pos self <= zlen (DecompChain.SevenZipDecompressor__buf self) ->
  DecompChain.SevenZipDecompressor__unused self = [] -> 0 <= ml ->
  DecompChain.SevenZipDecompressor_decompress stage dstep zcrc32 self fp fuel ml rd = Ok ((o', out), fp') ->
  zlen out <= ml.
Proof. exact DecompGen.gen_decompress_len. Qed.
Print Assumptions C01_gen_decompress_len.

(* ---- third wave (stage 9): SevenZipCompressor.compress / flush as translated from py7zr/compressor.py on this run
   (gen/CompChain.v; the elements of self.chain are the same abstract cstep / cflush, fd.read may return short reads
   according to the schedule, what fp.write receives is the last component of the result, zlib.crc32 is Crc32.crc32_update)
   ARE Comp.v's compress / flush on the object's state.  Every CRC goes through helpers.calculate_crc32 on the method's fuel:
   when that fuel does not cover a block the generated method answers Err EFuel, which the model does not do for that reason;
   hence "Err EFuel or the model's answer".  CompSession.gen_session is a write session made of the generated methods
   (compress for every member, then flush); the theorems about write sessions above hold for it. ---- *)
Theorem C01_gen_compress_is_model :
  forall (cst : Type) (cstep : cst -> bytes -> cst * bytes) (self : CompChain.SevenZipCompressor cst) (fd : bytes) (fuel : nat)
         (crc : Z) (sched : list nat),
    0 <= crc < 2 ^ 32 -> 0 <= CompChain.SevenZipCompressor_digest self < 2 ^ 32 ->
    CompChain.SevenZipCompressor_compress cst cstep CompGen.zcrc self fd fuel crc sched = Err EFuel \/
    CompChain.SevenZipCompressor_compress cst cstep CompGen.zcrc self fd fuel crc sched =
      match compress cstep fuel (CompGen.st_of cst self []) fd sched crc with
      | Ok (st', fd', info) => Ok (((CompGen.of_st cst st', info), fd'), cout st')
      | Err e => Err e
      end.
Proof. exact CompGen.gen_compress_or. Qed.
Print Assumptions C01_gen_compress_is_model.

Theorem C01_gen_flush_is_model :
  forall (cst : Type) (cstep : cst -> bytes -> cst * bytes) (cflush : cst -> cst * bytes) (self : CompChain.SevenZipCompressor cst)
         (fuel : nat),
    0 <= CompChain.SevenZipCompressor_digest self < 2 ^ 32 ->
    CompChain.SevenZipCompressor_flush cst cstep cflush CompGen.zcrc self fuel = Err EFuel \/
    CompChain.SevenZipCompressor_flush cst cstep cflush CompGen.zcrc self fuel =
      match flush cstep cflush (CompGen.st_of cst self []) with
      | Ok (st', n) => Ok ((CompGen.of_st cst st', n), cout st')
      | Err e => Err e
      end.
Proof. exact CompGen.gen_flush_or. Qed.
Print Assumptions C01_gen_flush_is_model.

(* a session of the generated methods that completes is the model's write session: same final object, same bytes written,
   same (insize, foutsize, crc) per member, same flush result *)
Theorem C01_gen_session_is_write_session :
  forall (cst : Type) (cstep : cst -> bytes -> cst * bytes) (cflush : cst -> cst * bytes) (fuel : nat)
         (ms : list (bytes * list nat)) (o o' : CompChain.SevenZipCompressor cst) (w : bytes) (infos : list (Z * Z * Z)) (n : Z),
    0 <= CompChain.SevenZipCompressor_digest o < 2 ^ 32 ->
    CompSession.gen_session cst cstep cflush CompGen.zcrc fuel o ms = Ok (o', w, infos, n) ->
    write_session cstep cflush fuel (CompGen.st_of cst o []) ms = Ok (CompGen.st_of cst o' w, infos, n).
Proof. exact CompGen.gen_session_ok_inv. Qed.
Print Assumptions C01_gen_session_is_write_session.

(* C01_compress_chain and C01_sizes_and_crcs for the code as translated *)
Theorem C01_gen_compress_chain :
  forall (cst : Type) (cstep : cst -> bytes -> cst * bytes) (cflush : cst -> cst * bytes)
         (E : cst -> bytes -> bytes -> Prop) (wf : cst -> Prop),
    (forall (s0 s : cst) (cin cout : bytes),
        wf s0 -> ereach cstep s0 s cin cout -> E s0 cin (cout ++ snd (cflush s))) ->
    forall (s0s : list cst) (bsz : Z) (fuel : nat) (ms : list (bytes * list nat))
           (o' : CompChain.SevenZipCompressor cst) (w : bytes) (infos : list (Z * Z * Z)) (n : Z),
      Forall wf s0s -> bsz <> 0 ->
      CompSession.gen_session cst cstep cflush CompGen.zcrc fuel (CompGen.obj_init cst s0s bsz) ms = Ok (o', w, infos, n) ->
      exists ins, Echain E s0s (concat (map fst ms)) ins w.
Proof. exact CompGen.gen_compress_chain. Qed.
Print Assumptions C01_gen_compress_chain.

Theorem C01_gen_sizes_and_crcs :
  forall (cst : Type) (cstep : cst -> bytes -> cst * bytes) (cflush : cst -> cst * bytes)
         (E : cst -> bytes -> bytes -> Prop) (wf : cst -> Prop),
    (forall (s0 s : cst) (cin cout : bytes),
        wf s0 -> ereach cstep s0 s cin cout -> E s0 cin (cout ++ snd (cflush s))) ->
    forall (s0s : list cst) (bsz : Z) (fuel : nat) (ms : list (bytes * list nat))
           (o' : CompChain.SevenZipCompressor cst) (w : bytes) (infos : list (Z * Z * Z)) (n : Z),
      Forall wf s0s -> bsz <> 0 ->
      CompSession.gen_session cst cstep cflush CompGen.zcrc fuel (CompGen.obj_init cst s0s bsz) ms = Ok (o', w, infos, n) ->
      map info_in infos = map (fun m : bytes * list nat => zlen (fst m)) ms /\
      map info_crc infos = map (fun m : bytes * list nat => crc32 (fst m)) ms /\
      CompChain.SevenZipCompressor_packsize o' = zlen w /\
      CompChain.SevenZipCompressor_digest o' = crc32 w /\
      zsum (map info_out infos) + n = CompChain.SevenZipCompressor_packsize o' /\
      exists ins, Echain E s0s (concat (map fst ms)) ins w /\ CompChain.SevenZipCompressor__unpacksizes o' = map zlen ins.
Proof. exact CompGen.gen_sizes_and_crcs. Qed.
Print Assumptions C01_gen_sizes_and_crcs.

(* ---- helpers.read_fully: the short-read loop every header/stream read goes through (repair of the
   short-read defect, C01 findings 8/17).  For EVERY file contents, position, size, block size >= 1
   and schedule of short reads (each read() not at the end returns >= 1 byte) the call returns the
   next `size` bytes -- fewer only at the end of the file -- and leaves the position just behind
   them; size+1 loop iterations always suffice.  The model is run against the Python on the same
   schedules by tools/harness/prims.py (GenDispatch FN 1088). ---- *)
Theorem C01_read_fully_any_schedule :
  forall (data : bytes) (pos size bs : nat) (caps : list nat),
    (1 <= bs)%nat -> Forall (fun c : nat => (1 <= c)%nat) caps ->
    ReadFully.read_fully (S size) data pos size bs caps = Some (ReadFully.next_bytes data pos size).
Proof. exact ReadFully.read_fully_spec. Qed.
Print Assumptions C01_read_fully_any_schedule.

Theorem C01_read_fully_schedule_independent :
  forall (data : bytes) (pos size bs bs' : nat) (caps caps' : list nat),
    (1 <= bs)%nat -> (1 <= bs')%nat ->
    Forall (fun c : nat => (1 <= c)%nat) caps -> Forall (fun c : nat => (1 <= c)%nat) caps' ->
    ReadFully.read_fully (S size) data pos size bs caps = ReadFully.read_fully (S size) data pos size bs' caps'.
Proof. exact ReadFully.read_fully_schedule_independent. Qed.
Print Assumptions C01_read_fully_schedule_independent.

Theorem C01_read_fully_compose :
  forall (data : bytes) (pos n m : nat),
    fst (ReadFully.next_bytes data pos n) ++ fst (ReadFully.next_bytes data (snd (ReadFully.next_bytes data pos n)) m)
    = fst (ReadFully.next_bytes data pos (n + m)).
Proof. exact ReadFully.read_fully_compose. Qed.
Print Assumptions C01_read_fully_compose.

Example C01_read_fully_hypotheses_met :
  ReadFully.read_fully 8 [1;2;3;4;5;6;7;8;9;10]%Z 2 7 4 [3;1;2]%nat = Some ([3;4;5;6;7;8;9]%Z, 9%nat)
  /\ ReadFully.read_fully 21 [1;2;3]%Z 1 20 4 [1]%nat = Some ([2;3]%Z, 3%nat).
Proof. exact ReadFully.read_fully_example. Qed.

(* a read() that returns b"" before the end (cap 0) stops the loop with a proper prefix: the
   hypothesis `1 <= c` above is necessary, and the Python behaves the same way *)
Example C01_read_fully_zero_cap_witness :
  ReadFully.read_fully 8 [1;2;3;4;5]%Z 0 5 4 [2;0]%nat = Some ([1;2]%Z, 2%nat).
Proof. exact ReadFully.read_fully_zero_cap_refuted. Qed.
