(* C03 -- Extraction never writes outside the destination directory.
   Statements only; the proofs are in theories/FSProofs.v over the models theories/FS.v (pathlib, the kernel's
   path resolution `walk`, and os.path.realpath `pyreal`) and theories/ExtractFS.v (SevenZipFile._extract,
   Worker.extract, Worker._extract_single and the post-pass of py7zr/py7zr.py, with the real-path checks
   helpers.check_real_path_inside before every output is touched).  tools/harness/c03.py ties the models to the
   running code and kernel.

   extract_fs f cwd dest es mode  runs the extraction of the members es (archive order) into the filesystem f
   with current directory cwd and the `path` argument dest; it returns Ret/Exc (completed / raised) and the final
   state: filesystem + list of effects (kind, real path).  final_state takes that state in both cases.
   dest_path cwd dest is the destination as a path (None = the current directory); resolve f cwd true p is the
   kernel's resolution of p, links followed. *)
From P7 Require Import Prelude FS ExtractFS FSProofs.
Open Scope Z_scope.

(* ---- the property at full strength.  f: any tree in which every name lies in a directory (wf); the current
   directory exists; the destination -- absolute, relative, reached through symbolic links, or None -- resolves to a
   directory d.  es: ANY archive (names, kinds, link targets, order, number of members: unrestricted), mode: one or
   several folders.  Whether extraction completes or raises, every effect (mkdir, create, truncate, symlink, unlink,
   utime, chmod -- at the place the kernel resolves) lies at or below d.
   dest_rooted: the text of the destination keeps a root when its ".." are resolved; it holds for every destination
   that does not begin with exactly two slashes (C03_rooted_not_two). *)
Theorem C03_extract_confined_all : forall f cwd dest es mode d,
  wf f -> lookup f cwd = Some Dir -> nodd cwd -> dest_rooted cwd dest ->
  resolve f cwd true (dest_path cwd dest) = RFound d Dir ->
  effs_under d (s_eff (final_state (extract_fs f cwd dest es mode))).
Proof. exact extract_effects_inside. Qed.
Print Assumptions C03_extract_confined_all.

(* ... and the tree stays well formed, d stays a directory (with every directory above it) *)
Theorem C03_extract_confined_all_inv : forall f cwd dest es mode d,
  wf f -> lookup f cwd = Some Dir -> nodd cwd -> dest_rooted cwd dest ->
  resolve f cwd true (dest_path cwd dest) = RFound d Dir ->
  let s := final_state (extract_fs f cwd dest es mode) in
  wf (s_fs s) /\ real_dir (s_fs s) d /\ lookup (s_fs s) cwd = Some Dir /\ effs_under d (s_eff s).
Proof. exact extract_confined_all. Qed.
Print Assumptions C03_extract_confined_all_inv.

Theorem C03_rooted_not_two : forall cwd dest,
  match dest with Some p => proot p = 0 \/ proot p = 1 | None => True end -> dest_rooted cwd dest.
Proof. exact rooted_not_two. Qed.
Print Assumptions C03_rooted_not_two.

(* what the checks rest on: whenever the kernel resolves a path (at most 40 links, final link followed),
   os.path.realpath -- no limit on links, loops detected through `seen` -- names the same place *)
Theorem C03_kernel_agrees : forall f fk j ab cur todo r l q,
  walk fk f true j cur todo = (r, l) -> loc_of r = Some q ->
  exists ab', pyreal (S fk) f [] ab cur todo = POk ab' q.
Proof. exact kernel_agrees. Qed.
Print Assumptions C03_kernel_agrees.

(* regression witnesses: the code before the repair (no real-path checks) escaped through link members that each
   pass the lexical is_path_valid: link "l" -> ".", link "l/m" -> "..", file "l/m/x" (destination given and None),
   and link "A" -> "B/.." made while B is missing, link "B" -> ".", file "A/x" *)
Example C03_chain_unrepaired_escapes :
  extract_fs_unrepaired w_fs [w_jail] (Some (mkP 1 w_d)) w_chain 0 =
    Ret tt (mkSt [([w_jail; [120]], File [68]);
                  ([w_jail; w_dest; [109]], Link (mkP 0 [[46; 46]]));
                  ([w_jail; w_dest; [108]], Link (mkP 0 []));
                  ([w_jail], Dir); ([w_jail; w_dest], Dir); ([w_jail; w_out], Dir)]
                 [(KChmod, [w_jail; [120]]); (KUtime, [w_jail; [120]]); (KCreate, [w_jail; [120]]);
                  (KSymlink, [w_jail; w_dest; [109]]); (KSymlink, [w_jail; w_dest; [108]])]) /\
  effs_underb w_d (s_eff (final_state (extract_fs_unrepaired w_fs [w_jail] (Some (mkP 1 w_d)) w_chain 0))) = false /\
  effs_underb w_d (s_eff (final_state (extract_fs_unrepaired w_fs w_d None w_chain 0))) = false /\
  effs_underb w_d (s_eff (final_state (extract_fs_unrepaired w_fs [w_jail] (Some (mkP 1 w_d)) w_order 0))) = false.
Proof. exact chain_unrepaired_escapes. Qed.

(* the same archives with the checks: the links are made, the member named through them is refused (Bad7zFile) *)
Example C03_chain_repaired_refused :
  extract_fs w_fs [w_jail] (Some (mkP 1 w_d)) w_chain 0 =
    Exc XBad7z (mkSt [([w_jail; w_dest; [109]], Link (mkP 0 [[46; 46]]));
                      ([w_jail; w_dest; [108]], Link (mkP 0 []));
                      ([w_jail], Dir); ([w_jail; w_dest], Dir); ([w_jail; w_out], Dir)]
                     [(KSymlink, [w_jail; w_dest; [109]]); (KSymlink, [w_jail; w_dest; [108]])]) /\
  s_eff (final_state (extract_fs w_fs w_d None w_chain 0)) =
    [(KSymlink, [w_jail; w_dest; [109]]); (KSymlink, [w_jail; w_dest; [108]])] /\
  extract_fs w_fs [w_jail] (Some (mkP 1 w_d)) w_order 0 =
    Exc XBad7z (mkSt [([w_jail; w_dest; [66]], Link (mkP 0 []));
                      ([w_jail; w_dest; [65]], Link (mkP 0 [[66]; [46; 46]]));
                      ([w_jail], Dir); ([w_jail; w_dest], Dir); ([w_jail; w_out], Dir)]
                     [(KSymlink, [w_jail; w_dest; [66]]); (KSymlink, [w_jail; w_dest; [65]])]).
Proof. exact chain_repaired_refused. Qed.

(* the hypotheses of the theorem are met by a populated destination reached through a link and holding old links
   that lead out of it (19 effects of a mixed archive; members named through the old links are refused, the
   unrepaired code followed them) *)
Example C03_all_hyps_satisfiable :
  wf y_fs /\ lookup y_fs [w_jail] = Some Dir /\ nodd [w_jail] /\ dest_rooted [w_jail] (Some y_dest) /\
  resolve y_fs [w_jail] true (dest_path [w_jail] (Some y_dest)) = RFound w_d Dir /\
  (exists s, extract_fs y_fs [w_jail] (Some y_dest) y_es 0 = Ret tt s /\ length (s_eff s) = 19%nat) /\
  extract_fs y_fs [w_jail] (Some y_dest) y_out 0 = Exc XBad7z (mkSt y_fs []) /\
  extract_fs y_fs [w_jail] (Some y_dest) y_outf 0 = Exc XBad7z (mkSt y_fs []) /\
  effs_underb w_d (s_eff (final_state (extract_fs_unrepaired y_fs [w_jail] (Some y_dest) y_out 0))) = false /\
  effs_underb w_d (s_eff (final_state (extract_fs_unrepaired y_fs [w_jail] (Some y_dest) y_outf 0))) = false.
Proof. exact all_hyps_satisfiable. Qed.

Example C03_w_hyps : wf w_fs /\ lookup w_fs [w_jail] = Some Dir /\ nodd [w_jail] /\ nodd w_d /\
  resolve w_fs [w_jail] true (mkP 1 w_d) = RFound w_d Dir /\ resolve w_fs w_d true (mkP 1 w_d) = RFound w_d Dir.
Proof. exact w_hyps. Qed.

(* destination None: the former witnesses (repaired earlier in get_sanitized_output_path) *)
Example C03_none_absolute_name_refused : extract_fs w_fs w_d None w_absname 0 = Exc XBad7z (mkSt w_fs []).
Proof. exact none_absolute_name_refused. Qed.
Example C03_none_climb_confined :
  get_sanitized_output_path ([46; 46; 47; 122; 122; 47; 46; 46; 47] ++ w_dest ++ [47; 120]) w_d None = Some (mkP 0 [[120]]) /\
  s_eff (final_state (extract_fs w_fs w_d None w_climb 0)) =
    [(KChmod, [w_jail; w_dest; [120]]); (KUtime, [w_jail; w_dest; [120]]); (KCreate, [w_jail; w_dest; [120]])].
Proof. exact none_climb_confined. Qed.

(* the sanitiser (lexical checks, kept): with a destination, every accepted name is lexically below it *)
Theorem C03_sanitized_lexically_inside : forall nm cwd0 b o,
  get_sanitized_output_path nm cwd0 (Some b) = Some o ->
  proot o = proot (canonical_path b) /\ prefixb (pparts (canonical_path b)) (pparts o) = true.
Proof. exact sanitized_lexically_inside. Qed.
Print Assumptions C03_sanitized_lexically_inside.

Theorem C03_sanitized_canonical_inside : forall nm cwd0 b o, proot b = 1 -> nodd (pparts b) ->
  get_sanitized_output_path nm cwd0 (Some b) = Some o ->
  proot o = 1 /\ nodd (pparts o) /\ prefixb (pparts b) (pparts o) = true.
Proof. exact sanitized_canonical_inside. Qed.
Print Assumptions C03_sanitized_canonical_inside.

Theorem C03_sanitized_none_inside : forall nm cwd0 o, nodd cwd0 ->
  get_sanitized_output_path nm cwd0 None = Some o -> proot o = 0 /\ nodd (pparts o).
Proof. exact sanitized_none_inside. Qed.
Print Assumptions C03_sanitized_none_inside.

(* every name the sanitiser accepts is free of "..", whatever the form of the destination *)
Theorem C03_sanitized_nodd : forall nm cwd dest o, nodd cwd -> dest_rooted cwd dest ->
  get_sanitized_output_path nm cwd (sanitize_base cwd dest) = Some o -> nodd (pparts o).
Proof. exact sanitize_nodd. Qed.
Print Assumptions C03_sanitized_nodd.
