(* C03 -- Extraction never writes outside the destination directory.
   Statements only; the proofs are in theories/FSProofs.v over the models theories/FS.v (pathlib, the kernel's
   path resolution `walk`, and os.path.realpath `pyreal`) and theories/ExtractFS.v (SevenZipFile._extract,
   Worker.extract, Worker._extract_single and the post-pass of py7zr/py7zr.py, with the real-path checks
   helpers.check_real_path_inside before every output is touched).  tools/harness/c03.py ties the models to the
   running code and kernel.

   extract_fs f cwd dest es mode  runs the extraction of the members es (archive order) into the filesystem f
   with current directory cwd and the `path` argument dest; it returns Ret/Exc (completed / raised) and the final
   state: filesystem + list of effects (kind, real path).  final_state takes that state in both cases.
   dest_path cwd dest is the destination as a path (None = the current directory); resolve f cwd true p is the
   kernel's resolution of p, links followed. *)
From P7 Require Import Prelude FS ExtractFS FSProofs.
From P7 Require Path PathProofs PyPath PathFsGen.
From P7gen Require HelpersPath HelpersPath2.
Open Scope Z_scope.

(* ---- the property at full strength.  f: any tree in which every name lies in a directory (wf); the current
   directory exists; the destination -- absolute, relative, reached through symbolic links, or None -- resolves to a
   directory d.  es: ANY archive (names, kinds, link targets, order, number of members: unrestricted), mode: one or
   several folders.  Whether extraction completes or raises, every effect (mkdir, create, truncate, symlink, unlink,
   utime, chmod -- at the place the kernel resolves) lies at or below d.
   dest_rooted: the text of the destination keeps a root when its ".." are resolved; it holds for every destination
   that does not begin with exactly two slashes (C03_rooted_not_two). *)
Theorem C03_extract_confined_all : forall f cwd dest es mode d,
  wf f -> lookup f cwd = Some Dir -> nodd cwd -> dest_rooted cwd dest ->
  resolve f cwd true (dest_path cwd dest) = RFound d Dir ->
  effs_under d (s_eff (final_state (extract_fs f cwd dest es mode))).
Proof. exact extract_effects_inside. Qed.
Print Assumptions C03_extract_confined_all.

(* ... and the tree stays well formed, d stays a directory (with every directory above it) *)
Theorem C03_extract_confined_all_inv : forall f cwd dest es mode d,
  wf f -> lookup f cwd = Some Dir -> nodd cwd -> dest_rooted cwd dest ->
  resolve f cwd true (dest_path cwd dest) = RFound d Dir ->
  let s := final_state (extract_fs f cwd dest es mode) in
  wf (s_fs s) /\ real_dir (s_fs s) d /\ lookup (s_fs s) cwd = Some Dir /\ effs_under d (s_eff s).
Proof. exact extract_confined_all. Qed.
Print Assumptions C03_extract_confined_all_inv.

Theorem C03_rooted_not_two : forall cwd dest,
  match dest with Some p => proot p = 0 \/ proot p = 1 | None => True end -> dest_rooted cwd dest.
Proof. exact rooted_not_two. Qed.
Print Assumptions C03_rooted_not_two.

(* what the checks rest on: whenever the kernel resolves a path (at most 40 links, final link followed),
   os.path.realpath -- no limit on links, loops detected through `seen` -- names the same place *)
Theorem C03_kernel_agrees : forall f fk j ab cur todo r l q,
  walk fk f true j cur todo = (r, l) -> loc_of r = Some q ->
  exists ab', pyreal (S fk) f [] ab cur todo = POk ab' q.
Proof. exact kernel_agrees. Qed.
Print Assumptions C03_kernel_agrees.

(* regression witnesses: the code before the repair (no real-path checks) escaped through link members that each
   pass the lexical is_path_valid: link "l" -> ".", link "l/m" -> "..", file "l/m/x" (destination given and None),
   and link "A" -> "B/.." made while B is missing, link "B" -> ".", file "A/x" *)
Example C03_chain_unrepaired_escapes :
  extract_fs_unrepaired w_fs [w_jail] (Some (mkP 1 w_d)) w_chain 0 =
    Ret tt (mkSt [([w_jail; [120]], File [68]);
                  ([w_jail; w_dest; [109]], Link (mkP 0 [[46; 46]]));
                  ([w_jail; w_dest; [108]], Link (mkP 0 []));
                  ([w_jail], Dir); ([w_jail; w_dest], Dir); ([w_jail; w_out], Dir)]
                 [(KChmod, [w_jail; [120]]); (KUtime, [w_jail; [120]]); (KCreate, [w_jail; [120]]);
                  (KSymlink, [w_jail; w_dest; [109]]); (KSymlink, [w_jail; w_dest; [108]])]) /\
  effs_underb w_d (s_eff (final_state (extract_fs_unrepaired w_fs [w_jail] (Some (mkP 1 w_d)) w_chain 0))) = false /\
  effs_underb w_d (s_eff (final_state (extract_fs_unrepaired w_fs w_d None w_chain 0))) = false /\
  effs_underb w_d (s_eff (final_state (extract_fs_unrepaired w_fs [w_jail] (Some (mkP 1 w_d)) w_order 0))) = false.
Proof. exact chain_unrepaired_escapes. Qed.

(* the same archives with the checks: the links are made, the member named through them is refused (Bad7zFile) *)
Example C03_chain_repaired_refused :
  extract_fs w_fs [w_jail] (Some (mkP 1 w_d)) w_chain 0 =
    Exc XBad7z (mkSt [([w_jail; w_dest; [109]], Link (mkP 0 [[46; 46]]));
                      ([w_jail; w_dest; [108]], Link (mkP 0 []));
                      ([w_jail], Dir); ([w_jail; w_dest], Dir); ([w_jail; w_out], Dir)]
                     [(KSymlink, [w_jail; w_dest; [109]]); (KSymlink, [w_jail; w_dest; [108]])]) /\
  s_eff (final_state (extract_fs w_fs w_d None w_chain 0)) =
    [(KSymlink, [w_jail; w_dest; [109]]); (KSymlink, [w_jail; w_dest; [108]])] /\
  extract_fs w_fs [w_jail] (Some (mkP 1 w_d)) w_order 0 =
    Exc XBad7z (mkSt [([w_jail; w_dest; [66]], Link (mkP 0 []));
                      ([w_jail; w_dest; [65]], Link (mkP 0 [[66]; [46; 46]]));
                      ([w_jail], Dir); ([w_jail; w_dest], Dir); ([w_jail; w_out], Dir)]
                     [(KSymlink, [w_jail; w_dest; [66]]); (KSymlink, [w_jail; w_dest; [65]])]).
Proof. exact chain_repaired_refused. Qed.

(* the hypotheses of the theorem are met by a populated destination reached through a link and holding old links
   that lead out of it (19 effects of a mixed archive; members named through the old links are refused, the
   unrepaired code followed them) *)
Example C03_all_hyps_satisfiable :
  wf y_fs /\ lookup y_fs [w_jail] = Some Dir /\ nodd [w_jail] /\ dest_rooted [w_jail] (Some y_dest) /\
  resolve y_fs [w_jail] true (dest_path [w_jail] (Some y_dest)) = RFound w_d Dir /\
  (exists s, extract_fs y_fs [w_jail] (Some y_dest) y_es 0 = Ret tt s /\ length (s_eff s) = 19%nat) /\
  extract_fs y_fs [w_jail] (Some y_dest) y_out 0 = Exc XBad7z (mkSt y_fs []) /\
  extract_fs y_fs [w_jail] (Some y_dest) y_outf 0 = Exc XBad7z (mkSt y_fs []) /\
  effs_underb w_d (s_eff (final_state (extract_fs_unrepaired y_fs [w_jail] (Some y_dest) y_out 0))) = false /\
  effs_underb w_d (s_eff (final_state (extract_fs_unrepaired y_fs [w_jail] (Some y_dest) y_outf 0))) = false.
Proof. exact all_hyps_satisfiable. Qed.

Example C03_w_hyps : wf w_fs /\ lookup w_fs [w_jail] = Some Dir /\ nodd [w_jail] /\ nodd w_d /\
  resolve w_fs [w_jail] true (mkP 1 w_d) = RFound w_d Dir /\ resolve w_fs w_d true (mkP 1 w_d) = RFound w_d Dir.
Proof. exact w_hyps. Qed.

(* destination None: the former witnesses (repaired earlier in get_sanitized_output_path) *)
Example C03_none_absolute_name_refused : extract_fs w_fs w_d None w_absname 0 = Exc XBad7z (mkSt w_fs []).
Proof. exact none_absolute_name_refused. Qed.
Example C03_none_climb_confined :
  get_sanitized_output_path ([46; 46; 47; 122; 122; 47; 46; 46; 47] ++ w_dest ++ [47; 120]) w_d None = Some (mkP 0 [[120]]) /\
  s_eff (final_state (extract_fs w_fs w_d None w_climb 0)) =
    [(KChmod, [w_jail; w_dest; [120]]); (KUtime, [w_jail; w_dest; [120]]); (KCreate, [w_jail; w_dest; [120]])].
Proof. exact none_climb_confined. Qed.

(* the sanitiser (lexical checks, kept): with a destination, every accepted name is lexically below it *)
Theorem C03_sanitized_lexically_inside : forall nm cwd0 b o,
  get_sanitized_output_path nm cwd0 (Some b) = Some o ->
  proot o = proot (canonical_path b) /\ prefixb (pparts (canonical_path b)) (pparts o) = true.
Proof. exact sanitized_lexically_inside. Qed.
Print Assumptions C03_sanitized_lexically_inside.

Theorem C03_sanitized_canonical_inside : forall nm cwd0 b o, proot b = 1 -> nodd (pparts b) ->
  get_sanitized_output_path nm cwd0 (Some b) = Some o ->
  proot o = 1 /\ nodd (pparts o) /\ prefixb (pparts b) (pparts o) = true.
Proof. exact sanitized_canonical_inside. Qed.
Print Assumptions C03_sanitized_canonical_inside.

Theorem C03_sanitized_none_inside : forall nm cwd0 o, nodd cwd0 ->
  get_sanitized_output_path nm cwd0 None = Some o -> proot o = 0 /\ nodd (pparts o).
Proof. exact sanitized_none_inside. Qed.
Print Assumptions C03_sanitized_none_inside.

(* every name the sanitiser accepts is free of "..", whatever the form of the destination *)
Theorem C03_sanitized_nodd : forall nm cwd dest o, nodd cwd -> dest_rooted cwd dest ->
  get_sanitized_output_path nm cwd (sanitize_base cwd dest) = Some o -> nodd (pparts o).
Proof. exact sanitize_nodd. Qed.
Print Assumptions C03_sanitized_nodd.

(* ---- third wave (stage 8): the lexical checks as translated from py7zr/helpers.py on this run (gen/HelpersPath.v:
   canonical_path; gen/HelpersPath2.v: is_relative_to, get_sanitized_output_path, is_path_valid) ARE the functions of FS.v the
   theorems above are about.  The generated code works on pathlib paths as CPython 3.12 stores them (Path.ppath: the raw
   segments; joinpath appends a segment; parts / is_absolute / is_relative_to / relative_to parse posixpath.join of the
   segments); PathFsGen.fs_of parses such a path into FS.v's (root kind, parts) and every pathlib operation the helpers use
   commutes with it.  cwd0 is pathlib.Path.cwd(): the only assumption is that it parses to an absolute path "/" + cwd
   (C03_gen_cwd: it does for os.getcwd() = "/" + "/".join(cwd)).  Err EBad7z = Bad7zFile. ---- *)
Theorem C03_gen_fs_of_path : forall s, PathFsGen.fs_of [s] = pparse s.
Proof. exact PathFsGen.fs_of_single. Qed.
Print Assumptions C03_gen_fs_of_path.

Theorem C03_gen_fs_of_joinpath : forall p s q,
  PathFsGen.fs_of (Path.pp_joinpath p s) = pjoin (PathFsGen.fs_of p) s /\
  PathFsGen.fs_of (Path.pp_joinpath_p p q) = pjoinp (PathFsGen.fs_of p) (PathFsGen.fs_of q) /\
  Path.pp_is_absolute p = p_is_abs (PathFsGen.fs_of p).
Proof. intros p s q. repeat split; [apply PathFsGen.fs_of_joinpath | apply PathFsGen.fs_of_joinpath_p | apply PathFsGen.fs_of_is_absolute]. Qed.
Print Assumptions C03_gen_fs_of_joinpath.

Theorem C03_gen_cwd : forall cwd, Forall (fun c => PathProofs.good_comp c = true) cwd ->
  PathFsGen.fs_of [47 :: Path.join_slash cwd] = mkP 1 cwd.
Proof. exact PathFsGen.fs_of_cwd. Qed.
Print Assumptions C03_gen_cwd.

Theorem C03_gen_canonical_path : forall p,
  HelpersPath.canonical_path p = Ok (Path.canonical_path p) /\
  PathFsGen.fs_of (Path.canonical_path p) = canonical_path (PathFsGen.fs_of p).
Proof. exact PathFsGen.gen_canonical_path_fs. Qed.
Print Assumptions C03_gen_canonical_path.

Theorem C03_gen_is_relative_to : forall my other,
  HelpersPath2.is_relative_to my other = Ok (is_relative_to (PathFsGen.fs_of my) (PathFsGen.fs_of other)).
Proof. exact PathFsGen.gen_is_relative_to. Qed.
Print Assumptions C03_gen_is_relative_to.

Theorem C03_gen_is_path_valid : forall target parent cwd0 cwd, PathFsGen.fs_of cwd0 = mkP 1 cwd ->
  HelpersPath2.is_path_valid target parent cwd0 =
  Ok (is_path_valid (PathFsGen.fs_of target) cwd (option_map PathFsGen.fs_of parent)).
Proof. exact PathFsGen.gen_is_path_valid. Qed.
Print Assumptions C03_gen_is_path_valid.

(* the sanitiser: it returns a path exactly when the model does, the same one; every other outcome is Bad7zFile *)
Theorem C03_gen_get_sanitized_output_path : forall fname path cwd0 cwd, PathFsGen.fs_of cwd0 = mkP 1 cwd ->
  match HelpersPath2.get_sanitized_output_path fname path cwd0 with
  | Ok p => get_sanitized_output_path fname cwd (option_map PathFsGen.fs_of path) = Some (PathFsGen.fs_of p)
  | Err e => e = EBad7z /\ get_sanitized_output_path fname cwd (option_map PathFsGen.fs_of path) = None
  end.
Proof. exact PathFsGen.gen_get_sanitized_output_path. Qed.
Print Assumptions C03_gen_get_sanitized_output_path.

(* the theorems about the sanitiser above, for the code as translated *)
Theorem C03_gen_sanitized_lexically_inside : forall nm cwd0 cwd b o, PathFsGen.fs_of cwd0 = mkP 1 cwd ->
  HelpersPath2.get_sanitized_output_path nm (Some b) cwd0 = Ok o ->
  proot (PathFsGen.fs_of o) = proot (canonical_path (PathFsGen.fs_of b)) /\
  prefixb (pparts (canonical_path (PathFsGen.fs_of b))) (pparts (PathFsGen.fs_of o)) = true.
Proof. exact PathFsGen.gen_sanitized_lexically_inside. Qed.
Print Assumptions C03_gen_sanitized_lexically_inside.

Theorem C03_gen_sanitized_canonical_inside : forall nm cwd0 cwd b o, PathFsGen.fs_of cwd0 = mkP 1 cwd ->
  proot (PathFsGen.fs_of b) = 1 -> nodd (pparts (PathFsGen.fs_of b)) ->
  HelpersPath2.get_sanitized_output_path nm (Some b) cwd0 = Ok o ->
  proot (PathFsGen.fs_of o) = 1 /\ nodd (pparts (PathFsGen.fs_of o)) /\
  prefixb (pparts (PathFsGen.fs_of b)) (pparts (PathFsGen.fs_of o)) = true.
Proof. exact PathFsGen.gen_sanitized_canonical_inside. Qed.
Print Assumptions C03_gen_sanitized_canonical_inside.

Theorem C03_gen_sanitized_none_inside : forall nm cwd0 cwd o, PathFsGen.fs_of cwd0 = mkP 1 cwd -> nodd cwd ->
  HelpersPath2.get_sanitized_output_path nm None cwd0 = Ok o ->
  proot (PathFsGen.fs_of o) = 0 /\ nodd (pparts (PathFsGen.fs_of o)).
Proof. exact PathFsGen.gen_sanitized_none_inside. Qed.
Print Assumptions C03_gen_sanitized_none_inside.

(* ---- third wave (stage 8b): helpers.is_real_path_inside as translated on this run.  The generated function takes what
   os.path.realpath(target) answered (real0 : str) in place of target; os.path.normcase is the identity on posix.  For real paths
   given as lists of names (not empty, no "/"), rendered "/" + "/".join(names) ("/" for the root) the way os.path.realpath
   returns them, its verdict is the component-wise prefix test of FS.real_inside: the check the theorems above rely on. ---- *)
Theorem C03_gen_is_real_path_inside : forall r root : list str,
  Forall PathFsGen.name_ok r -> Forall PathFsGen.name_ok root ->
  HelpersPath2.is_real_path_inside (PathFsGen.render r) (PathFsGen.render root) = Ok (prefixb root r).
Proof. exact PathFsGen.gen_is_real_path_inside. Qed.
Print Assumptions C03_gen_is_real_path_inside.

Theorem C03_gen_is_real_path_inside_fs : forall f cwd p (r root : list str), py_realpath f cwd p = Some r ->
  Forall PathFsGen.name_ok r -> Forall PathFsGen.name_ok root ->
  HelpersPath2.is_real_path_inside (PathFsGen.render r) (PathFsGen.render root) = Ok (real_inside f cwd root p).
Proof. exact PathFsGen.gen_is_real_path_inside_fs. Qed.
Print Assumptions C03_gen_is_real_path_inside_fs.
