(* C03 -- Extraction never writes outside the destination directory.
   Statements only; the proofs are in theories/FSProofs.v over the models theories/FS.v (pathlib and the
   kernel's path resolution) and theories/ExtractFS.v (SevenZipFile._extract, Worker.extract,
   Worker._extract_single and the post-pass of py7zr/py7zr.py).  tools/harness/c03.py ties both models to the
   running code and kernel.

   extract_fs f cwd dest es mode  runs the extraction of the members es (archive order) into the filesystem f
   with current directory cwd and the `path` argument dest; it returns Ret/Exc (completed / raised) and the final
   state: filesystem + list of effects (kind, real path).  final_state takes that state in both cases. *)
From P7 Require Import Prelude FS ExtractFS FSProofs.
Open Scope Z_scope.

(* ---- the property at full strength is FALSE of the faithful model (and of the code: the harness replays
        the witnesses on the implementation).  Full statement: *)
Theorem C03_extract_confined_refuted :
  ~ (forall f cwd dest es mode d,
       dest_ok cwd dest d -> nodd d -> real_dir f d -> no_links_under f d ->
       effs_under d (s_eff (final_state (extract_fs f cwd dest es mode)))).
Proof. exact extract_confined_refuted. Qed.
Print Assumptions C03_extract_confined_refuted.

(* witness 1, destination given: link "l" -> ".", link "l/m" -> "..", file "l/m/x": each link passes the lexical
   is_path_valid, the kernel follows them, x is created, re-timed and re-moded in the parent of the destination *)
Theorem C03_extract_confined_chain_refuted :
  dest_ok [w_jail] (Some (mkP 1 w_d)) w_d /\ nodd w_d /\ real_dir w_fs w_d /\ no_links_under w_fs w_d /\
  extract_fs w_fs [w_jail] (Some (mkP 1 w_d)) w_chain 0 =
    Ret tt (mkSt [([w_jail; [120]], File [68]);
                  ([w_jail; w_dest; [109]], Link (mkP 0 [[46; 46]]));
                  ([w_jail; w_dest; [108]], Link (mkP 0 []));
                  ([w_jail], Dir); ([w_jail; w_dest], Dir); ([w_jail; w_out], Dir)]
                 [(KChmod, [w_jail; [120]]); (KUtime, [w_jail; [120]]); (KCreate, [w_jail; [120]]);
                  (KSymlink, [w_jail; w_dest; [109]]); (KSymlink, [w_jail; w_dest; [108]])]) /\
  ~ effs_under w_d (s_eff (final_state (extract_fs w_fs [w_jail] (Some (mkP 1 w_d)) w_chain 0))).
Proof. exact extract_confined_chain_refuted. Qed.
Print Assumptions C03_extract_confined_chain_refuted.

(* the same chain without a destination (link members are extracted there since is_path_valid accepts None) *)
Theorem C03_extract_confined_chain_none_refuted :
  dest_ok w_d None w_d /\ nodd w_d /\ real_dir w_fs w_d /\ no_links_under w_fs w_d /\
  In (KCreate, [w_jail; [120]]) (s_eff (final_state (extract_fs w_fs w_d None w_chain 0))) /\
  ~ effs_under w_d (s_eff (final_state (extract_fs w_fs w_d None w_chain 0))).
Proof. exact extract_confined_chain_none_refuted. Qed.
Print Assumptions C03_extract_confined_chain_none_refuted.

(* ---- what does hold.  Main theorem: the destination d is an existing real directory (every prefix of d is a
   directory: no link on the way) given as a canonical absolute path, as a path relative to cwd, or as None (the
   current directory); every symbolic link already below d and every symbolic-link member has a relative target
   without "..".  No condition on member names: the sanitiser takes care of them, for destination None as well.  Then, whether extraction completes or raises, every effect lies below d,
   and the same conditions hold of the final filesystem. *)
Theorem C03_extract_confined_general : forall f cwd dest es mode d,
  dest_ok cwd dest d -> nodd d -> real_dir f d -> links_safe f d ->
  Forall entry_ok es ->
  let s := final_state (extract_fs f cwd dest es mode) in
  effs_under d (s_eff s) /\ real_dir (s_fs s) d /\ links_safe (s_fs s) d.
Proof.
  intros f cwd dest es mode d H1 H2 H3 H4 H5 s.
  destruct (extract_confined_general f cwd dest es mode d H1 H2 H3 H4 H5) as [A [B C]]. auto.
Qed.
Print Assumptions C03_extract_confined_general.

(* the partial statement of the property: no symbolic-link member, no link below the destination *)
Theorem C03_extract_confined_partial : forall f cwd p0 es mode d,
  dest_ok cwd (Some p0) d -> nodd d -> real_dir f d -> no_links_under f d ->
  Forall (fun e => e_kind e <> 2) es ->
  effs_under d (s_eff (final_state (extract_fs f cwd (Some p0) es mode))).
Proof. exact extract_confined_nolinks. Qed.
Print Assumptions C03_extract_confined_partial.

(* destination None = the current directory (formerly refuted by the names ".//abs/x" and "../zz/../dest/x";
   repaired in get_sanitized_output_path, which now returns the path it checked); symbolic-link members are
   extracted there too (is_path_valid accepts None) and are covered under the same entry_ok condition *)
Theorem C03_extract_confined_none : forall f cwd es mode,
  nodd cwd -> real_dir f cwd -> links_safe f cwd -> Forall entry_ok es ->
  effs_under cwd (s_eff (final_state (extract_fs f cwd None es mode))).
Proof. exact extract_confined_none. Qed.
Print Assumptions C03_extract_confined_none.

Theorem C03_sanitized_none_inside : forall nm cwd0 o, nodd cwd0 ->
  get_sanitized_output_path nm cwd0 None = Some o -> proot o = 0 /\ nodd (pparts o).
Proof. exact sanitized_none_inside. Qed.
Print Assumptions C03_sanitized_none_inside.

(* the former witnesses *)
Example C03_none_absolute_name_refused : extract_fs w_fs w_d None w_absname 0 = Exc XBad7z (mkSt w_fs []).
Proof. exact none_absolute_name_refused. Qed.
Example C03_none_climb_confined :
  get_sanitized_output_path ([46; 46; 47; 122; 122; 47; 46; 46; 47] ++ w_dest ++ [47; 120]) w_d None = Some (mkP 0 [[120]]) /\
  s_eff (final_state (extract_fs w_fs w_d None w_climb 0)) =
    [(KChmod, [w_jail; w_dest; [120]]); (KUtime, [w_jail; w_dest; [120]]); (KCreate, [w_jail; w_dest; [120]])].
Proof. exact none_climb_confined. Qed.

(* the sanitiser: with a destination, every accepted name is lexically below it *)
Theorem C03_sanitized_lexically_inside : forall nm cwd0 b o,
  get_sanitized_output_path nm cwd0 (Some b) = Some o ->
  proot o = proot (canonical_path b) /\ prefixb (pparts (canonical_path b)) (pparts o) = true.
Proof. exact sanitized_lexically_inside. Qed.
Print Assumptions C03_sanitized_lexically_inside.

Theorem C03_sanitized_canonical_inside : forall nm cwd0 b o, proot b = 1 -> nodd (pparts b) ->
  get_sanitized_output_path nm cwd0 (Some b) = Some o ->
  proot o = 1 /\ nodd (pparts o) /\ prefixb (pparts b) (pparts o) = true.
Proof. exact sanitized_canonical_inside. Qed.
Print Assumptions C03_sanitized_canonical_inside.

(* the kernel walk itself: from a directory below d, over components without "..", through links with safe
   targets only, the result is below d *)
Theorem C03_walk_inside : forall f d, real_dir f d -> links_safe f d ->
  forall fuel follow links cur todo, nodd todo -> under d cur -> lookup f cur = Some Dir ->
  match walk fuel f follow links cur todo with
  | RFound q n => under d q /\ lookup f q = Some n
  | RMissing q => under d q /\ lookup f q = None
  | RErr _ => True
  end.
Proof. intros f d Hr Hl. exact (walk_inside f d Hl). Qed.
Print Assumptions C03_walk_inside.

(* hypotheses of the theorems are met by concrete non-trivial states *)
Example C03_general_hyps_satisfiable :
  dest_ok [w_jail] (Some (mkP 0 [w_dest])) w_d /\ nodd w_d /\ real_dir x_fs w_d /\ links_safe x_fs w_d /\
  Forall entry_ok (firstn 5 x_es) /\
  length (s_eff (final_state (extract_fs x_fs [w_jail] (Some (mkP 0 [w_dest])) (firstn 5 x_es) 0))) = 13%nat /\
  extract_fs x_fs [w_jail] (Some (mkP 0 [w_dest])) x_es 0 = Exc XBad7z (mkSt x_fs []).
Proof. exact general_hyps_satisfiable. Qed.

Example C03_none_hyps_satisfiable :
  dest_ok w_d None w_d /\ nodd w_d /\ real_dir w_fs w_d /\ links_safe w_fs w_d /\
  Forall entry_ok [w_file [97; 47; 102]; w_link [107] [97]; w_file [107; 47; 103]; w_file [97; 47; 102]] /\
  length (s_eff (final_state (extract_fs w_fs w_d None [w_file [97; 47; 102]; w_link [107] [97]; w_file [107; 47; 103]; w_file [97; 47; 102]] 0))) = 11%nat.
Proof. exact none_hyps_satisfiable. Qed.
