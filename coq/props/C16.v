(* C16 -- Member names are kept relative on write.
   This file holds only statements, `exact`, and Print Assumptions.  The model is coq/theories/Path.v
   (pathlib.PurePosixPath of CPython 3.12, helpers.canonical_path / is_relative_to / is_path_valid /
   check_archive_path (repaired), SevenZipFile._sanitize_archive_arcname, the stored file name); it is tied to the code
   by the exhaustive correspondence of tools/harness/c16.py.  Strings are lists of code points. *)
From P7 Require Import Prelude Path PathProofs.
Open Scope Z_scope.

(* ---- (1) the gate of writestr / writef against the independent definition ---- *)

(* full strength, every string: check_archive_path (as repaired by the commit "fix: check_archive_path
   accepted names that climb above the archive root": lexical depth walk over Path(arcname).parts) is
   exactly "not absolute and never above the root when '..' is resolved against a virtual root" *)
Theorem C16_check_archive_path_spec : forall name, check_archive_path name = spec_ok name.
Proof. exact check_archive_path_spec. Qed.
Print Assumptions C16_check_archive_path_spec.

Theorem C16_absolute_rejected : forall name, is_absolute name = true -> check_archive_path name = false.
Proof. exact absolute_rejected. Qed.
Print Assumptions C16_absolute_rejected.

(* the names accepted before the fix, through the former dummy directory: "../dafj08sajfa/x",
   "a/../../dafj08sajfa" *)
Theorem C16_former_witnesses_rejected :
  check_archive_path witness1 = false /\ check_archive_path witness2 = false.
Proof. exact ex_former_witnesses_rejected. Qed.
Print Assumptions C16_former_witnesses_rejected.

(* ---- (2) _sanitize_archive_arcname (write / writeall with arcname None) ---- *)
Theorem C16_sanitize_relative : forall arc r, sanitize_archive_arcname arc = Ok r ->
  is_absolute r = false /\ drive_prefix r = false.
Proof. exact sanitize_relative. Qed.
Print Assumptions C16_sanitize_relative.

Theorem C16_sanitize_rejects_iff : forall arc, sanitize_archive_arcname arc = Err EOther <->
  drive_prefix (strip_leading arc) = true /\ drive_prefix (strip_leading (skipn 2 (strip_leading arc))) = true.
Proof. exact sanitize_rejects_iff. Qed.
Print Assumptions C16_sanitize_rejects_iff.

Theorem C16_sanitize_idempotent : forall arc r,
  sanitize_archive_arcname arc = Ok r -> sanitize_archive_arcname r = Ok r.
Proof. exact sanitize_idempotent. Qed.
Print Assumptions C16_sanitize_idempotent.

(* ---- (3) the name that is stored ---- *)
Theorem C16_make_name_relative : forall name, is_absolute name = false -> is_absolute (make_name name) = false.
Proof. exact make_name_relative. Qed.
Print Assumptions C16_make_name_relative.

(* pathlib.Path(arcname).as_posix() parses back to the same root and components *)
Theorem C16_make_name_same_path : forall name, parse_str (make_name name) = parse_str name.
Proof. exact make_name_same_path. Qed.
Print Assumptions C16_make_name_same_path.

Theorem C16_stored_name_same_verdict : forall name, spec_ok (make_name name) = spec_ok name.
Proof. exact stored_name_same_verdict. Qed.
Print Assumptions C16_stored_name_same_verdict.

Theorem C16_stored_name_same_check : forall name, check_archive_path (make_name name) = check_archive_path name.
Proof. exact stored_name_same_check. Qed.
Print Assumptions C16_stored_name_same_check.

(* writestr / writef: an accepted name is stored as a relative name that stays inside *)
Theorem C16_accepted_stored_inside : forall name, check_archive_path name = true ->
  is_absolute (make_name name) = false /\ spec_ok (make_name name) = true.
Proof. exact accepted_stored_inside. Qed.
Print Assumptions C16_accepted_stored_inside.

(* write / writeall with arcname None: whatever is stored is not absolute (file given as str / as Path) *)
Theorem C16_write_stored_relative : forall file n, write_name_str file = Ok n -> is_absolute n = false.
Proof. exact write_stored_relative. Qed.
Print Assumptions C16_write_stored_relative.

Theorem C16_write_path_stored_relative : forall file n, write_name_path file = Ok n -> is_absolute n = false.
Proof. exact write_path_stored_relative. Qed.
Print Assumptions C16_write_path_stored_relative.

Theorem C16_write_strips_leading : forall file, drive_prefix (lstrip_slash file) = false ->
  write_name_str file = Ok (make_name (lstrip_slash file)).
Proof. exact write_strips_leading. Qed.
Print Assumptions C16_write_strips_leading.

(* recorded: the drive test is made on the string before pathlib drops a leading "./", so
   write("./c:/x") stores "c:/x" *)
Theorem C16_write_drive_reappears :
  write_name_str [46; 47; 99; 58; 47; 120] = Ok [99; 58; 47; 120] /\ drive_prefix [99; 58; 47; 120] = true.
Proof. exact write_drive_reappears. Qed.
Print Assumptions C16_write_drive_reappears.

(* ---- the name as py7zr lists it (reader: backslash -> '/') ---- *)
(* FALSE of the code as it is: an accepted name that stays inside (POSIX reading) is listed as a climbing /
   absolute name.  bs_witness_abs = "\x" (listed "/x"), bs_witness_up = "..\x" (listed "../x") *)
Theorem C16_listed_name_inside_refuted : exists name,
  check_archive_path name = true /\ spec_ok name = true /\ spec_ok (listed_name name) = false.
Proof. exact listed_name_inside_refuted. Qed.
Print Assumptions C16_listed_name_inside_refuted.

Theorem C16_listed_name_witnesses :
  check_archive_path bs_witness_abs = true /\ spec_ok bs_witness_abs = true /\
  is_absolute (listed_name bs_witness_abs) = true /\
  sanitize_archive_arcname bs_witness_abs = Ok bs_witness_abs /\
  check_archive_path bs_witness_up = true /\ spec_ok bs_witness_up = true /\
  spec_ok (listed_name bs_witness_up) = false.
Proof. exact listed_name_witnesses. Qed.
Print Assumptions C16_listed_name_witnesses.

Theorem C16_listed_name_partial : forall name, ~ In 92 name -> listed_name name = make_name name.
Proof. exact listed_name_partial. Qed.
Print Assumptions C16_listed_name_partial.

(* ---- non-vacuity: hypotheses of the implications above are met by concrete non-trivial names ---- *)
Example C16_ex_climbing_rejected :                                    (* "a/../../b" *)
  check_archive_path [97; 47; 46; 46; 47; 46; 46; 47; 98] = false /\ spec_ok [97; 47; 46; 46; 47; 46; 46; 47; 98] = false.
Proof. exact ex_climbing_rejected. Qed.

Example C16_ex_inside : spec_ok [97; 47; 46; 46; 47; 98; 47; 47; 46; 47; 99] = true
  /\ check_archive_path [97; 47; 46; 46; 47; 98] = true.                  (* "a/../b//./c", "a/../b" *)
Proof. split; [exact ex_inside | exact ex_accepted]. Qed.

Example C16_ex_absolute : is_absolute [47; 47; 97] = true.              (* "//a" *)
Proof. exact ex_absolute. Qed.

Example C16_ex_sanitize :                                               (* "//c://tmp/x" -> "tmp/x"; "c:/d:/x" rejected *)
  sanitize_archive_arcname [47; 47; 99; 58; 47; 47; 116; 109; 112; 47; 120] = Ok [116; 109; 112; 47; 120] /\
  sanitize_archive_arcname [99; 58; 47; 100; 58; 47; 120] = Err EOther.
Proof. split; [exact ex_sanitize | exact ex_sanitize_rejects]. Qed.

Example C16_ex_make_name : make_name [97; 47; 47; 46; 47; 98; 47] = [97; 47; 98] /\ make_name [] = [46].
Proof. exact ex_make_name. Qed.                                         (* "a//./b/" -> "a/b"; "" -> "." *)
