(* C19 -- The command line mirrors the library and its exit status tells the truth.
   Statements only (`exact`), Print Assumptions under each.  The model is coq/theories/Cli.v (a
   line-by-line transcription of the decision logic of py7zr/cli.py, tied to the code by
   tools/harness/c19.py); strings are lists of code points. *)
From P7 Require Import Prelude Cli CliProofs.
Open Scope Z_scope.

(* ---------------------------------------------------------------- volume sizes (c -v SIZE) *)

(* "multi-volume creation accepts every volume size its help describes": every string of the documented
   grammar {Size}[b|k|m|g] (unit optional = bytes) with at most 4300 digits passes the validity check and is
   converted to the number of bytes it denotes *)
Theorem C19_volsize_accepts_help_grammar : forall s,
  in_help_grammar s = true -> num_digits s <= 4300 ->
  check_volumesize_valid s = true /\ volumesize_unitconv s = Ok (help_size s).
Proof. exact volsize_accepts_help_grammar. Qed.
Print Assumptions C19_volsize_accepts_help_grammar.

(* the bound is CPython's int() digit limit and is sharp: beyond it ValueError escapes, so the statement
   without the bound is false (sizes of 10^4300 bytes) *)
Theorem C19_volsize_digit_limit : forall s,
  in_help_grammar s = true -> 4300 < num_digits s -> volumesize_unitconv_x s = UcValueError.
Proof. exact volsize_digit_limit. Qed.
Print Assumptions C19_volsize_digit_limit.

Theorem C19_volsize_too_many_digits_refuted :
  exists s, in_help_grammar s = true /\ volumesize_unitconv_x s = UcValueError.
Proof. exact volsize_too_many_digits_refuted. Qed.
Print Assumptions C19_volsize_too_many_digits_refuted.

(* unit multipliers: b = 1, k = 1024, m = 1024^2, g = 1024^3, either case *)
Theorem C19_unit_multipliers : forall num c,
  num <> [] -> forallb is_digit num = true -> Z.of_nat (length num) <= 4300 -> is_unit_ascii c = true ->
  volumesize_unitconv (num ++ [c]) = Ok (int_of_digits num * unit_multiplier c).
Proof. exact unit_multipliers. Qed.
Print Assumptions C19_unit_multipliers.

Theorem C19_unit_multiplier_table :
  unit_multiplier 98 = 1 /\ unit_multiplier 66 = 1 /\ unit_multiplier 107 = 1024 /\ unit_multiplier 75 = 1024 /\
  unit_multiplier 109 = 1048576 /\ unit_multiplier 77 = 1048576 /\
  unit_multiplier 103 = 1073741824 /\ unit_multiplier 71 = 1073741824.
Proof. exact unit_multiplier_table. Qed.
Print Assumptions C19_unit_multiplier_table.

(* int_of_digits is the decimal value *)
Theorem C19_int_of_digits_decimal : forall d c, int_of_digits (d ++ [c]) = 10 * int_of_digits d + (c - 48).
Proof. exact int_of_digits_snoc. Qed.
Print Assumptions C19_int_of_digits_decimal.

(* the language of _check_volumesize_valid: digits, an optional unit letter (case-insensitively, which
   for a str pattern includes U+212A KELVIN SIGN), an optional final newline *)
Theorem C19_check_volumesize_valid_spec : forall s,
  check_volumesize_valid s = true <->
  exists num u nl, s = num ++ u ++ nl /\ num <> [] /\ forallb is_digit num = true /\
                   (u = [] \/ exists c, u = [c] /\ is_unit_ci c = true) /\ (nl = [] \/ nl = [10]).
Proof. exact check_volumesize_valid_spec. Qed.
Print Assumptions C19_check_volumesize_valid_spec.

Theorem C19_check_valid_covers_help : forall s, in_help_grammar s = true -> check_volumesize_valid s = true.
Proof. exact check_valid_covers_help. Qed.
Print Assumptions C19_check_valid_covers_help.

(* check_volumesize_valid s = in_help_grammar s is FALSE: "1K" and "1k\n" are accepted (and work),
   "1<U+212A>" is accepted and then dies with KeyError (kept as an observation: not a documented size) *)
Theorem C19_check_valid_eq_help_refuted :
  exists s1 s2 s3, (check_volumesize_valid s1 = true /\ in_help_grammar s1 = false /\ volumesize_unitconv s1 = Ok 1024) /\
                   (check_volumesize_valid s2 = true /\ in_help_grammar s2 = false /\ volumesize_unitconv s2 = Ok 1024) /\
                   (check_volumesize_valid s3 = true /\ in_help_grammar s3 = false /\ volumesize_unitconv s3 = Err EOther).
Proof. exact check_valid_eq_help_refuted. Qed.
Print Assumptions C19_check_valid_eq_help_refuted.

Theorem C19_valid_implies_convertible_refuted :
  exists s, check_volumesize_valid s = true /\ volumesize_unitconv s = Err EOther.
Proof. exact valid_implies_convertible_refuted. Qed.
Print Assumptions C19_valid_implies_convertible_refuted.

Theorem C19_invalid_gives_minus_one : forall s, check_volumesize_valid s = false -> volumesize_unitconv s = Ok (-1).
Proof. exact invalid_gives_minus_one. Qed.
Print Assumptions C19_invalid_gives_minus_one.

(* ---------------------------------------------------------------- exit status *)

(* no except clause of run_test / run_extract turns a failure into status 0 *)
Theorem C19_no_handler_returns_zero : forall e,
  proc_status (test_handler e) <> 0 /\ proc_status (extract_open_handler e) <> 0 /\
  proc_status (extract_work_handler e) <> 0.
Proof. exact no_handler_returns_zero. Qed.
Print Assumptions C19_no_handler_returns_zero.

(* x: status 0 exactly when the operation succeeded, whatever the options *)
Theorem C19_exit_status_truthful_x : forall p v L,
  cli_status (CmdX p v) L = Some 0 <-> extract_success p v L = true.
Proof. exact exit_status_truthful_x. Qed.
Print Assumptions C19_exit_status_truthful_x.

Theorem C19_extract_damaged_nonzero : forall p v L,
  l_is7z L = false \/ l_open L <> None \/ l_work L <> None -> proc_status (run_extract p v L) <> 0.
Proof. exact extract_damaged_nonzero. Qed.
Print Assumptions C19_extract_damaged_nonzero.

(* t: status 0 exactly when the operation succeeded *)
Theorem C19_exit_status_truthful_t : forall L, cli_status CmdT L = Some 0 <-> test_success L = true.
Proof. exact exit_status_truthful_t. Qed.
Print Assumptions C19_exit_status_truthful_t.

Theorem C19_test_damaged_nonzero : forall L,
  l_is7z L = false \/ l_open L <> None \/ l_work L <> None -> proc_status (run_test L) <> 0.
Proof. exact test_damaged_nonzero. Qed.
Print Assumptions C19_test_damaged_nonzero.

(* in particular a folder-level CRC mismatch (CrcError whose filename is None, raised by Worker.decompress;
   testzip() then returns "(folder checksum)") makes t, like x, exit non-zero *)
Theorem C19_folder_crc_nonzero : forall L, l_work L = Some (XCrc false) ->
  proc_status (run_test L) <> 0 /\ proc_status (run_extract false false L) <> 0.
Proof. exact folder_crc_nonzero. Qed.
Print Assumptions C19_folder_crc_nonzero.

Theorem C19_testzip_none_iff : forall w, testzip w = TzNone <-> w = None.
Proof. exact testzip_none_iff. Qed.
Print Assumptions C19_testzip_none_iff.

(* l *)
Theorem C19_exit_status_truthful_l : forall L, cli_status CmdL L = Some 0 <-> list_success L = true.
Proof. exact exit_status_truthful_l. Qed.
Print Assumptions C19_exit_status_truthful_l.

(* ---------------------------------------------------------------- c / a *)

(* c -v SIZE for a documented SIZE hands the size denoted to multivolumefile, names the archive *.7z, and
   ends as the library steps end *)
Theorem C19_create_accepts_help_grammar : forall v arc p L,
  in_help_grammar v = true -> num_digits v <= 4300 -> p && l_getpass_warn L = false ->
  run_create (Some v) arc false p L = (write_steps L, create_target arc, Some (help_size v)).
Proof. exact create_accepts_help_grammar. Qed.
Print Assumptions C19_create_accepts_help_grammar.

Theorem C19_create_no_volume : forall arc p L, p && l_getpass_warn L = false ->
  run_create None arc false p L = (write_steps L, create_target arc, None).
Proof. exact create_no_volume. Qed.
Print Assumptions C19_create_no_volume.

(* archive name with or without .7z *)
Theorem C19_create_target_7z : forall arc,
  ends_with_7z (create_target arc) = true /\ (ends_with_7z arc = true -> create_target arc = arc) /\
  (ends_with_7z arc = false -> create_target arc = arc ++ dot7z).
Proof. exact create_target_7z. Qed.
Print Assumptions C19_create_target_7z.

Theorem C19_create_status_zero : forall vol arc ex p L,
  proc_status (fst (fst (run_create vol arc ex p L))) = 0 ->
  ex = false /\ write_ok L = true /\ (p && l_getpass_warn L = false) /\
  match vol with Some v => exists n, volumesize_unitconv_x v = UcOk n /\ check_volumesize_valid v = true | None => True end.
Proof. exact create_status_zero. Qed.
Print Assumptions C19_create_status_zero.

Theorem C19_append_status : forall arc ex L,
  (proc_status (run_append arc ex L) =? 0) = ends_with_7z arc && ex && write_ok L.
Proof. exact append_status_bool. Qed.
Print Assumptions C19_append_status.

(* ---------------------------------------------------------------- non-vacuity *)

(* "2k": hypotheses of the partial theorem are met; 2048 bytes *)
Example C19_volsize_example :
  in_help_grammar [50; 107] = true /\ has_unit_suffix [50; 107] = true /\ volumesize_unitconv [50; 107] = Ok 2048
  /\ help_size [49; 50; 103] = 12884901888 /\ in_help_grammar [49; 48; 48; 48] = true
  /\ has_unit_suffix [49; 48; 48; 48] = false /\ help_size [49; 48; 48; 48] = 1000
  /\ volumesize_unitconv [49; 48; 48; 48] = Ok 1000 /\ num_digits [49; 48; 48; 48] = 4 /\ num_digits [50; 107] = 1.
Proof. vm_compute. auto 12. Qed.

Example C19_status_examples :
  cli_status CmdT L_ok = Some 0 /\ test_success L_ok = true /\
  cli_status (CmdX false true) L_ok = Some 0 /\ extract_success false true L_ok = true /\
  cli_status (CmdX false false) L_unsupported = Some 1 /\ cli_status CmdT L_unsupported = None /\
  proc_status (run_test L_unsupported) = 1 /\ proc_status (run_test L_folder_crc) = 1 /\
  cli_status CmdL L_ok = Some 0.
Proof. vm_compute. repeat split; try reflexivity; discriminate. Qed.

Example C19_create_example :
  run_create (Some [50; 107]) [97] false false L_ok = (RRet (Some 0), [97; 46; 55; 122], Some 2048) /\
  run_create (Some [49; 48; 48; 48]) [97] false false L_ok = (RRet (Some 0), [97; 46; 55; 122], Some 1000) /\
  run_create (Some [50; 80]) [97] false false L_ok = (RExit 1, [97; 46; 55; 122], None) /\
  run_append [97] true L_ok = RExit 1 /\ run_append [97; 46; 55; 122] true L_ok = RRet (Some 0).
Proof. vm_compute. auto. Qed.
