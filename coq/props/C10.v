(* C10 -- listings tell the truth about the archive.  Statements only; proofs in theories/Listing.v. *)
From Coq Require Import Strings.String Strings.Ascii.
From P7 Require Import Prelude PyPrims Number Crc32 Header Spec Assign AssignProofs.
From P7 Require Import Listing.
Open Scope Z_scope.

(* string literals for the statements below (names are lists of code points) *)
Definition s2z (s : String.string) : str :=
  map (fun a => Z.of_N (N_of_ascii a)) (list_ascii_of_string s).

(* a concrete archive written by py7zr (writeall of a directory t with files a = "abc", b = "hello"; COPY; raw header) *)
Definition ex1_bytes : bytes :=
  [1; 4; 6; 0; 1; 9; 8; 0; 7; 11; 1; 0; 1; 1; 0; 12; 8; 0; 8; 13; 2; 9; 3; 10; 1; 194; 65; 36; 53; 134; 166; 16; 54; 0; 0;
   5; 3; 14; 1; 128; 17; 21; 0; 116; 0; 0; 0; 116; 0; 47; 0; 97; 0; 0; 0; 116; 0; 47; 0; 98; 0; 0; 0; 20; 26; 1; 0; 0; 128;
   166; 33; 201; 137; 214; 1; 0; 128; 166; 33; 201; 137; 214; 1; 0; 128; 166; 33; 201; 137; 214; 1; 21; 14; 1; 0; 16; 128;
   237; 65; 32; 128; 164; 1; 32; 128; 164; 1; 0; 0].
Definition ex1 : header := match parse_header 4096 ex1_bytes with Ok h => h | Err _ => empty_header end.
(* and one with a 7zAES coder (writestr "abc" as a; COPY + AES; raw header) *)
Definition ex2_bytes : bytes :=
  [1; 4; 6; 0; 1; 9; 16; 10; 1; 178; 17; 94; 159; 0; 7; 11; 1; 0; 2; 36; 6; 241; 7; 1; 18; 83; 15; 0; 0; 0; 0; 0; 0; 0; 0;
   0; 0; 0; 0; 0; 0; 0; 0; 1; 0; 1; 0; 12; 3; 3; 0; 8; 10; 1; 194; 65; 36; 53; 0; 0; 5; 1; 25; 4; 0; 0; 0; 0; 17; 5; 0; 97;
   0; 0; 0; 20; 10; 1; 0; 48; 139; 101; 207; 25; 81; 221; 1; 21; 6; 1; 0; 32; 0; 0; 0; 0; 0].
Definition ex2 : header := match parse_header 4096 ex2_bytes with Ok h => h | Err _ => empty_header end.

(* ---- names: stored order, identical in getnames / namelist / list / files ---- *)
Theorem names_agree : forall (dflt : str) (h : header) (ps : list iplan),
  impl_plans h = Ok ps ->
  getnames dflt ps = namelist dflt ps /\ list_names dflt ps = namelist dflt ps /\ files_names dflt ps = namelist dflt ps
  /\ (forall files, h_files h = Some files -> namelist dflt ps = map (entry_name dflt) files)
  /\ (h_files h = None -> namelist dflt ps = []).
Proof. exact names_agree_header. Qed.
Print Assumptions names_agree.

Example names_agree_ex :
  exists ps, impl_plans ex1 = Ok ps /\ getnames [] ps = [s2z "t"; s2z "t/a"; s2z "t/b"]
             /\ list_names [] ps = [s2z "t"; s2z "t/a"; s2z "t/b"].
Proof. eexists. split; [vm_compute; reflexivity|]. split; vm_compute; reflexivity. Qed.

(* ---- sizes and CRCs ---- *)
(* every interface shows the plan's size / CRC / directory flag for the member *)
Theorem listing_rows : forall dflt h ps i p,
  impl_plans h = Ok ps -> nth_error ps i = Some p ->
  exists row, nth_error (list_model dflt ps) i = Some row
              /\ fi_filename row = af_filename dflt p /\ fi_uncompressed row = ip_size p /\ fi_crc32 row = ip_crc p
              /\ fi_is_directory row = af_is_directory p.
Proof. exact listing_rows_header. Qed.
Print Assumptions listing_rows.

(* the bytes extraction hands the member (the next ip_size bytes of its folder's decoded stream D) have the listed length *)
Theorem listed_size_truthful : forall (D : bytes) (p : iplan),
  0 <= ip_offset p -> 0 <= ip_size p -> ip_offset p + ip_size p <= zlen D ->
  zlen (member_bytes D p) = af_uncompressed p.
Proof. exact listed_size_truthful_plans. Qed.
Print Assumptions listed_size_truthful.

(* if the member's extracted bytes d passed the reader's CRC test, the listed CRC is the CRC-32 of d *)
Theorem listed_crc_truthful : forall (p : iplan) (d : bytes) (c : Z),
  af_crc32 p = Some c -> crc_check p d = true -> c = crc32 d.
Proof. exact listed_crc_truthful_plans. Qed.
Print Assumptions listed_crc_truthful.

Example listed_truthful_ex :
  exists ps p, impl_plans ex1 = Ok ps /\ nth_error ps 2 = Some p
               /\ member_bytes (s2z "abchello") p = s2z "hello" /\ af_uncompressed p = 5
               /\ af_crc32 p = Some 907060870 /\ crc_check p (s2z "hello") = true /\ crc_check p (s2z "hellp") = false.
Proof. do 2 eexists. split; [vm_compute; reflexivity|]. split; [reflexivity|]. vm_compute. repeat split. Qed.

(* the former counterexample (repaired in SubstreamsInfo._read): a CRC stored at folder level for a folder with a single
   file and no CRC record in SubStreamsInfo is carried to the member, so the listing shows the CRC the format assigns *)
Theorem listed_crc_folder_level :
  match s_header 4096 folder_crc_bytes, parse_header 4096 folder_crc_bytes with
  | Ok sh, Ok h => s_valid sh = true /\ map pl_crc (spec_plans sh) = [Some 891568578]
                   /\ exists ps, impl_plans h = Ok ps /\ map af_crc32 ps = [Some 891568578] /\ map af_uncompressed ps = [3]
  | _, _ => False
  end.
Proof. exact listed_crc_folder_level_header. Qed.
Print Assumptions listed_crc_folder_level.

(* relative to conformance of the assignment (C06: plans_agree between the format's plans and py7zr's): listed size and
   CRC are the ones the FORMAT gives the entry, the name is the stored name, the directory flag is the format's kind *)
Theorem listing_conforms : forall dflt h ps ss i s p,
  impl_plans h = Ok ps -> plans_agree 0 ss ps = true ->
  nth_error ss i = Some s -> nth_error ps i = Some p ->
  (pl_kind s = 0 -> af_uncompressed p = pl_size s /\ af_crc32 p = pl_crc s)
  /\ af_filename dflt p = match pl_name s with Some n => n | None => dflt end
  /\ (af_is_directory p = true <-> pl_kind s = 2).
Proof. exact listing_conforms_plans. Qed.
Print Assumptions listing_conforms.

Example listing_conforms_ex :
  match s_header 4096 ex1_bytes, impl_plans ex1 with
  | Ok sh, Ok ps => s_valid sh = true /\ plans_agree 0 (spec_plans sh) ps = true /\ length ps = 3%nat
  | _, _ => False end.
Proof. vm_compute. repeat split. Qed.

(* with C06's assign_conforms: on every structurally valid header satisfying `nice`, py7zr opens the archive and every
   listing shows, entry by entry, what the format assigns *)
Theorem listing_truthful_on_nice : forall dflt (sh : sheader),
  nice sh = true ->
  exists ps, impl_plans (embed sh) = Ok ps /\
    forall i s p, nth_error (spec_plans sh) i = Some s -> nth_error ps i = Some p ->
      (pl_kind s = 0 -> af_uncompressed p = pl_size s /\ af_crc32 p = pl_crc s)
      /\ af_filename dflt p = match pl_name s with Some n => n | None => dflt end
      /\ (af_is_directory p = true <-> pl_kind s = 2).
Proof.
  intros dflt sh Hn. destruct (assign_conforms sh Hn) as (ps & Hi & Hag). exists ps. split; [exact Hi|].
  intros i s p Hs Hp. exact (listing_conforms_plans dflt (embed sh) ps (spec_plans sh) i s p Hi Hag Hs Hp).
Qed.
Print Assumptions listing_truthful_on_nice.

Example listing_truthful_on_nice_ex :
  match s_header 4096 ex1_bytes with Ok sh => nice sh = true /\ length (spec_plans sh) = 3%nat | Err _ => False end.
Proof. vm_compute. split; reflexivity. Qed.

(* ---- directories ---- *)
Theorem is_directory_iff : forall h ps p,
  impl_plans h = Ok ps -> In p ps ->
  (af_is_directory p = true <-> ip_kind p = 2)
  /\ (af_is_directory p = true <-> extract_action_path p = XDir)
  /\ (af_is_directory p = true -> extract_action_factory p = XSkip).
Proof. exact is_directory_iff_plans. Qed.
Print Assumptions is_directory_iff.

Example is_directory_ex :
  exists ps, impl_plans ex1 = Ok ps /\ map af_is_directory ps = [true; false; false]
             /\ map extract_action_path ps = [XDir; XFile; XFile].
Proof. eexists. split; [vm_compute; reflexivity|]. split; vm_compute; reflexivity. Qed.

(* the flag is the format's, entry by entry: an entry without data is a directory iff its EmptyFile bit is clear --
   whatever its attribute word holds, or if the archive stores none -- and is otherwise listed as an (empty) file;
   an entry with data is decided by FILE_ATTRIBUTE_DIRECTORY *)
Theorem is_directory_per_format : forall h files ps i e p,
  impl_plans h = Ok ps -> h_files h = Some files -> nth_error files i = Some e -> nth_error ps i = Some p ->
  af_is_directory p = (if e_emptystream e then negb (ip_emptyfile p) else attr_is_dir (e_attr e))
  /\ (e_emptystream e = true -> (af_is_directory p = false <-> ip_kind p = 1)).
Proof. exact is_directory_per_entry. Qed.
Print Assumptions is_directory_per_format.

(* directories without the directory attribute (attribute word 0x20, undefined, none) and an empty file carrying it:
   the headers of C06's assign_dir_without_attribute_conforms / assign_emptyfile_with_dir_attribute_conforms *)
Example is_directory_without_attribute_ex :
  nice w_dir_attr_nobit = true /\ nice w_file_dirattr = true /\ nice w_dir_noattr = true /\
  (exists ps, impl_plans (embed w_dir_attr_nobit) = Ok ps /\ map af_is_directory ps = [true; false; true; true]
              /\ map extract_action_path ps = [XDir; XFile; XDir; XDir]
              /\ map pl_kind (spec_plans w_dir_attr_nobit) = [2; 0; 2; 2]) /\
  (exists ps, impl_plans (embed w_file_dirattr) = Ok ps /\ map af_is_directory ps = [false; false]
              /\ map extract_action_path ps = [XFile; XFile]
              /\ map pl_kind (spec_plans w_file_dirattr) = [0; 1]) /\
  (exists ps, impl_plans (embed w_dir_noattr) = Ok ps /\ map af_is_directory ps = [false; true]
              /\ map extract_action_path ps = [XFile; XDir]).
Proof.
  split; [vm_compute; reflexivity|]. split; [vm_compute; reflexivity|]. split; [vm_compute; reflexivity|].
  split; [|split].
  - eexists. split. { vm_compute. reflexivity. } repeat split; vm_compute; reflexivity.
  - eexists. split. { vm_compute. reflexivity. } repeat split; vm_compute; reflexivity.
  - eexists. split. { vm_compute. reflexivity. } repeat split; vm_compute; reflexivity.
Qed.

(* ---- getinfo ---- *)
(* every listed name is found, as it stands (first member of that name) and with a slash appended *)
Theorem getinfo_total : forall dflt h ps n,
  impl_plans h = Ok ps -> In n (getnames dflt ps) ->
  (exists j p, getinfo dflt ps n = Some (j, p) /\ nth_error ps (Z.to_nat j) = Some p /\ af_filename dflt p = n
               /\ (forall q, In q (firstn (Z.to_nat j) ps) -> af_filename dflt q <> n))
  /\ (exists j p, getinfo dflt ps (n ++ [47]) = Some (j, p) /\ nth_error ps (Z.to_nat j) = Some p
                  /\ (af_filename dflt p = n ++ [47]
                      \/ (~ In (n ++ [47]) (getnames dflt ps) /\ af_filename dflt p = n))).
Proof. exact getinfo_total_header. Qed.
Print Assumptions getinfo_total.

(* KeyError exactly when neither the name nor the name with one trailing slash removed is listed *)
Theorem getinfo_keyerror_iff : forall dflt ps n,
  getinfo dflt ps n = None <-> ~ In n (getnames dflt ps) /\ ~ In (remove_trailing_slash n) (getnames dflt ps).
Proof. exact getinfo_keyerror_iff_plans. Qed.
Print Assumptions getinfo_keyerror_iff.

Theorem getinfo_sound : forall dflt ps n j p,
  getinfo dflt ps n = Some (j, p) ->
  nth_error ps (Z.to_nat j) = Some p /\ (af_filename dflt p = n \/ af_filename dflt p = remove_trailing_slash n).
Proof. exact getinfo_sound_plans. Qed.
Print Assumptions getinfo_sound.

Example getinfo_ex :
  exists ps, impl_plans ex1 = Ok ps
             /\ option_map fst (getinfo [] ps (s2z "t/a")) = Some 1 /\ option_map fst (getinfo [] ps (s2z "t/a/")) = Some 1
             /\ option_map fst (getinfo [] ps (s2z "t/")) = Some 0 /\ getinfo [] ps (s2z "t/c") = None
             /\ getinfo [] ps (s2z "t//") = None.
Proof. eexists. split; [vm_compute; reflexivity|]. repeat split. Qed.

(* the former counterexample: a stored name "d/" is found as "d/" and as "d//", and "d" is not a member *)
Example getinfo_slash_name_ex :
  exists ps, impl_plans (mkHeader None (Some [mkFile true (Some (s2z "d/")) None None None (Some (Some 16))]) [false]) = Ok ps
             /\ option_map fst (getinfo [] ps (s2z "d/")) = Some 0 /\ option_map fst (getinfo [] ps (s2z "d//")) = Some 0
             /\ getinfo [] ps (s2z "d") = None.
Proof. exact getinfo_slash_name_header. Qed.

(* ---- archiveinfo ---- *)
(* sub-streams per folder: NumUnpackStream, one each when SubStreamsInfo is absent *)
Theorem nums_of_spelled_out : forall st folders,
  nums_of st folders = match si_sub st with Some sub => s_nums sub | None => repeat 1 (length folders) end.
Proof. intros st folders. reflexivity. Qed.
Theorem archiveinfo_agrees : forall (hn : bool) (h : header) (a : ainfo),
  archiveinfo hn h = Ok a ->
  exists ps,
    impl_plans h = Ok ps /\ ai_uncompressed a = sumZ (map ip_size ps)
    /\ match h_streams h with
       | None => ai_blocks a = 0 /\ ai_solid a = false /\ ai_method_names a = []
       | Some st =>
           exists folders,
             si_folders st = Some folders
             /\ ai_blocks a = zlen folders
             /\ (ai_solid a = true <-> exists n, In n (nums_of st folders) /\ 1 < n)
             /\ ai_method_names a = get_methods_names (map f_coders folders)
       end.
Proof. exact archiveinfo_agrees_header. Qed.
Print Assumptions archiveinfo_agrees.

(* it answers for every archive opened by path: no members, no main streams, no SubStreamsInfo, anything -- provided
   main streams, when present, carry folders *)
Theorem archiveinfo_total : forall (h : header) ps,
  impl_plans h = Ok ps ->
  (forall st, h_streams h = Some st -> si_folders st <> None) ->
  exists a, archiveinfo true h = Ok a.
Proof. exact archiveinfo_total_header. Qed.
Print Assumptions archiveinfo_total.

(* the former counterexamples *)
Theorem archiveinfo_empty :
  parse_header 100 [] = Ok empty_header /\ parse_header 100 [1; 0] = Ok empty_header
  /\ impl_plans empty_header = Ok [] /\ archiveinfo true empty_header = Ok (mkAinfo [] false 0 0).
Proof. exact archiveinfo_empty_header. Qed.
Print Assumptions archiveinfo_empty.

Theorem archiveinfo_nostreams :
  (exists ps, impl_plans nostreams_header = Ok ps /\ map (af_filename []) ps = [s2z "d"; s2z "e"])
  /\ archiveinfo true nostreams_header = Ok (mkAinfo [] false 0 0).
Proof. exact archiveinfo_nostreams_header. Qed.
Print Assumptions archiveinfo_nostreams.

(* an archive without SubStreamsInfo (two folders, a directory between the members; formerly it did not open) *)
Theorem archiveinfo_nosub :
  (exists ps, impl_plans nosub_header = Ok ps /\
     map (fun p => (af_uncompressed p, ip_crc p)) ps = [(3, Some 11); (0, None); (5, None)])
  /\ archiveinfo true nosub_header = Ok (mkAinfo [[67; 79; 80; 89]] false 2 8)
  /\ archiveinfo true (install_sub nosub_header) = archiveinfo true nosub_header.
Proof. exact archiveinfo_nosub_header. Qed.
Print Assumptions archiveinfo_nosub.

Example archiveinfo_ex :
  archiveinfo true ex1 = Ok (mkAinfo [s2z "COPY"] true 1 8)
  /\ archiveinfo true ex2 = Ok (mkAinfo [s2z "COPY"; s2z "7zAES"] false 1 3)
  /\ (forall st, h_streams ex1 = Some st -> si_folders st <> None).
Proof.
  split; [vm_compute; reflexivity|]. split; [vm_compute; reflexivity|].
  intros st H. vm_compute in H. inversion H; subst. discriminate.
Qed.

(* method names: exactly the display-list names carried by some coder; display order; no repetition *)
Theorem method_names_sound_complete : forall (cl : list (list coder)) (n : str),
  In n (get_methods_names cl) <->
  In n methods_namelist /\ exists cs c, In cs cl /\ In c cs /\ In n (coder_names c).
Proof. exact method_names_char. Qed.
Print Assumptions method_names_sound_complete.

Theorem method_names_order : forall (cl : list (list coder)),
  NoDup (get_methods_names cl) /\ exists keep, get_methods_names cl = filter keep methods_namelist.
Proof. exact method_names_display_order. Qed.
Print Assumptions method_names_order.

(* every coder whose method py7zr supports is named *)
Theorem method_names_complete : forall (cl : list (list coder)) cs c m,
  In cs cl -> In c cs -> In m supported_methods -> c_method c = m_id m ->
  In (m_name m) (get_methods_names cl).
Proof. exact method_names_complete_all. Qed.
Print Assumptions method_names_complete.

Example method_names_ex :
  get_methods_names [[delta_coder; mkCoder [33] 1 1 (Some [24])]; [brotli_coder]]
  = [s2z "LZMA2"; s2z "DELTA"; s2z "Brotli"].
Proof. exact method_names_delta_brotli. Qed.

(* ---- needs_password ---- *)
Theorem needs_password_iff : forall (pw : bool) (h : header) (b : bool),
  h_files h <> None -> needs_password pw h = Ok b -> (b = true <-> pw = true \/ has_aes_coder h).
Proof. exact needs_password_iff_header. Qed.
Print Assumptions needs_password_iff.

Theorem needs_password_answers : forall (pw : bool) (h : header) ps,
  impl_plans h = Ok ps -> exists b, needs_password pw h = Ok b.
Proof. exact needs_password_total. Qed.
Print Assumptions needs_password_answers.

Example needs_password_ex :
  h_files ex1 <> None /\ h_files ex2 <> None
  /\ needs_password false ex1 = Ok false /\ needs_password true ex1 = Ok true
  /\ needs_password false ex2 = Ok true /\ has_aes_coder ex2.
Proof.
  split; [vm_compute; discriminate|]. split; [vm_compute; discriminate|].
  repeat (split; [vm_compute; reflexivity|]).
  eexists. eexists. split; [vm_compute; left; reflexivity|]. split; [vm_compute; left; reflexivity | reflexivity].
Qed.
