(* C10 -- listings tell the truth about the archive.  Statements only; proofs in theories/Listing.v. *)
From Coq Require Import Strings.String Strings.Ascii.
From P7 Require Import Prelude PyPrims Number Crc32 Header Spec Assign.
From P7 Require Import Listing.
Open Scope Z_scope.

(* string literals for the statements below (names are lists of code points) *)
Definition s2z (s : String.string) : str :=
  map (fun a => Z.of_N (N_of_ascii a)) (list_ascii_of_string s).

(* a concrete archive written by py7zr (writeall of a directory t with files a = "abc", b = "hello"; COPY; raw header) *)
Definition ex1_bytes : bytes :=
  [1; 4; 6; 0; 1; 9; 8; 0; 7; 11; 1; 0; 1; 1; 0; 12; 8; 0; 8; 13; 2; 9; 3; 10; 1; 194; 65; 36; 53; 134; 166; 16; 54; 0; 0;
   5; 3; 14; 1; 128; 17; 21; 0; 116; 0; 0; 0; 116; 0; 47; 0; 97; 0; 0; 0; 116; 0; 47; 0; 98; 0; 0; 0; 20; 26; 1; 0; 0; 128;
   166; 33; 201; 137; 214; 1; 0; 128; 166; 33; 201; 137; 214; 1; 0; 128; 166; 33; 201; 137; 214; 1; 21; 14; 1; 0; 16; 128;
   237; 65; 32; 128; 164; 1; 32; 128; 164; 1; 0; 0].
Definition ex1 : header := match parse_header 4096 ex1_bytes with Ok h => h | Err _ => empty_header end.
(* and one with a 7zAES coder (writestr "abc" as a; COPY + AES; raw header) *)
Definition ex2_bytes : bytes :=
  [1; 4; 6; 0; 1; 9; 16; 10; 1; 178; 17; 94; 159; 0; 7; 11; 1; 0; 2; 36; 6; 241; 7; 1; 18; 83; 15; 0; 0; 0; 0; 0; 0; 0; 0;
   0; 0; 0; 0; 0; 0; 0; 0; 1; 0; 1; 0; 12; 3; 3; 0; 8; 10; 1; 194; 65; 36; 53; 0; 0; 5; 1; 25; 4; 0; 0; 0; 0; 17; 5; 0; 97;
   0; 0; 0; 20; 10; 1; 0; 48; 139; 101; 207; 25; 81; 221; 1; 21; 6; 1; 0; 32; 0; 0; 0; 0; 0].
Definition ex2 : header := match parse_header 4096 ex2_bytes with Ok h => h | Err _ => empty_header end.

(* ---- names: stored order, identical in getnames / namelist / list / files ---- *)
Theorem names_agree : forall (dflt : str) (h : header) (ps : list iplan),
  impl_plans h = Ok ps ->
  getnames dflt ps = namelist dflt ps /\ list_names dflt ps = namelist dflt ps /\ files_names dflt ps = namelist dflt ps
  /\ (forall files, h_files h = Some files -> namelist dflt ps = map (entry_name dflt) files)
  /\ (h_files h = None -> namelist dflt ps = []).
Proof. exact names_agree_header. Qed.
Print Assumptions names_agree.

Example names_agree_ex :
  exists ps, impl_plans ex1 = Ok ps /\ getnames [] ps = [s2z "t"; s2z "t/a"; s2z "t/b"]
             /\ list_names [] ps = [s2z "t"; s2z "t/a"; s2z "t/b"].
Proof. eexists. split; [vm_compute; reflexivity|]. split; vm_compute; reflexivity. Qed.

(* ---- sizes and CRCs ---- *)
(* every interface shows the plan's size / CRC / directory flag for the member *)
Theorem listing_rows : forall dflt h ps i p,
  impl_plans h = Ok ps -> nth_error ps i = Some p ->
  exists row, nth_error (list_model dflt ps) i = Some row
              /\ fi_filename row = af_filename dflt p /\ fi_uncompressed row = ip_size p /\ fi_crc32 row = ip_crc p
              /\ fi_is_directory row = af_is_directory p.
Proof. exact listing_rows_header. Qed.
Print Assumptions listing_rows.

(* the bytes extraction hands the member (the next ip_size bytes of its folder's decoded stream D) have the listed length *)
Theorem listed_size_truthful : forall (D : bytes) (p : iplan),
  0 <= ip_offset p -> 0 <= ip_size p -> ip_offset p + ip_size p <= zlen D ->
  zlen (member_bytes D p) = af_uncompressed p.
Proof. exact listed_size_truthful_plans. Qed.
Print Assumptions listed_size_truthful.

(* if the member's extracted bytes d passed the reader's CRC test, the listed CRC is the CRC-32 of d *)
Theorem listed_crc_truthful : forall (p : iplan) (d : bytes) (c : Z),
  af_crc32 p = Some c -> crc_check p d = true -> c = crc32 d.
Proof. exact listed_crc_truthful_plans. Qed.
Print Assumptions listed_crc_truthful.

Example listed_truthful_ex :
  exists ps p, impl_plans ex1 = Ok ps /\ nth_error ps 2 = Some p
               /\ member_bytes (s2z "abchello") p = s2z "hello" /\ af_uncompressed p = 5
               /\ af_crc32 p = Some 907060870 /\ crc_check p (s2z "hello") = true /\ crc_check p (s2z "hellp") = false.
Proof. do 2 eexists. split; [vm_compute; reflexivity|]. split; [reflexivity|]. vm_compute. repeat split. Qed.

(* relative to conformance of the assignment (C06: plans_agree between the format's plans and py7zr's): listed size and
   CRC are the ones the FORMAT gives the entry, the name is the stored name, the directory flag is the format's kind *)
Theorem listing_conforms : forall dflt h ps ss i s p,
  impl_plans h = Ok ps -> plans_agree 0 ss ps = true ->
  nth_error ss i = Some s -> nth_error ps i = Some p ->
  (pl_kind s = 0 -> af_uncompressed p = pl_size s /\ af_crc32 p = pl_crc s)
  /\ af_filename dflt p = match pl_name s with Some n => n | None => dflt end
  /\ (af_is_directory p = true <-> pl_kind s = 2).
Proof. exact listing_conforms_plans. Qed.
Print Assumptions listing_conforms.

Example listing_conforms_ex :
  match s_header 4096 ex1_bytes, impl_plans ex1 with
  | Ok sh, Ok ps => s_valid sh = true /\ plans_agree 0 (spec_plans sh) ps = true /\ length ps = 3%nat
  | _, _ => False end.
Proof. vm_compute. repeat split. Qed.

(* ---- directories ---- *)
Theorem is_directory_iff : forall h ps p,
  impl_plans h = Ok ps -> In p ps ->
  (af_is_directory p = true <-> ip_kind p = 2)
  /\ (af_is_directory p = true <-> extract_action_path p = XDir)
  /\ (af_is_directory p = true -> extract_action_factory p = XSkip).
Proof. exact is_directory_iff_plans. Qed.
Print Assumptions is_directory_iff.

Example is_directory_ex :
  exists ps, impl_plans ex1 = Ok ps /\ map af_is_directory ps = [true; false; false]
             /\ map extract_action_path ps = [XDir; XFile; XFile].
Proof. eexists. split; [vm_compute; reflexivity|]. split; vm_compute; reflexivity. Qed.

(* ---- getinfo ---- *)
(* full statement (every listed name is found as it stands) is false: a stored name that itself ends in '/' *)
Theorem getinfo_total_refuted :
  exists dflt h ps n, impl_plans h = Ok ps /\ In n (getnames dflt ps) /\ getinfo dflt ps n = None.
Proof. exact getinfo_total_refuted_header. Qed.
Print Assumptions getinfo_total_refuted.

(* what holds: with a slash appended every listed name is found ... *)
Theorem getinfo_finds_slashed : forall dflt ps n,
  In n (getnames dflt ps) ->
  exists j p, getinfo dflt ps (n ++ [47]) = Some (j, p) /\ nth_error ps (Z.to_nat j) = Some p /\ af_filename dflt p = n.
Proof. exact getinfo_finds_slashed_plans. Qed.
Print Assumptions getinfo_finds_slashed.

(* ... as it stands every listed name not ending in '/' is found, and the member returned is the first of that name ... *)
Theorem getinfo_total_partial : forall dflt ps n,
  In n (getnames dflt ps) -> ~ ends_with_slash n ->
  exists j p, getinfo dflt ps n = Some (j, p) /\ nth_error ps (Z.to_nat j) = Some p /\ af_filename dflt p = n
              /\ (forall q, In q (firstn (Z.to_nat j) ps) -> af_filename dflt q <> n).
Proof. exact getinfo_finds_plain_plans. Qed.
Print Assumptions getinfo_total_partial.

(* ... and KeyError exactly when the name with one trailing slash removed is not listed *)
Theorem getinfo_keyerror_iff : forall dflt ps n,
  getinfo dflt ps n = None <-> ~ In (remove_trailing_slash n) (getnames dflt ps).
Proof. exact getinfo_keyerror_iff_plans. Qed.
Print Assumptions getinfo_keyerror_iff.

Example getinfo_ex :
  exists ps, impl_plans ex1 = Ok ps
             /\ option_map fst (getinfo [] ps (s2z "t/a")) = Some 1 /\ option_map fst (getinfo [] ps (s2z "t/a/")) = Some 1
             /\ option_map fst (getinfo [] ps (s2z "t/")) = Some 0 /\ getinfo [] ps (s2z "t/c") = None
             /\ getinfo [] ps (s2z "t//") = None /\ ~ ends_with_slash (s2z "t/a").
Proof.
  eexists. split; [vm_compute; reflexivity|]. repeat (split; [vm_compute; reflexivity|]).
  intros [r Hr]. apply (f_equal (@rev Z)) in Hr. rewrite rev_app_distr in Hr. vm_compute in Hr. discriminate.
Qed.

(* ---- archiveinfo ---- *)
Theorem archiveinfo_agrees : forall (hn : bool) (h : header) (a : ainfo),
  archiveinfo hn h = Ok a ->
  exists ps st folders sub,
    impl_plans h = Ok ps /\ ps <> [] /\ h_streams h = Some st /\ si_folders st = Some folders /\ si_sub st = Some sub
    /\ ai_uncompressed a = sumZ (map ip_size ps)
    /\ ai_blocks a = zlen folders
    /\ (ai_solid a = true <-> exists n, In n (s_nums sub) /\ 1 < n)
    /\ ai_method_names a = get_methods_names (map f_coders folders).
Proof. exact archiveinfo_agrees_header. Qed.
Print Assumptions archiveinfo_agrees.

(* "archiveinfo() answers for every archive" is false: the empty archive (functools.reduce without initial value) ... *)
Theorem archiveinfo_empty_refuted :
  parse_header 100 [] = Ok empty_header /\ parse_header 100 [1; 0] = Ok empty_header
  /\ impl_plans empty_header = Ok [] /\ archiveinfo true empty_header = Err EOther.
Proof. exact archiveinfo_empty_refuted_header. Qed.
Print Assumptions archiveinfo_empty_refuted.

(* ... and an archive of directories / empty files stored without main streams *)
Theorem archiveinfo_nostreams_refuted :
  (exists ps, impl_plans nostreams_header = Ok ps /\ map (af_filename []) ps = [s2z "d"; s2z "e"])
  /\ archiveinfo true nostreams_header = Err EOther.
Proof. exact archiveinfo_nostreams_refuted_header. Qed.
Print Assumptions archiveinfo_nostreams_refuted.

(* what holds: it answers whenever there is a member and main streams with folders and SubStreamsInfo *)
Theorem archiveinfo_partial : forall (h : header) ps st folders sub,
  impl_plans h = Ok ps -> ps <> [] -> h_streams h = Some st -> si_folders st = Some folders -> si_sub st = Some sub ->
  exists a, archiveinfo true h = Ok a.
Proof. exact archiveinfo_partial_header. Qed.
Print Assumptions archiveinfo_partial.

Example archiveinfo_ex :
  archiveinfo true ex1 = Ok (mkAinfo [s2z "COPY"] true 1 8)
  /\ archiveinfo true ex2 = Ok (mkAinfo [s2z "COPY"; s2z "7zAES"] false 1 3).
Proof. split; vm_compute; reflexivity. Qed.

(* method names: exactly the display-list names carried by some coder; display order; no repetition *)
Theorem method_names_sound_complete : forall (cl : list (list coder)) (n : str),
  In n (get_methods_names cl) <->
  In n methods_namelist /\ exists cs c, In cs cl /\ In c cs /\ In n (coder_names c).
Proof. exact method_names_char. Qed.
Print Assumptions method_names_sound_complete.

Theorem method_names_order : forall (cl : list (list coder)),
  NoDup (get_methods_names cl) /\ exists keep, get_methods_names cl = filter keep methods_namelist.
Proof. exact method_names_display_order. Qed.
Print Assumptions method_names_order.

(* "every supported coder present is named" is false: a Delta coder (and a Brotli coder) is never named *)
Theorem method_names_refuted :
  exists cl cs c m, In cs cl /\ In c cs /\ In m supported_methods /\ c_method c = m_id m
                    /\ ~ In (m_name m) (get_methods_names cl).
Proof. exact method_names_complete_refuted. Qed.
Print Assumptions method_names_refuted.

Theorem method_names_brotli_refuted :
  get_methods_names [[brotli_coder]] = [] /\ In (s2z "Brotli") (map m_name supported_methods)
  /\ get_filter_id brotli_coder = Some 55.
Proof. exact Listing.method_names_brotli_refuted. Qed.
Print Assumptions method_names_brotli_refuted.

(* what holds: every supported coder other than Delta and Brotli is named *)
Theorem method_names_partial : forall (cl : list (list coder)) cs c m,
  In cs cl -> In c cs -> In m supported_methods -> c_method c = m_id m ->
  ~ In m undisplayed -> In (m_name m) (get_methods_names cl).
Proof. exact method_names_complete_partial. Qed.
Print Assumptions method_names_partial.

Theorem undisplayed_are_delta_brotli : map m_name undisplayed = [s2z "DELTA"; s2z "Brotli"].
Proof. exact undisplayed_methods. Qed.
Print Assumptions undisplayed_are_delta_brotli.

(* ---- needs_password ---- *)
Theorem needs_password_iff : forall (pw : bool) (h : header) (b : bool),
  h_files h <> None -> needs_password pw h = Ok b -> (b = true <-> pw = true \/ has_aes_coder h).
Proof. exact needs_password_iff_header. Qed.
Print Assumptions needs_password_iff.

Theorem needs_password_answers : forall (pw : bool) (h : header) ps,
  impl_plans h = Ok ps -> exists b, needs_password pw h = Ok b.
Proof. exact needs_password_total. Qed.
Print Assumptions needs_password_answers.

Example needs_password_ex :
  h_files ex1 <> None /\ h_files ex2 <> None
  /\ needs_password false ex1 = Ok false /\ needs_password true ex1 = Ok true
  /\ needs_password false ex2 = Ok true /\ has_aes_coder ex2.
Proof.
  split; [vm_compute; discriminate|]. split; [vm_compute; discriminate|].
  repeat (split; [vm_compute; reflexivity|]).
  eexists. eexists. split; [vm_compute; left; reflexivity|]. split; [vm_compute; left; reflexivity | reflexivity].
Qed.
