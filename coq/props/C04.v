(* C04 -- Damage is detected: no success with different content.
   This file holds only statements, `exact`, and Print Assumptions.  The model is
   coq/theories/Damage.v (sig_read = _check_7zfile + SignatureHeader._read; hdr_read = the
   next-header CRC of _real_get_contents; header_plain = Header._read; worker_extract =
   Worker.extract/_extract_single/_check/decompress; testzip; test_model = test()).
   Decoders, the header parser, the link-target validator are arbitrary functions
   (universally quantified below).  The code as it is: extract_impl = worker_extract true (the
   symbolic-link branch of _extract_single compares the CRC, commit c33fe91 of /repo),
   testzip_impl = testzip true (a folder-level CRC error is reported, commit 065e810).  The
   variants symcheck = false / testzip false are the code before those commits, kept as
   regression examples; the harness reports a return to either behaviour. *)
From P7 Require Import Prelude Crc32 Damage.
Open Scope Z_scope.

(* ---- the chain of checks ------------------------------------------------------------ *)

(* If the reader accepts an altered image img' of an accepted image img whose header content is
   covered by a checksum (raw header; encoded header with its CRC stored), then every member it
   delivers that is compared on delivery and has a stored CRC is a member the original delivers
   -- same record (id, name, stored CRC), same bytes -- or one named link of the chain exhibits
   an explicit CRC-32 collision, or the start header was rewritten together with its own
   checksum (no damage of <= 32 bits does that: C04_burst_detected_start_header,
   C04_start_crc_alteration_rejected). *)
Theorem C04_accept_implies_intact_or_collision :
  forall (link_ok : bytes -> bool) (hmeta : Type) (empty_meta : hmeta)
         (parse_plain : bytes -> res hmeta) (enc_crc : bytes -> option Z)
         (enc_decode : bytes -> bytes -> res bytes) (shape_of : hmeta -> shape)
         (decoder : hmeta -> bytes -> Z -> dres) (img img' : bytes) (out out' : list (mfile * bytes)),
    read_archive true link_ok hmeta empty_meta parse_plain enc_crc enc_decode shape_of decoder img = Done out ->
    read_archive true link_ok hmeta empty_meta parse_plain enc_crc enc_decode shape_of decoder img' = Done out' ->
    header_protected enc_crc (next_header img) = true ->
    (forall f d', In (f, d') out' -> f_crc f <> None -> In (f, d') out)
    \/ (start_crc img <> start_crc img' /\ start_fields img <> start_fields img')
    \/ crc_collision (start_fields img) (start_fields img')
    \/ crc_collision (next_header img) (next_header img')
    \/ (exists p p', plain_header enc_crc enc_decode img = Some p /\
                     plain_header enc_crc enc_decode img' = Some p' /\ crc_collision p p')
    \/ (exists f d d', In (f, d) out /\ In (f, d') out' /\ crc_collision d d').
Proof. exact accept_implies_intact_or_collision_impl. Qed.
Print Assumptions C04_accept_implies_intact_or_collision.

(* the same for both variants of the symbolic-link branch (a member is "checked" unless it is a
   link created on disk by the code before commit c33fe91) *)
Theorem C04_accept_implies_intact_or_collision_both_variants :
  forall (symcheck : bool) (link_ok : bytes -> bool) (hmeta : Type) (empty_meta : hmeta)
         (parse_plain : bytes -> res hmeta) (enc_crc : bytes -> option Z)
         (enc_decode : bytes -> bytes -> res bytes) (shape_of : hmeta -> shape)
         (decoder : hmeta -> bytes -> Z -> dres) (img img' : bytes) (out out' : list (mfile * bytes)),
    read_archive symcheck link_ok hmeta empty_meta parse_plain enc_crc enc_decode shape_of decoder img = Done out ->
    read_archive symcheck link_ok hmeta empty_meta parse_plain enc_crc enc_decode shape_of decoder img' = Done out' ->
    header_protected enc_crc (next_header img) = true ->
    (forall f d', In (f, d') out' -> checked symcheck f = true -> f_crc f <> None -> In (f, d') out)
    \/ (start_crc img <> start_crc img' /\ start_fields img <> start_fields img')
    \/ crc_collision (start_fields img) (start_fields img')
    \/ crc_collision (next_header img) (next_header img')
    \/ (exists p p', plain_header enc_crc enc_decode img = Some p /\
                     plain_header enc_crc enc_decode img' = Some p' /\ crc_collision p p')
    \/ (exists f d d', In (f, d) out /\ In (f, d') out' /\ crc_collision d d').
Proof. exact accept_implies_intact_or_collision. Qed.
Print Assumptions C04_accept_implies_intact_or_collision_both_variants.

(* hypotheses met: an image and an altered image (version bytes, trailing bytes) both accepted *)
Example C04_accept_hypotheses_met :
  let img := Toy.img_enc_crc [97; 46; 116] in
  let img' := takeZ 6 img ++ [9; 9] ++ dropZ 8 img ++ [0; 255] in
  img <> img' /\
  Toy.read false img = Done [(Toy.member [97; 46; 116], Toy.data)] /\
  Toy.read false img' = Done [(Toy.member [97; 46; 116], Toy.data)] /\
  header_protected Toy.enc_crc (next_header img) = true.
Proof. exact accept_hypotheses_met. Qed.

(* REFUTED without the protection hypothesis: an encoded (or encrypted) header whose CRC is not
   stored -- what py7zr's own writer produced up to commit f12575e of /repo, and what the reader
   still has to accept from other writers.  One flipped bit in the packed header stream; start
   header, next header and member data identical; both images accepted; the member is delivered
   under a name the original does not have; no collision anywhere.  (Archives of the current
   writer satisfy the hypothesis: the harness observes "invalid block data" for every such flip.) *)
Theorem C04_accept_implies_intact_or_collision_refuted :
  exists img img' out out' f d,
    Toy.read true img = Done out /\ Toy.read true img' = Done out' /\
    start_crc img = start_crc img' /\ start_fields img = start_fields img' /\
    next_header img = next_header img' /\
    header_protected Toy.enc_crc (next_header img) = false /\
    In (f, d) out' /\ checked true f = true /\ f_crc f <> None /\ ~ In (f, d) out /\
    (forall g e, In (g, e) out -> f_name g <> f_name f) /\
    (exists p p', plain_header Toy.enc_crc Toy.enc_decode img = Some p /\
                  plain_header Toy.enc_crc Toy.enc_decode img' = Some p' /\ crc32 p <> crc32 p') /\
    (forall g e e', In (g, e) out -> In (g, e') out' -> e = e').
Proof. exact accept_implies_intact_or_collision_refuted_unprotected_header. Qed.
Print Assumptions C04_accept_implies_intact_or_collision_refuted.

(* "delivered => checked": the control flow of Worker.extract / _extract_single / _check, for the
   code as it is: every member a successful extraction hands out (file, factory product or
   symbolic link) has the stored CRC-32 *)
Theorem C04_delivered_implies_checked :
  forall link_ok dec skip s out f d c,
    extract_impl link_ok dec skip s = Done out ->
    In (f, d) out -> f_crc f = Some c -> f_empty f = false ->
    crc32 d = c.
Proof. exact delivered_implies_checked_impl. Qed.
Print Assumptions C04_delivered_implies_checked.

Theorem C04_delivered_intact_or_collision :
  forall link_ok dec skip s out f d d',
    extract_impl link_ok dec skip s = Done out ->
    In (f, d') out -> f_empty f = false ->
    f_crc f = Some (crc32 d) ->
    d' = d \/ crc_collision d d'.
Proof. exact delivered_intact_or_collision_impl. Qed.
Print Assumptions C04_delivered_intact_or_collision.

(* both variants *)
Theorem C04_delivered_implies_checked_both_variants :
  forall symcheck link_ok dec skip s out f d c,
    worker_extract symcheck link_ok dec skip s = Done out ->
    In (f, d) out -> checked symcheck f = true -> f_crc f = Some c -> f_empty f = false ->
    crc32 d = c.
Proof. exact delivered_implies_checked. Qed.
Print Assumptions C04_delivered_implies_checked_both_variants.

(* Regression example -- the code before commit c33fe91 (symcheck = false): a symbolic link
   extracted to a path was created from bytes that were never compared with the stored CRC.  The
   harness reports a return to this behaviour. *)
Theorem C04_symlink_unchecked_regression_example :
  exists dec s out f d c,
    worker_extract false (fun _ => true) dec true s = Done out /\
    In (f, d) out /\ f_crc f = Some c /\ f_empty f = false /\ crc32 d <> c /\
    testzip false dec s = TZ (Some (f_id f)).
Proof. exact delivered_implies_checked_refuted_symlink. Qed.
Print Assumptions C04_symlink_unchecked_regression_example.

(* the same input with the code as it is: rejected *)
Example C04_symlink_checked_example :
  let f := mkFile 7 [108] false (Some (crc32 [116; 97])) true TPath in
  extract_impl (fun _ => true) (fun _ => DOk [[116; 98]]) true (OneFolder [f]) = Raised (XCrc (Some 7)).
Proof. exact symlink_checked_when_repaired. Qed.

(* a folder with a delivered, a skipped-but-checked, a delivered and a trailing skipped member *)
Example C04_flow_example :
  let f (i : Z) (t : tkind) (d : bytes) := mkFile i [i] false (Some (crc32 d)) false t in
  let files := [f 1 TMem [1]; f 2 TNone [2; 2]; f 3 TMem [3]; f 4 TNone [4]] in
  let dec (i : Z) := if i =? 4 then DErr EEof else DOk [[i]; if i =? 2 then [2] else []] in
  worker_extract false (fun _ => true) dec true (OneFolder files) = Done [(f 1 TMem [1], [1]); (f 3 TMem [3], [3])] /\
  worker_extract false (fun _ => true) (fun i => if i =? 2 then DOk [[2; 3]] else dec i) true (OneFolder files)
    = Raised (XCrc (Some 2)) /\
  testzip false dec (OneFolder files) = TZRaise EEof.
Proof. exact flow_example. Qed.

(* ---- bursts ------------------------------------------------------------------------ *)

Theorem C04_burst_detected_start_header : forall pre c F F' body s,
  zlen pre = 8 -> zlen c = 4 -> zlen F = 20 ->
  sig_read (pre ++ c ++ F ++ body) = Ok s ->
  burst F F' ->
  sig_read (pre ++ c ++ F' ++ body) = Err EBad7z.
Proof. exact burst_detected_start_header. Qed.
Print Assumptions C04_burst_detected_start_header.

Theorem C04_start_crc_alteration_rejected : forall pre c c' F body s,
  zlen pre = 8 -> zlen c = 4 -> zlen c' = 4 -> zlen F = 20 ->
  wf_bytes c = true -> wf_bytes c' = true -> c <> c' ->
  sig_read (pre ++ c ++ F ++ body) = Ok s ->
  sig_read (pre ++ c' ++ F ++ body) = Err EBad7z.
Proof. exact start_crc_alteration_rejected. Qed.
Print Assumptions C04_start_crc_alteration_rejected.

Theorem C04_magic_alteration_rejected : forall m rest,
  zlen m = 6 -> m <> magic7z -> sig_read (m ++ rest) = Err EBad7z.
Proof. exact magic_alteration_rejected. Qed.
Print Assumptions C04_magic_alteration_rejected.

(* the version bytes are neither checked nor used: the outcome is the same, whatever it is *)
Theorem C04_version_alteration_harmless :
  forall symcheck link_ok hmeta empty_meta parse_plain enc_crc enc_decode shape_of decoder m v v' rest,
    zlen m = 6 -> zlen v = 2 -> zlen v' = 2 ->
    read_archive symcheck link_ok hmeta empty_meta parse_plain enc_crc enc_decode shape_of decoder (m ++ v' ++ rest) =
    read_archive symcheck link_ok hmeta empty_meta parse_plain enc_crc enc_decode shape_of decoder (m ++ v ++ rest).
Proof. exact version_alteration_harmless. Qed.
Print Assumptions C04_version_alteration_harmless.

Theorem C04_burst_detected_header : forall pre h h' post s,
  zlen pre = sh_ofs s -> zlen h = sh_size s ->
  hdr_read (pre ++ h ++ post) s = Ok h ->
  burst h h' ->
  hdr_read (pre ++ h' ++ post) s = Err EBad7z.
Proof. exact burst_detected_header. Qed.
Print Assumptions C04_burst_detected_header.

(* under the Copy coder (decoded member = slice of the damaged body) every <= 32-bit burst inside a
   member's packed bytes makes the extraction fail *)
Theorem C04_copy_burst_detected : forall link_ok dec skip s f pre d d' post chunks,
  (exists sk l, In (sk, l) (calls skip s) /\ In f l) ->
  tnone (f_tgt f) = false -> f_empty f = false ->
  f_crc f = Some (crc32 d) ->
  burst d d' ->
  dec (f_id f) = DOk chunks ->
  concat chunks = sliceZ (zlen pre) (zlen d') (pre ++ d' ++ post) ->
  forall out, extract_impl link_ok dec skip s <> Done out.
Proof. exact copy_burst_detected_impl. Qed.
Print Assumptions C04_copy_burst_detected.

Example C04_burst_example : burst [1; 2; 3; 4; 5; 6] [1; 2; 3; 255; 250; 6].
Proof. exact burst_example. Qed.

(* damage at every link of the chain of a concrete image is rejected; a version byte is not *)
Example C04_damage_rejected_example :
  let img := Toy.img_raw in
  let flip (i : nat) := firstn i img ++ [Z.lxor (nth i img 0) 4] ++ skipn (S i) img in
  Toy.read false (flip 3%nat) = Raised (XErr EBad7z) /\
  Toy.read false (flip 9%nat) = Raised (XErr EBad7z) /\
  Toy.read false (flip 13%nat) = Raised (XErr EBad7z) /\
  Toy.read false (flip 30%nat) = Raised (XErr EBad7z) /\
  Toy.read false (flip 32%nat) = Raised (XCrc (Some 0)) /\
  Toy.read false (flip 36%nat) = Raised (XErr EBad7z) /\
  Toy.read false (flip 40%nat) = Raised (XErr EBad7z) /\
  Toy.read false (flip 7%nat) = Toy.read false img.
Proof. exact toy_damage_rejected. Qed.

(* helpers.calculate_crc32: block-wise chaining is the CRC of the whole; Worker.decompress: the
   CRC accumulated over the chunks is the CRC of the bytes written *)
Theorem C04_calculate_crc32_eq : forall data v bs,
  1 <= bs -> 0 <= v < 2 ^ 32 -> calculate_crc32 data v bs = crc32_update v data.
Proof. exact calculate_crc32_eq. Qed.
Print Assumptions C04_calculate_crc32_eq.

Theorem C04_crc_chunks : forall chunks, crc_chunks 0 chunks = crc32 (concat chunks).
Proof. exact crc_chunks_0. Qed.
Print Assumptions C04_crc_chunks.

(* ---- the integrity-test entry points ---------------------------------------------- *)

(* testzip() = None  =>  every data member was decoded and its CRC-32 matched the stored one *)
Theorem C04_testzip_sound : forall dec s,
  testzip_impl dec s = TZ None -> forall f, In f (all_data s) -> passes dec f.
Proof. exact testzip_sound. Qed.
Print Assumptions C04_testzip_sound.

(* "never certifies as good an archive whose members would not extract": when testzip() returns
   None, extraction of the same image succeeds, whatever the targets (no link created on disk) *)
Theorem C04_testzip_none_extract_ok : forall symcheck link_ok dec s skip,
  (forall l, In l (shape_lists s) -> forall f, In f l -> f_symlink f && tpath (f_tgt f) = false) ->
  testzip_impl dec s = TZ None ->
  exists out, worker_extract symcheck link_ok dec skip s = Done out.
Proof. exact testzip_impl_none_extract_ok. Qed.
Print Assumptions C04_testzip_none_extract_ok.

(* hypotheses met, and a folder-level CRC error is reported *)
Example C04_testzip_example :
  let f (i : Z) (d : bytes) := mkFile i [i] false (Some (crc32 d)) false TMem in
  let s := ManyFolders [f 1 [1]; f 2 [2; 2]] [[f 1 [1]]; [f 2 [2; 2]]] in
  testzip_impl (fun i => DOk [[i]; if i =? 2 then [2] else []]) s = TZ None /\
  testzip_impl (fun i => if i =? 2 then DFolderCrc else DOk [[i]]) s = TZFlag /\
  testzip_impl (fun i => if i =? 2 then DOk [[2; 3]] else DOk [[i]]) s = TZ (Some 2).
Proof. vm_compute. repeat split; reflexivity. Qed.

(* Regression example -- the code before commit 065e810 (testzip false): a folder-level CRC
   mismatch raised CrcError(crc, digest, None) and testzip() returned args[2] = None, "good",
   for an archive that extraction rejects.  The harness reports a return to this behaviour. *)
Theorem C04_testzip_unrepaired_regression_example :
  exists dec s f,
    testzip false dec s = TZ None /\ In f (all_data s) /\ ~ passes dec f /\
    worker_extract false (fun _ => true) dec true s = Raised (XCrc None) /\
    testzip_impl dec s = TZFlag.
Proof. exact testzip_unrepaired_regression_example. Qed.
Print Assumptions C04_testzip_unrepaired_regression_example.

(* the general form, for both variants *)
Theorem C04_testzip_sound_partial : forall tzf dec s,
  tzf = true \/ (forall f, In f (all_data s) -> dec (f_id f) <> DFolderCrc) ->
  testzip tzf dec s = TZ None ->
  forall f, In f (all_data s) -> passes dec f.
Proof. exact testzip_sound_partial. Qed.
Print Assumptions C04_testzip_sound_partial.

Theorem C04_testzip_intact : forall tzf dec s,
  (forall f, In f (all_data s) -> passes dec f) -> testzip tzf dec s = TZ None.
Proof. exact testzip_intact. Qed.
Print Assumptions C04_testzip_intact.

(* test(): True on an intact archive, or None when no packed CRC is stored (py7zr's writer stores
   packed CRCs only for encrypted archives: Header.initialize, enable_digests = password given).
   crcs holds one entry per packed stream (commit 8623e75), read only where defined. *)
Theorem C04_test_intact : forall packpos defs sizes crcs body,
  streams_match defs sizes crcs packpos body ->
  test_model packpos defs sizes crcs body =
    Ok (if match crcs with [] => true | _ => false end then None else Some true).
Proof. exact test_intact. Qed.
Print Assumptions C04_test_intact.

Theorem C04_test_none_iff : forall packpos defs sizes crcs body,
  test_model packpos defs sizes crcs body = Ok None <-> crcs = [].
Proof. exact test_none_iff. Qed.
Print Assumptions C04_test_none_iff.

Theorem C04_test_true_sound : forall packpos defs sizes crcs body,
  test_model packpos defs sizes crcs body = Ok (Some true) -> streams_match defs sizes crcs packpos body.
Proof. exact test_true_sound. Qed.
Print Assumptions C04_test_true_sound.

Theorem C04_test_burst_detected : forall ds sz ss c cs pre p p' post,
  zlen p = sz -> crc32 p = c -> burst p p' ->
  test_model (zlen pre) (true :: ds) (sz :: ss) (c :: cs) (pre ++ p' ++ post) = Ok (Some false).
Proof. exact test_burst_detected. Qed.
Print Assumptions C04_test_burst_detected.

Example C04_test_example :
  test_model 1 [true; false; true] [2; 1; 3] [crc32 [5; 6]; 0; crc32 [8; 9; 10]] [0; 5; 6; 7; 8; 9; 10] = Ok (Some true) /\
  test_model 1 [true; false; true] [2; 1; 3] [crc32 [5; 6]; 0; crc32 [8; 9; 10]] [0; 5; 6; 7; 8; 9; 11] = Ok (Some false) /\
  test_model 1 [] [2; 1; 3] [] [0; 5; 6; 7; 8; 9; 10] = Ok None.
Proof. exact test_example. Qed.
