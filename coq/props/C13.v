(* C13 -- Extraction results do not depend on scheduling; worker errors reach the caller.
   Statements only (`exact`, Print Assumptions, Examples meeting the hypotheses).  The model is
   theories/Par.v (a transcription of Worker.extract / extract_single / _extract of py7zr/py7zr.py),
   the proofs are in theories/ParProofs.v.  Workers, schedules and chunk lists are arbitrary lists:
   nothing here is a bounded enumeration. *)
From P7 Require Import Prelude Par ParProofs.
Local Open Scope nat_scope.

(* Every complete interleaving of the folder workers -- any number of workers, any number of actions --
   leaves exactly the outputs of running the workers one after the other, provided no output belongs to
   two workers.  Failing workers included: what a worker wrote before it failed is the same too. *)
Theorem C13_schedule_independent : forall o0 ws sched, disjoint ws -> complete sched o0 ws ->
  forall o, s_out (run sched (init o0 ws)) o = s_out (sequential o0 ws) o.
Proof. exact schedule_independent_thm. Qed.
Print Assumptions C13_schedule_independent.

(* the outputs at the end of any complete schedule in closed form: each output is what its own worker,
   alone, makes of it *)
Theorem C13_outputs_closed_form : forall o0 ws sched, disjoint ws -> complete sched o0 ws ->
  (forall i w o, nth_error ws i = Some w -> In o (fp w) ->
      s_out (run sched (init o0 ws)) o = fst (lrun (eff w) o0 0) o) /\
  (forall o, ~ In o (targets ws) -> s_out (run sched (init o0 ws)) o = o0 o).
Proof. exact finished_outs. Qed.
Print Assumptions C13_outputs_closed_form.

(* the commutation the above rests on *)
Theorem C13_steps_commute : forall ws s i j, disjoint ws -> InvW ws s -> i <> j ->
  (forall o, s_out (step i (step j s)) o = s_out (step j (step i s)) o) /\
  s_ws (step i (step j s)) = s_ws (step j (step i s)).
Proof. exact step_commute. Qed.
Print Assumptions C13_steps_commute.

(* complete schedules exist (the sequential one), and any schedule giving each worker enough turns is one *)
Theorem C13_sequential_complete : forall o0 ws, complete (seq_sched ws) o0 ws.
Proof. exact sequential_complete. Qed.
Print Assumptions C13_sequential_complete.

Theorem C13_enough_turns_complete : forall sched o0 ws,
  (forall i w, nth_error ws i = Some w -> length w <= count_occ Nat.eq_dec sched i) -> complete sched o0 ws.
Proof. exact enough_steps_finish. Qed.
Print Assumptions C13_enough_turns_complete.

Example C13_hypotheses_met_intact : disjoint w_intact /\ complete sched_intact none_map w_intact /\
  (forall w, In w w_intact -> first_fail w = None).
Proof. exact w_intact_ok. Qed.

Example C13_hypotheses_met_damaged : disjoint w_damaged /\ complete sched_damaged none_map w_damaged /\
  nth_error w_damaged 0 = Some [ACreate 0; AWrite 0 [65; 66]%Z; AFail ECrc] /\
  first_fail [ACreate 0; AWrite 0 [65; 66]%Z; AFail ECrc] = Some ECrc.
Proof. exact w_damaged_ok. Qed.

(* The real sequential path stops at the first exception.  Intact archive: it is the schedule above. *)
Theorem C13_sequential_path_agrees : forall o0 ws,
  (forall w, In w ws -> first_fail w = None) -> seq_abort o0 ws = sequential o0 ws.
Proof. exact sequential_path_agrees_thm. Qed.
Print Assumptions C13_sequential_path_agrees.

(* intact archive, the whole call: all three paths return normally; the outputs of threads (any complete
   schedule) and of processes writing files are those of the sequential path *)
Theorem C13_intact_paths_agree : forall t sched o0 pre ws,
  disjoint ws -> first_fail pre = None -> (forall w, In w ws -> first_fail w = None) ->
  complete sched (fst (lrun (eff pre) o0 0)) ws ->
  snd (extract MThreads t sched o0 pre ws) = Ok tt /\
  snd (extract MSeq t sched o0 pre ws) = Ok tt /\
  snd (extract MProcs t sched o0 pre ws) = Ok tt /\
  (forall o, fst (extract MThreads t sched o0 pre ws) o = fst (extract MSeq t sched o0 pre ws) o) /\
  (forall o, fst (extract MProcs TFile sched o0 pre ws) o = fst (extract MSeq TFile sched o0 pre ws) o).
Proof. exact extract_intact_agree_thm. Qed.
Print Assumptions C13_intact_paths_agree.

(* Errors, threads: a failing folder makes the call fail, under every complete schedule, with the error
   of a folder that really fails *)
Theorem C13_error_reaches_caller_threads : forall o0 ws sched i w e,
  nth_error ws i = Some w -> first_fail w = Some e -> complete sched o0 ws ->
  exists j wj ej, result_of (s_chan (run sched (init o0 ws))) = Err ej /\
                  nth_error ws j = Some wj /\ first_fail wj = Some ej.
Proof. exact error_reaches_caller_threads_thm. Qed.
Print Assumptions C13_error_reaches_caller_threads.

(* one damaged folder (the property's quantifier): its own error, whatever the schedule *)
Theorem C13_single_failure_identity : forall o0 ws sched k w e,
  nth_error ws k = Some w -> first_fail w = Some e ->
  (forall j wj, j <> k -> nth_error ws j = Some wj -> first_fail wj = None) ->
  complete sched o0 ws ->
  result_of (s_chan (run sched (init o0 ws))) = Err e.
Proof. exact single_failure_identity_thm. Qed.
Print Assumptions C13_single_failure_identity.

Theorem C13_threads_ok_iff : forall o0 ws sched, complete sched o0 ws ->
  (result_of (s_chan (run sched (init o0 ws))) = Ok tt <-> forall w, In w ws -> first_fail w = None).
Proof. exact threads_ok_iff_thm. Qed.
Print Assumptions C13_threads_ok_iff.

(* one damaged folder, threads against the sequential path: same error; same outputs up to the damaged
   folder; the later folders are extracted by the threads and left untouched by the sequential path *)
Theorem C13_damaged_threads_vs_sequential : forall o0 pre w post e sched,
  disjoint (pre ++ w :: post) ->
  (forall p, In p pre -> first_fail p = None) -> first_fail w = Some e ->
  (forall p, In p post -> first_fail p = None) ->
  complete sched o0 (pre ++ w :: post) ->
  let ws := pre ++ w :: post in
  let sp := run sched (init o0 ws) in
  let ss := seq_abort o0 ws in
  result_of (s_chan sp) = Err e /\ result_of (s_chan ss) = Err e /\
  (forall wj o, In wj (pre ++ [w]) -> In o (fp wj) -> s_out sp o = s_out ss o) /\
  (forall wj o, In wj post -> In o (fp wj) -> s_out sp o = fst (lrun wj o0 0) o /\ s_out ss o = o0 o).
Proof. exact damaged_threads_vs_sequential_thm. Qed.
Print Assumptions C13_damaged_threads_vs_sequential.

(* with two damaged folders WHICH error is raised depends on the schedule (outside the quantifier) *)
Theorem C13_error_identity_schedule_dependent :
  disjoint w_two_damaged /\
  complete [0; 0; 1; 1] none_map w_two_damaged /\ complete [0; 1; 1; 0] none_map w_two_damaged /\
  result_of (s_chan (run [0; 0; 1; 1] (init none_map w_two_damaged))) = Err ECrc /\
  result_of (s_chan (run [0; 1; 1; 0] (init none_map w_two_damaged))) = Err EEof /\
  result_of (s_chan (seq_abort none_map w_two_damaged)) = Err ECrc.
Proof. exact error_identity_schedule_dependent_thm. Qed.
Print Assumptions C13_error_identity_schedule_dependent.

(* Errors, processes (mp=True): "an error met by any worker is raised to the caller" is FALSE of the
   faithful model -- the queue the children write to is a copy.  Witness: two folders, the first damaged. *)
Theorem C13_error_lost_processes_refuted :
  exists ws sched, disjoint ws /\ complete sched none_map ws /\
    (exists w, In w ws /\ first_fail w = Some ECrc) /\
    snd (extract MThreads TFile sched none_map [] ws) = Err ECrc /\
    snd (extract MSeq TFile sched none_map [] ws) = Err ECrc /\
    snd (extract MProcs TFile sched none_map [] ws) = Ok tt /\
    snd (extract MProcs TMem sched none_map [] ws) = Ok tt.
Proof. exact error_lost_processes_refuted_thm. Qed.
Print Assumptions C13_error_lost_processes_refuted.

(* what does hold with processes: the caller sees an error only from the empty-member pass or as the
   post-pass's FileNotFoundError over a file the failed child never created; file outputs are those of
   the threads *)
Theorem C13_error_processes_partial : forall t sched o0 pre ws e,
  snd (extract MProcs t sched o0 pre ws) = Err e ->
  first_fail pre = Some e \/
  (first_fail pre = None /\ t = TFile /\ e = EOther /\
   exists o, In o (fp pre ++ targets ws) /\
             exists_out (s_out (run sched (init (fst (lrun (eff pre) o0 0)) ws))) o = false).
Proof. exact processes_partial_thm. Qed.
Print Assumptions C13_error_processes_partial.

Theorem C13_processes_file_outputs_partial : forall sched o0 pre ws o,
  fst (extract MProcs TFile sched o0 pre ws) o = fst (extract MThreads TFile sched o0 pre ws) o.
Proof. exact processes_file_outputs_thm. Qed.
Print Assumptions C13_processes_file_outputs_partial.

(* processes with a WriterFactory target: "identical output" is FALSE -- the products stay in the children *)
Theorem C13_mem_outputs_lost_processes_refuted :
  exists ws sched, disjoint ws /\ complete sched none_map ws /\ (forall w, In w ws -> first_fail w = None) /\
    snd (extract MProcs TMem sched none_map [] ws) = Ok tt /\
    (forall o, fst (extract MProcs TMem sched none_map [] ws) o = None) /\
    fst (extract MThreads TMem sched none_map [] ws) 0 = Some [65; 66; 67]%Z /\
    fst (extract MThreads TMem sched none_map [] ws) 2 = Some [69; 70]%Z.
Proof. exact mem_outputs_lost_processes_refuted_thm. Qed.
Print Assumptions C13_mem_outputs_lost_processes_refuted.

Theorem C13_processes_mem_outputs_partial : forall sched o0 pre ws o,
  fst (extract MProcs TMem sched o0 pre ws) o = fst (lrun (eff pre) o0 0) o.
Proof. exact processes_mem_outputs_lost_thm. Qed.
Print Assumptions C13_processes_mem_outputs_partial.

(* the proposed repair (multiprocessing queue for the exceptions, threads for a factory target) makes the
   process path equal to the thread path, so every theorem about threads above then holds of it *)
Theorem C13_processes_repaired_as_threads : forall t sched o0 pre ws,
  extract MProcsFixed t sched o0 pre ws = extract MThreads t sched o0 pre ws.
Proof. exact processes_repaired_as_threads_thm. Qed.
Print Assumptions C13_processes_repaired_as_threads.

(* an error of the empty-member pass (run by the caller itself) is raised on every path *)
Theorem C13_pre_error_all_modes : forall md t sched o0 pre ws e,
  first_fail pre = Some e -> snd (extract md t sched o0 pre ws) = Err e.
Proof. exact pre_error_all_modes_thm. Qed.
Print Assumptions C13_pre_error_all_modes.

(* which path runs *)
Theorem C13_parallel_iff : forall mp pw by_name n,
  select_mode mp pw by_name n <> MSeq <-> (2 <= n /\ pw = false /\ by_name = true).
Proof. exact select_mode_parallel_iff. Qed.
Print Assumptions C13_parallel_iff.

Theorem C13_processes_iff : forall mp pw by_name n,
  select_mode mp pw by_name n = MProcs <-> (2 <= n /\ pw = false /\ by_name = true /\ mp = true).
Proof. exact select_mode_processes_iff. Qed.
Print Assumptions C13_processes_iff.

(* Two independent SevenZipFile objects on the same archive, the workers of both interleaved in any
   complete way: the outputs and the result of the first are those of the first alone.  Rests on: each
   worker has its own handle (`open(filename, "rb")` in extract_single), its own decoder (each object
   parses its own header into its own Folder objects), and each extract call its own queue. *)
Theorem C13_independent_objects : forall o0 wa wb sched,
  disjoint (wa ++ wb) -> complete sched o0 (wa ++ wb) ->
  let s := run sched (init o0 (wa ++ wb)) in
  (forall o, In o (targets wa) -> s_out s o = s_out (sequential o0 wa) o) /\
  (result_of (chan_of 0 (length wa) (s_chan s)) = Ok tt <-> forall w, In w wa -> first_fail w = None) /\
  (forall e, result_of (chan_of 0 (length wa) (s_chan s)) = Err e -> exists w, In w wa /\ first_fail w = Some e).
Proof. exact independent_objects_thm. Qed.
Print Assumptions C13_independent_objects.

Example C13_hypotheses_met_two_objects : disjoint (w_damaged ++ w_objB) /\
  complete [2; 0; 3; 1; 0; 2; 2; 0; 1; 3] none_map (w_damaged ++ w_objB).
Proof. exact two_objects_ok. Qed.

(* The disjointness hypothesis is about the archive: an output is a member's output name, a member belongs to
   one folder.  Output names are the member names, except that a repeated name gets the first suffix _<k> that
   yields a name not handed out before (_extract after commit 5112351).  They are pairwise distinct for EVERY
   list of member names ... *)
Theorem C13_outnames_distinct : forall names, NoDup (outnames names).
Proof. exact outnames_nodup_thm. Qed.
Print Assumptions C13_outnames_distinct.

(* ... and pairwise distinct member names are kept unchanged *)
Theorem C13_outnames_identity : forall names, NoDup names -> outnames names = names /\ NoDup (outnames names).
Proof. exact outnames_distinct_thm. Qed.
Print Assumptions C13_outnames_identity.

(* the names that used to collide (a_0, a, a gave a_0, a, a_0 before the repair) *)
Example C13_outnames_former_collision :
  outnames [[97; 95; 48]; [97]; [97]]%Z = [[97; 95; 48]; [97]; [97; 95; 49]]%Z /\
  outnames [[97]; [97]; [97; 95; 48]; [97]]%Z = [[97]; [97; 95; 48]; [97; 95; 48; 95; 48]; [97; 95; 49]]%Z.
Proof. exact outnames_former_collision. Qed.

(* hence: when every output has one owning worker the workers are disjoint, and scheduling independence holds
   with no further hypothesis *)
Theorem C13_disjoint_of_owner : forall ws (owner : nat -> nat),
  (forall i w o, nth_error ws i = Some w -> In o (fp w) -> owner o = i) -> disjoint ws.
Proof. exact disjoint_of_owner_thm. Qed.
Print Assumptions C13_disjoint_of_owner.

Theorem C13_schedule_independent_archives : forall o0 ws sched (owner : nat -> nat),
  (forall i w o, nth_error ws i = Some w -> In o (fp w) -> owner o = i) ->
  complete sched o0 ws ->
  forall o, s_out (run sched (init o0 ws)) o = s_out (sequential o0 ws) o.
Proof. exact schedule_independent_owner_thm. Qed.
Print Assumptions C13_schedule_independent_archives.

(* The hypothesis cannot be dropped (a fact about the model, no longer reachable from an archive): two workers
   writing one output leave the later one's data, the earlier one's, or a mixture, depending on the schedule *)
Theorem C13_disjointness_needed :
  disjointb w_collide = false /\
  complete [0; 0; 1; 1] none_map w_collide /\ complete [1; 1; 0; 0] none_map w_collide /\
  complete [0; 1; 0; 1] none_map w_collide /\
  s_out (run [0; 0; 1; 1] (init none_map w_collide)) 0 = Some [99]%Z /\
  s_out (seq_abort none_map w_collide) 0 = Some [99]%Z /\
  s_out (run [1; 1; 0; 0] (init none_map w_collide)) 0 = Some [65; 65; 65]%Z /\
  s_out (run [0; 1; 0; 1] (init none_map w_collide)) 0 = Some [99; 65; 65]%Z.
Proof. exact collision_race_refuted_thm. Qed.
Print Assumptions C13_disjointness_needed.

(* the decision procedure for the hypothesis used by the harness is sound *)
Theorem C13_disjointb_sound : forall ws, disjointb ws = true -> disjoint ws.
Proof. exact disjointb_sound. Qed.
Print Assumptions C13_disjointb_sound.
