(* C15 -- A failed write call does not poison the archive.
   Statements only; the model is coq/theories/WSession.v (the write session of SevenZipFile as a
   state machine with fault points, for the code WITH the repair `_register_and_archive`: a member
   is forgotten again when Worker.archive fails), the proofs are in coq/theories/WSessionProofs.v.
   D / dg / deq: the per-member digest and its equality test (CRC-32 and Z.eqb in the executable
   instance run32 / abs32 that the harness runs against the implementation).
   fires a s : the fault of source s fires when s is handed to entry point a;
   dirty a s : it is read() raising after k > 0 bytes (the only failure that leaves bytes behind). *)
From P7 Require Import Prelude Crc32 WSession WSessionProofs.
Open Scope Z_scope.

(* [failed_call_no_effect]: any entry point, any reachable state, any fault that fires (source
   missing, lstat / open / readlink raising once or for good, file removed after lstat, dangling
   link, arcname or argument rejected, read raising at the first byte): the exception reaches the
   caller, the state is the one before the call (write() may have run header.initialize()), and a
   reader of the closed archive sees no difference *)
Theorem C15_failed_call_no_effect :
  forall (D : Type) (dg : bytes -> D) (deq : D -> D -> bool) (st : wstate D) (a : api) (s : src),
  reachable dg st -> fires a s = true -> dirty a s = false ->
  exists st', wstep dg st (OCall a s) = (st', Raised) /\ (st' = st \/ st' = set_init st) /\
              abs dg deq st' = abs dg deq st.
Proof. exact (@failed_call_no_effect). Qed.
Print Assumptions C15_failed_call_no_effect.

Theorem C15_failed_writeall_root_no_effect :
  forall (D : Type) (dg : bytes -> D) (st : wstate D) dr l, wstep dg st (OWriteall true dr l) = (st, Raised).
Proof. exact (@failed_writeall_root_no_effect). Qed.
Print Assumptions C15_failed_writeall_root_no_effect.

(* read() raising after k > 0 bytes: the exception reaches the caller, no entry and no sub-stream
   stays behind; the only trace is the bytes c already fed to the folder's compressor *)
Theorem C15_failed_read_effect :
  forall (D : Type) (dg : bytes -> D) (st : wstate D) (a : api) (s : src),
  reachable dg st -> fires a s = true ->
  exists i c, wstep dg st (OCall a s) = (fail_state st i c, Raised) /\ (i = ws_init st \/ i = true) /\
              (dirty a s = false -> c = []).
Proof. exact (@failed_read_effect). Qed.
Print Assumptions C15_failed_read_effect.

(* writeall, dereference=False or True: the failure of a tree member (lstat / open / readlink /
   read raising anything) always reaches the caller -- except an ELOOP error under dereference=True,
   which _writeall skips on purpose (stops dr s = fires AWrite s && negb (dr && s_eloop s)) *)
Theorem C15_writeall_failure_reaches_caller :
  forall (D : Type) (dg : bytes -> D) dr l (st : wstate D), reachable dg st ->
  existsb (stops dr) l = true -> snd (wstep dg st (OWriteall false dr l)) = Raised.
Proof. exact (@writeall_failure_reaches_caller). Qed.
Print Assumptions C15_writeall_failure_reaches_caller.

Theorem C15_stops_not_eloop : forall dr s, fires AWrite s = true -> s_eloop s = false -> stops dr s = true.
Proof. exact stops_not_eloop. Qed.

Theorem C15_stops_no_deref : forall s, fires AWrite s = true -> stops false s = true.
Proof. exact stops_no_deref. Qed.

(* the worker never lags behind the registered entries: no call works on an earlier call's member *)
Theorem C15_worker_in_step :
  forall (D : Type) (dg : bytes -> D) (st : wstate D), reachable dg st ->
  ws_pend st = [] /\ ws_cur st = length (ws_files st).
Proof. exact (@worker_in_step). Qed.
Print Assumptions C15_worker_in_step.

(* [no_retry]: ANY history, ANY faults: every entry of the closed archive was registered by a call
   (or writeall member) whose fault did not fire; nothing of a failed source is an entry *)
Theorem C15_no_retry :
  forall (D : Type) (dg : bytes -> D) ops (st : wstate D) outs, run dg st0 ops = (st, outs) ->
  ws_pend st = [] /\
  forall f, In f (ws_files st) -> exists a s, In (a, s) (flat_map op_srcs ops) /\ fires a s = false /\
                                               full_member f = full_member (file_of_src a s).
Proof. exact (@no_retry). Qed.
Print Assumptions C15_no_retry.

(* [later_writes_intact]: histories of any length over write/writestr/writef/writeall with any
   number of faults of any kind except read() raising after k > 0 bytes: exactly the calls whose
   fault fires raise, and a reader of the closed archive gets exactly the members of the calls
   that returned (writeall: the members before the failing one), in order, with their complete
   bytes.  Covers the open-failure histories and symlink-after-writestr that poisoned the archive
   before the repair. *)
Theorem C15_later_writes_intact :
  forall (D : Type) (dg : bytes -> D) (deq : D -> D -> bool), (forall a b, deq a b = true <-> a = b) ->
  forall ops, forallb clean_op ops = true ->
  exists st, run dg st0 ops = (st, map expected_out ops) /\ abs dg deq st = Some (flat_map expected ops).
Proof. exact (@later_writes_intact). Qed.
Print Assumptions C15_later_writes_intact.

Theorem C15_later_writes_intact_crc32 : forall ops, forallb clean_op ops = true ->
  exists st, run32 st0 ops = (st, map expected_out ops) /\ abs32 st = Some (flat_map expected ops).
Proof. exact later_writes_intact_crc32. Qed.
Print Assumptions C15_later_writes_intact_crc32.

(* [midway_failure_not_wrong], per member: ANY history with ANY faults (sources failing after
   k > 0 bytes included, any number of times): if the closed archive can be read at all, its
   entries are the registered members, and for each the reader gets either the complete bytes of
   its source or a check failure -- never other bytes.  Digest assumed injective. *)
Theorem C15_midway_member_right :
  forall (D : Type) (dg : bytes -> D) (deq : D -> D -> bool),
  (forall a b, deq a b = true <-> a = b) -> (forall x y, dg x = dg y -> x = y) ->
  forall ops st outs ms, run dg st0 ops = (st, outs) -> abs dg deq st = Some ms ->
  Forall2 right_or_crc (ws_files st) ms.
Proof. exact (@midway_member_right). Qed.
Print Assumptions C15_midway_member_right.

Theorem C15_midway_failure_not_wrong :
  forall (D : Type) (dg : bytes -> D) (deq : D -> D -> bool),
  (forall a b, deq a b = true <-> a = b) -> (forall x y, dg x = dg y -> x = y) ->
  forall ops st outs ms, run dg st0 ops = (st, outs) -> abs dg deq st = Some ms -> all_pass ms = true ->
  ms = map full_member (ws_files st).
Proof. exact (@midway_failure_not_wrong). Qed.
Print Assumptions C15_midway_failure_not_wrong.

(* members written BEFORE a call that failed after k > 0 bytes: all present and intact as soon as
   a member with data is written after the failed call (every call's outcome is as expected; the
   members after the failed call are listed) *)
Theorem C15_members_before_intact :
  forall (D : Type) (dg : bytes -> D) (deq : D -> D -> bool), (forall a b, deq a b = true <-> a = b) ->
  forall pre a s post,
  forallb clean_op pre = true -> forallb clean_op post = true -> fires a s = true ->
  datas (flat_map expected post) <> [] ->
  exists st tail, run dg st0 (pre ++ OCall a s :: post) = (st, map expected_out (pre ++ OCall a s :: post)) /\
    abs dg deq st = Some (flat_map expected pre ++ tail) /\ map fst tail = map fst (flat_map expected post).
Proof. exact (@members_before_intact). Qed.
Print Assumptions C15_members_before_intact.

(* ... and FALSE otherwise: with nothing with data written afterwards, the last member written
   before the failed call absorbs the stray bytes and fails its check *)
Theorem C15_member_before_midway_failure_refuted :
  forallb clean_op [OCall AWritestr sx; OCall AWritestr sw] = true /\
  snd (run32 st0 ops_midway_last) = [Returned; Returned; Raised; Returned] /\
  ws_garb (fst (run32 st0 ops_midway_last)) = 3%nat /\
  abs32 (fst (run32 st0 ops_midway_last)) = Some [(0, MData [88; 88]); (9, MCrc); (3, MDir)].
Proof. exact member_before_midway_failure_refuted. Qed.
Print Assumptions C15_member_before_midway_failure_refuted.

Theorem C15_midway_failure_example :
  snd (run32 st0 ops_midway) = [Returned; Returned; Raised; Returned; Returned] /\
  map (fun f => (w_name f, w_data f)) (ws_files (fst (run32 st0 ops_midway))) =
    [(0, [88; 88]); (9, [87; 87; 87]); (4, [89; 89; 89]); (3, [])] /\
  abs32 (fst (run32 st0 ops_midway)) =
    Some [(0, MData [88; 88]); (9, MData [87; 87; 87]); (4, MCrc); (3, MDir)].
Proof. exact midway_failure_example. Qed.
Print Assumptions C15_midway_failure_example.

(* the hypotheses on the digest are satisfiable *)
Theorem C15_hyps_satisfiable : exists (D : Type) (dg : bytes -> D) (deq : D -> D -> bool),
  (forall a b, deq a b = true <-> a = b) /\ (forall x y, dg x = dg y -> x = y).
Proof. exact hyps_satisfiable. Qed.

(* non-vacuity: concrete non-trivial instances of the hypotheses of the implications above *)
Example C15_later_writes_intact_example :
  let ops := [OCall AWritestr sx; OCall AWrite (sa_open true); OCall AWrite slink; OCall AWrite s_missing;
              OCall AWritef s_badname; OCall AWrite s_dangling; OCall AWritef (sa_read 0 false);
              OWriteall false false [sdir; sb; sa_open false; sy];
              OWriteall true false [sdir]; OCall AWritef sy] in
  forallb clean_op ops = true /\
  snd (run32 st0 ops) = [Returned; Raised; Returned; Raised; Raised; Raised; Raised; Raised; Raised; Returned] /\
  abs32 (fst (run32 st0 ops)) =
    Some [(0, MData [88; 88]); (5, MData [116]); (3, MDir); (2, MData [66; 66; 66]); (4, MData [89; 89; 89])].
Proof. exact later_writes_intact_example. Qed.

Example C15_failed_call_no_effect_example :
  let st := fst (run32 st0 [OCall AWritestr sx]) in
  fires AWrite (sa_open true) = true /\ dirty AWrite (sa_open true) = false /\
  wstep32 st (OCall AWrite (sa_open true)) = (st, Raised) /\
  wstep32 st0 (OCall AWrite (sa_open false)) = (set_init st0, Raised) /\ set_init (D:=Z) st0 <> st0 /\
  abs32 (set_init st0) = Some [] /\ abs32 st0 = Some [] /\
  fires AWritef (sa_read 3 true) = true /\ dirty AWritef (sa_read 3 true) = true /\
  fires AWritestr (sa_read 3 true) = false /\ fires AWrite (mkSrc 3 KDir [] (Some (mkFault FOpen true)) false) = false.
Proof. exact failed_call_no_effect_example. Qed.

Example C15_writeall_eloop_example :
  let tree := [sdir; sb; s_eloop_open; sy] in
  snd (run32 st0 [OWriteall false true tree]) = [Returned] /\
  abs32 (fst (run32 st0 [OWriteall false true tree])) = Some [(3, MDir); (2, MData [66; 66; 66]); (4, MData [89; 89; 89])] /\
  snd (run32 st0 [OWriteall false false tree]) = [Raised] /\
  abs32 (fst (run32 st0 [OWriteall false false tree])) = Some [(3, MDir); (2, MData [66; 66; 66])] /\
  snd (run32 st0 [OWriteall false true [sdir; sb; sa_open true; sy]]) = [Raised] /\
  existsb (stops true) [sdir; sb; sa_open true; sy] = true /\ existsb (stops true) tree = false.
Proof. exact writeall_eloop_example. Qed.

Example C15_members_before_intact_example :
  forallb clean_op [OCall AWritestr sx; OCall AWritestr sw] = true /\
  forallb clean_op [OCall AWritestr sy; OCall AWrite sdir] = true /\
  fires AWritef (sa_read 3 false) = true /\
  flat_map expected [OCall AWritestr sy; OCall AWrite sdir] = [(4, MData [89; 89; 89]); (3, MDir)].
Proof. exact members_before_intact_example. Qed.
