(* C15 -- A failed write call does not poison the archive.
   Statements only; the model is coq/theories/WSession.v (the write session of SevenZipFile as a
   state machine with fault points), the proofs are in coq/theories/WSessionProofs.v.
   D / dg / deq: the per-member digest and its equality test (CRC-32 and Z.eqb in the executable
   instance run32 / abs32 that the harness runs against the implementation). *)
From P7 Require Import Prelude Crc32 WSession WSessionProofs.
Open Scope Z_scope.

(* [failed_call_no_effect], faults detected before registration (source missing / lstat raising,
   arcname or argument rejected), any entry point, any reachable state: the exception reaches the
   caller, a reader of the closed archive sees no difference, and the state is unchanged except
   that write() has already run header.initialize() *)
Theorem C15_failed_call_no_effect_pre :
  forall (D : Type) (dg : bytes -> D) (deq : D -> D -> bool) (st : wstate D) (a : api) (s : src) (k : fault),
  reachable dg st -> s_fault s = Some k -> pre_fault (f_kind k) = true ->
  exists st', wstep dg st (OCall a s) = (st', Raised) /\ abs dg deq st' = abs dg deq st /\
              (st' = st \/ st' = set_init st).
Proof. exact (@failed_call_no_effect_pre_reach). Qed.
Print Assumptions C15_failed_call_no_effect_pre.

Theorem C15_failed_writeall_root_no_effect :
  forall (D : Type) (dg : bytes -> D) (st : wstate D) l, wstep dg st (OWriteall true l) = (st, Raised).
Proof. exact (@failed_writeall_root_no_effect). Qed.
Print Assumptions C15_failed_writeall_root_no_effect.

(* [failed_call_no_effect] at full strength is FALSE of the code: write() registers the member
   before Worker.archive opens the source.  Witness: writestr(x); write(a) with open() raising. *)
Theorem C15_failed_call_no_effect_refuted : exists st op st',
  reachable crc32 st /\ wstep32 st op = (st', Raised) /\
  abs32 st = Some [(0, MData [88; 88])] /\ abs32 st' = None.
Proof. exact failed_call_no_effect_refuted. Qed.
Print Assumptions C15_failed_call_no_effect_refuted.

(* ... whatever is written afterwards the archive stays unreadable and the later valid call raises *)
Theorem C15_open_failure_poisons :
  snd (run32 st0 ops_open_sticky) = [Returned; Raised; Raised] /\
  abs32 (fst (run32 st0 ops_open_sticky)) = None /\
  map expected_out ops_open_sticky = [Returned; Raised; Returned] /\
  flat_map expected ops_open_sticky = [(0, MData [88; 88]); (4, MData [89; 89; 89])].
Proof. exact open_failure_poisons. Qed.
Print Assumptions C15_open_failure_poisons.

Theorem C15_open_failure_once_poisons :
  snd (run32 st0 ops_open_once) = [Returned; Raised; Returned] /\
  abs32 (fst (run32 st0 ops_open_once)) = None /\
  map fst (ws_subs (fst (run32 st0 ops_open_once))) = [2%nat; 4%nat] /\
  ws_cur (fst (run32 st0 ops_open_once)) = 2%nat /\ length (ws_files (fst (run32 st0 ops_open_once))) = 3%nat.
Proof. exact open_failure_once_poisons. Qed.
Print Assumptions C15_open_failure_once_poisons.

(* [no_retry] is FALSE: write(a) raises (open fails once), write(dir) returns, and the archive holds a *)
Theorem C15_no_retry_refuted :
  snd (run32 st0 ops_retry) = [Raised; Returned] /\
  failed_of ops_retry (snd (run32 st0 ops_retry)) = [1] /\
  abs32 (fst (run32 st0 ops_retry)) = Some [(1, MData [65; 65; 65; 65]); (3, MDir)] /\
  flat_map expected ops_retry = [(3, MDir)].
Proof. exact no_retry_refuted. Qed.
Print Assumptions C15_no_retry_refuted.

(* [later_writes_intact] for all histories whose faults are all detected before registration is
   FALSE even without any fault: write(symlink) after writestr raises AttributeError after the
   link was registered *)
Theorem C15_later_writes_intact_refuted :
  forallb pre_only ops_link_after_data = true /\
  map expected_out ops_link_after_data = [Returned; Returned] /\
  snd (run32 st0 ops_link_after_data) = [Returned; Raised] /\
  abs32 (fst (run32 st0 ops_link_after_data)) = None.
Proof. exact later_writes_intact_refuted. Qed.
Print Assumptions C15_later_writes_intact_refuted.

(* [later_writes_intact], what does hold: histories of any length over write/writestr/writef/
   writeall whose faults are all detected before registration and in which no symbolic link is
   written once an in-memory member exists: every failure reaches the caller (and only those calls
   raise), and a reader of the closed archive gets exactly the members of the calls that returned,
   in order, with their complete bytes *)
Theorem C15_later_writes_intact_partial :
  forall (D : Type) (dg : bytes -> D) (deq : D -> D -> bool), (forall a b, deq a b = true <-> a = b) ->
  forall ops, forallb pre_only ops = true -> links_ok false ops = true ->
  exists st, run dg st0 ops = (st, map expected_out ops) /\ abs dg deq st = Some (flat_map expected ops).
Proof. exact (@later_writes_intact_partial). Qed.
Print Assumptions C15_later_writes_intact_partial.

Theorem C15_later_writes_intact_crc32 : forall ops,
  forallb pre_only ops = true -> links_ok false ops = true ->
  exists st, run32 st0 ops = (st, map expected_out ops) /\ abs32 st = Some (flat_map expected ops).
Proof. exact later_writes_intact_crc32. Qed.
Print Assumptions C15_later_writes_intact_crc32.

(* [no_retry], what does hold: in those histories every member of the archive comes from a source
   without fault *)
Theorem C15_no_retry_partial :
  forall (D : Type) (dg : bytes -> D) (deq : D -> D -> bool), (forall a b, deq a b = true <-> a = b) ->
  forall ops, forallb pre_only ops = true -> links_ok false ops = true ->
  exists st outs ms, run dg st0 ops = (st, outs) /\ abs dg deq st = Some ms /\
    forall m, In m ms -> exists a s, In (a, s) (flat_map op_srcs ops) /\ has_fault s = false /\
                                     m = full_member (file_of_src a s).
Proof. exact (@no_retry_partial). Qed.
Print Assumptions C15_no_retry_partial.

(* [midway_failure_not_wrong]: ANY history with ANY faults (sources failing to open or failing
   after k bytes, once or for good, retried behind the caller's back or not): if the closed
   archive can be read and every member passes its check, every registered member is there with
   the complete bytes of its source.  Digest assumed injective (see C15_hyps_satisfiable). *)
Theorem C15_midway_failure_not_wrong :
  forall (D : Type) (dg : bytes -> D) (deq : D -> D -> bool),
  (forall a b, deq a b = true <-> a = b) -> (forall x y, dg x = dg y -> x = y) ->
  forall ops st outs ms, run dg st0 ops = (st, outs) -> abs dg deq st = Some ms -> all_pass ms = true ->
  ms = map full_member (ws_files st).
Proof. exact (@midway_failure_not_wrong). Qed.
Print Assumptions C15_midway_failure_not_wrong.

(* per member the claim is FALSE: after writef(a) failed once after 3 of 8 equal bytes, the next
   call re-reads a from where it stopped; member a passes its CRC with 5 bytes, the following member
   fails its CRC *)
Theorem C15_midway_member_refuted :
  snd (run32 st0 ops_midway) = [Returned; Raised; Returned; Returned] /\
  map (fun f => (w_name f, w_data f)) (ws_files (fst (run32 st0 ops_midway))) =
    [(0, [88; 88]); (1, [65; 65; 65; 65; 65; 65; 65; 65]); (4, [89; 89; 89]); (3, [])] /\
  abs32 (fst (run32 st0 ops_midway)) =
    Some [(0, MData [88; 88]); (1, MData [65; 65; 65; 65; 65]); (4, MCrc); (3, MDir)].
Proof. exact midway_member_refuted. Qed.
Print Assumptions C15_midway_member_refuted.

(* the hypotheses on the digest are satisfiable *)
Theorem C15_hyps_satisfiable : exists (D : Type) (dg : bytes -> D) (deq : D -> D -> bool),
  (forall a b, deq a b = true <-> a = b) /\ (forall x y, dg x = dg y -> x = y).
Proof. exact hyps_satisfiable. Qed.

(* non-vacuity: concrete non-trivial instances of the hypotheses of the implications above *)
Example C15_later_writes_intact_example :
  let ops := [OCall AWrite slink; OCall AWritestr sx; OCall AWrite s_missing; OCall AWritef s_badname;
              OWriteall false [sdir; sb; mkSrc 8 KFile [69] (Some (mkFault FStat true)); sy];
              OWriteall true [sdir]; OCall AWritef sy] in
  forallb pre_only ops = true /\ links_ok false ops = true /\
  snd (run32 st0 ops) = [Returned; Returned; Raised; Raised; Raised; Raised; Returned] /\
  abs32 (fst (run32 st0 ops)) =
    Some [(5, MData [116]); (0, MData [88; 88]); (3, MDir); (2, MData [66; 66; 66]); (4, MData [89; 89; 89])].
Proof. exact later_writes_intact_example. Qed.

Example C15_failed_call_no_effect_pre_example :
  let st := fst (run32 st0 [OCall AWritestr sx]) in
  wstep32 st (OCall AWrite s_missing) = (set_init st, Raised) /\ abs32 (set_init st) = abs32 st /\
  wstep32 st0 (OCall AWrite s_missing) = (set_init st0, Raised) /\ set_init (D:=Z) st0 <> st0 /\
  abs32 (set_init st0) = Some [] /\ abs32 st0 = Some [].
Proof. exact failed_call_no_effect_pre_example. Qed.

Example C15_midway_example :
  let ops := [OCall AWritestr sx; OCall AWritef (sa_read 0 false); OCall AWrite sdir] in
  snd (run32 st0 ops) = [Returned; Raised; Returned] /\
  abs32 (fst (run32 st0 ops)) = Some [(0, MData [88; 88]); (1, MData [65; 65; 65; 65; 65; 65; 65; 65]); (3, MDir)] /\
  ws_garb (fst (run32 st0 [OCall AWritef (sa_read 3 true)])) = 3%nat /\
  abs32 (fst (run32 st0 [OCall AWritef (sa_read 3 true)])) = None.
Proof. exact midway_example. Qed.
