(* C09 -- Selective extraction equals the restriction of full extraction.
   Statements only; the model is theories/Select.v (SevenZipFile.extract/_extract,
   Worker.extract/_extract_single/_check, ArchiveFileList numbering, remove_trailing_slash),
   the proofs are in theories/SelectProofs.v.
   impl_extract to_dir a T recursive : what extract(targets=T, recursive=...) delivers ((name, bytes)
   in order of delivery) and the mkdir(parents=True) calls; impl_extract_all: extractall.
   all_members a: every non-directory member once, under its own name, with its own bytes.
   sel: the decision of _extract (`in targets` / `startswith`); spec_sel: named members and
   members beneath a named directory.
   stored: which numbering the folder file lists carry: true = the header index of each member
   (py7zr since the repair `use each member's own index as its id in multi-folder extraction`),
   false = ArchiveFileList offset+index (py7zr before it); the harness observes which one the
   implementation has and uses the model with that flag. *)
From P7 Require Import Prelude Select SelectProofs.
From Coq Require Import Permutation.

(* the main statement: for archives whose folder file lists are numbered consistently with the
   header (every single-folder archive; multi-folder archives without an empty-stream entry
   between two data members of one folder) and targets that are string prefixes of member names
   only along '/' boundaries: the selective result -- delivered members with bytes and order,
   and the directories made -- is the restriction of the full result, and the full result is
   every member with its own bytes *)
Theorem C09_extract_restrict : forall stored m a T recursive,
  wf_archive a -> ids_consistent stored a -> targets_prefix_ok a T ->
  delivered (impl_extract stored m a T recursive)
  = filter (fun x => spec_sel T recursive (fst x)) (delivered (impl_extract_all stored m a))
  /\ delivered (impl_extract_all stored m a) = all_members a.
Proof. exact extract_restrict. Qed.
Print Assumptions C09_extract_restrict.

Theorem C09_extract_restrict_full : forall stored m a T recursive,
  wf_archive a -> ids_consistent stored a -> targets_prefix_ok a T ->
  impl_extract stored m a T recursive = spec_run m a (spec_sel T recursive)
  /\ impl_extract_all stored m a = spec_run m a all_true.
Proof. exact extract_restrict_full. Qed.
Print Assumptions C09_extract_restrict_full.

(* the quantifier of the property: prefix-free member names, targets = member names (with or
   without a trailing slash) or absent names that are no string prefix of a member name *)
Theorem C09_extract_restrict_members : forall stored m a T recursive,
  wf_archive a -> prefix_free_names a -> ids_consistent stored a ->
  (forall t, In t T -> In (remove_trailing_slash t) (names a)
                       \/ (forall n, In n (names a) -> startswith n (remove_trailing_slash t) = false)) ->
  delivered (impl_extract stored m a T recursive)
  = filter (fun x => spec_sel T recursive (fst x)) (delivered (impl_extract_all stored m a))
  /\ delivered (impl_extract_all stored m a) = all_members a.
Proof. exact extract_restrict_members. Qed.
Print Assumptions C09_extract_restrict_members.

(* single-folder (solid) archives with any number of members satisfy the numbering hypothesis *)
Theorem C09_single_folder_consistent : forall stored a, (numfolders a <= 1)%nat -> ids_consistent stored a.
Proof. exact ids_consistent_single. Qed.
Print Assumptions C09_single_folder_consistent.

(* with the repaired numbering the hypothesis is met by every archive *)
Theorem C09_stored_numbering_consistent : forall a, ids_consistent true a.
Proof. exact ids_consistent_stored. Qed.
Print Assumptions C09_stored_numbering_consistent.

Theorem C09_extract_restrict_stored : forall m a T recursive,
  wf_archive a -> targets_prefix_ok a T ->
  delivered (impl_extract true m a T recursive)
  = filter (fun x => spec_sel T recursive (fst x)) (delivered (impl_extract_all true m a))
  /\ delivered (impl_extract_all true m a) = all_members a.
Proof. exact extract_restrict_stored. Qed.
Print Assumptions C09_extract_restrict_stored.

(* all_members is every non-directory member exactly once *)
Theorem C09_all_members_once : forall a, Permutation (all_members a) (canon (all_files a)).
Proof. exact all_members_perm. Qed.
Print Assumptions C09_all_members_once.

(* with the offset+index numbering the full statement is false for multi-folder archives: an
   empty-stream entry between two data members of one folder shifts the ids of the later members *)
Theorem C09_extract_restrict_multifolder_refuted :
  exists a T, wf_archive a /\ prefix_free_names a /\ (forall t, In t T -> In t (names a)) /\
    ~ ids_consistent false a /\
    delivered (impl_extract false false a T false)
      <> filter (fun x => spec_sel T false (fst x)) (all_members a) /\
    delivered (impl_extract_all false false a) <> all_members a.
Proof. exact extract_restrict_multifolder_refuted. Qed.
Print Assumptions C09_extract_restrict_multifolder_refuted.

Theorem C09_multifolder_defect_behaviour :
  delivered (impl_extract false false witness_defect [wD3] false) = [] /\
  delivered (impl_extract_all false false witness_defect)
  = [(wA, [1; 1; 1; 1]%Z); (wB, [2; 2]%Z); (wD1, [3; 3; 3; 3]%Z); (wD2, [5; 5; 5]%Z)] /\
  all_members witness_defect
  = [(wA, [1; 1; 1; 1]%Z); (wB, [2; 2]%Z); (wD1, [3; 3; 3; 3]%Z); (wD2, [4; 4; 4; 4; 4; 4]%Z);
     (wD3, [5; 5; 5]%Z)].
Proof. exact multifolder_defect_behaviour. Qed.

(* ..._partial: what holds of every archive, that layout included: the selective result is the
   restriction (by the implementation's own filter) of whatever extractall delivers *)
Theorem C09_extract_restrict_partial : forall stored m a T recursive,
  delivered (impl_extract stored m a T recursive)
  = filter (fun x => sel T recursive (fst x)) (delivered (impl_extract_all stored m a)).
Proof. exact extract_restrict_relative. Qed.
Print Assumptions C09_extract_restrict_partial.

(* the implementation's filter is the specified selection under the prefix side condition *)
Theorem C09_sel_spec_agree : forall a T recursive n,
  targets_prefix_ok a T -> In n (names a) -> sel T recursive n = spec_sel T recursive n.
Proof. exact sel_spec_agree. Qed.
Print Assumptions C09_sel_spec_agree.

(* names that are not in the archive are ignored *)
Theorem C09_absent_ignored : forall stored m a t T recursive,
  ~ In (remove_trailing_slash t) (names a) ->
  (recursive = true -> forall n, In n (names a) -> startswith n (remove_trailing_slash t) = false) ->
  impl_extract stored m a (t :: T) recursive = impl_extract stored m a T recursive.
Proof. exact absent_ignored. Qed.
Print Assumptions C09_absent_ignored.

(* ... but not unconditionally: recursive extraction matches by `startswith`, so an absent name
   that is a string prefix (not a path prefix) of a member name selects that member *)
Theorem C09_absent_ignored_refuted :
  exists a t T, wf_archive a /\ prefix_free_names a /\ ~ In (remove_trailing_slash t) (names a) /\
    (forall n, In n (names a) -> startswith n (remove_trailing_slash t ++ [47%Z]) = false) /\
    delivered (impl_extract false false a (t :: T) true) <> delivered (impl_extract false false a T true).
Proof. exact absent_ignored_refuted. Qed.
Print Assumptions C09_absent_ignored_refuted.

(* a trailing slash on a target is immaterial; list or set, order and repetition are immaterial *)
Theorem C09_trailing_slash_immaterial : forall stored m a T1 t T2 recursive,
  remove_trailing_slash t = t ->
  impl_extract stored m a (T1 ++ (t ++ [47%Z]) :: T2) recursive = impl_extract stored m a (T1 ++ t :: T2) recursive.
Proof. exact trailing_slash_immaterial. Qed.
Print Assumptions C09_trailing_slash_immaterial.

Theorem C09_targets_as_set : forall stored m a T T' recursive,
  (forall x, In x T <-> In x T') -> impl_extract stored m a T recursive = impl_extract stored m a T' recursive.
Proof. exact targets_as_set. Qed.
Print Assumptions C09_targets_as_set.

(* nothing else is created: the directories made are exactly the selected directory entries,
   their ancestors, and the ancestors of the selected members; none with a WriterFactory *)
Theorem C09_only_parents_created : forall stored a p d,
  ids_consistent stored a ->
  (In d (dirs_created (run stored true a p)) <->
   d <> [] /\ exists e rest, In e a /\ p (ename e) = true /\ comps (ename e) = d ++ rest
                            /\ (is_dir e = true \/ rest <> [])).
Proof. exact only_parents_created. Qed.
Print Assumptions C09_only_parents_created.

Theorem C09_factory_creates_no_directories : forall stored a p, dirs_created (run stored false a p) = [].
Proof. exact factory_creates_no_directories. Qed.

(* non-vacuity *)
Example C09_healthy_multifolder_hypotheses :
  wf_archive witness_healthy /\ prefix_free_names witness_healthy /\ ids_consistent false witness_healthy /\
  targets_prefix_ok witness_healthy [wD3; wE ++ [47%Z]] /\ numfolders witness_healthy = 2%nat.
Proof. exact healthy_witness_hypotheses. Qed.

Example C09_single_folder_example :
  wf_archive witness_single /\ prefix_free_names witness_single /\ numfolders witness_single = 1%nat /\
  impl_extract false true witness_single [wDir ++ [47%Z]; wB] true
  = mkR [(wNested, [2; 2]%Z); (wB, [3]%Z)] [[wDir]; [wDir; [100%Z]]; []] /\
  dirs_created (impl_extract false true witness_single [wDir ++ [47%Z]; wB] true)
  = [[wDir]; [wDir]; [wDir; [100%Z]]].
Proof. exact single_witness_behaviour. Qed.

Example C09_absent_ignored_example :
  ~ In (remove_trailing_slash [113%Z]) (names witness_single) /\
  (forall n, In n (names witness_single) -> startswith n (remove_trailing_slash [113%Z]) = false) /\
  impl_extract false true witness_single [[113%Z]; wB] true = impl_extract false true witness_single [wB] true.
Proof. exact absent_ignored_example. Qed.

Example C09_trailing_slash_example :
  remove_trailing_slash wDir = wDir /\
  impl_extract false true witness_single [wDir ++ [47%Z]] true = impl_extract false true witness_single [wDir] true.
Proof. split; reflexivity. Qed.
