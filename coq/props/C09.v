(* C09 -- Selective extraction equals the restriction of full extraction.
   Statements only; the model is theories/Select.v (SevenZipFile.extract/_extract,
   Worker.extract/_extract_single/_check, ArchiveFileList numbering, remove_trailing_slash),
   the proofs are in theories/SelectProofs.v.
   impl_extract stored to_dir a T recursive : what extract(targets=T, recursive=...) delivers
   ((name, bytes) in order of delivery) and the mkdir(parents=True) calls; impl_extract_all:
   extractall.  all_members a: every non-directory member once, under its own name, with its own
   bytes.  sel: the decision of _extract (`in targets`, recursive: or
   `startswith(target + "/")`); spec_sel: named members and members beneath a named directory.
   stored: which numbering the folder file lists carry: true = the header index of each member
   (py7zr as it is, since the repair `use each member's own index as its id in multi-folder
   extraction`); false = ArchiveFileList offset+index (py7zr before it; kept as a documented
   regression example: the harness observes which numbering the implementation has, runs the
   model with that flag, and reports the offset numbering as the violation proved below). *)
From P7 Require Import Prelude Select SelectProofs.
From Coq Require Import Permutation.

(* the main statement (the code as it is): for every archive and every collection of targets the
   selective result -- delivered members with their bytes, in order -- is the restriction of the
   full result to the named members and the members beneath a named directory, and the full
   result is every member with its own bytes *)
Theorem C09_extract_restrict : forall m a T recursive,
  wf_archive a ->
  delivered (impl_extract true m a T recursive)
  = filter (fun x => spec_sel T recursive (fst x)) (delivered (impl_extract_all true m a))
  /\ delivered (impl_extract_all true m a) = all_members a.
Proof. exact extract_restrict_stored. Qed.
Print Assumptions C09_extract_restrict.

(* the same for either numbering under the hypothesis that the numbering of the folder file lists
   agrees with the header, and for the whole result (directories made included) *)
Theorem C09_extract_restrict_any_numbering : forall stored m a T recursive,
  wf_archive a -> ids_consistent stored a ->
  delivered (impl_extract stored m a T recursive)
  = filter (fun x => spec_sel T recursive (fst x)) (delivered (impl_extract_all stored m a))
  /\ delivered (impl_extract_all stored m a) = all_members a.
Proof. exact extract_restrict. Qed.
Print Assumptions C09_extract_restrict_any_numbering.

Theorem C09_extract_restrict_full : forall stored m a T recursive,
  wf_archive a -> ids_consistent stored a ->
  impl_extract stored m a T recursive = spec_run m a (spec_sel T recursive)
  /\ impl_extract_all stored m a = spec_run m a all_true.
Proof. exact extract_restrict_full. Qed.
Print Assumptions C09_extract_restrict_full.

(* the hypothesis is met by every archive with the numbering of the code as it is, and by every
   single-folder (solid) archive with either numbering *)
Theorem C09_stored_numbering_consistent : forall a, ids_consistent true a.
Proof. exact ids_consistent_stored. Qed.
Print Assumptions C09_stored_numbering_consistent.

Theorem C09_single_folder_consistent : forall stored a, (numfolders a <= 1)%nat -> ids_consistent stored a.
Proof. exact ids_consistent_single. Qed.
Print Assumptions C09_single_folder_consistent.

(* all_members is every non-directory member exactly once *)
Theorem C09_all_members_once : forall a, Permutation (all_members a) (canon (all_files a)).
Proof. exact all_members_perm. Qed.
Print Assumptions C09_all_members_once.

(* the filter of _extract is the specified selection, for every name and every targets *)
Theorem C09_sel_spec_agree : forall T recursive n, sel T recursive n = spec_sel T recursive n.
Proof. exact sel_spec_agree. Qed.
Print Assumptions C09_sel_spec_agree.

(* with no hypothesis at all (either numbering): the selective result is the restriction of
   whatever extractall delivers *)
Theorem C09_extract_restrict_partial : forall stored m a T recursive,
  delivered (impl_extract stored m a T recursive)
  = filter (fun x => sel T recursive (fst x)) (delivered (impl_extract_all stored m a)).
Proof. exact extract_restrict_relative. Qed.
Print Assumptions C09_extract_restrict_partial.

(* names that are not in the archive -- neither a member nor, with recursive, a directory above a
   member -- are ignored *)
Theorem C09_absent_ignored : forall stored m a t T recursive,
  ~ In (remove_trailing_slash t) (names a) ->
  (recursive = true -> forall n, In n (names a) -> startswith n (remove_trailing_slash t ++ [47%Z]) = false) ->
  impl_extract stored m a (t :: T) recursive = impl_extract stored m a T recursive.
Proof. exact absent_ignored. Qed.
Print Assumptions C09_absent_ignored.

(* in particular an absent name that is a string prefix (not a path prefix) of a member name:
   "su" against "sub/x" (refuted while _extract matched with `startswith(target)`) *)
Theorem C09_absent_string_prefix_ignored :
  let a := [mkEntry wSubX (KData 0 [7%Z])] in
  wf_archive a /\ prefix_free_names a /\ ~ In (remove_trailing_slash wSu) (names a) /\
  startswith wSubX wSu = true /\
  (forall nm m T, impl_extract nm m a (wSu :: T) true = impl_extract nm m a T true) /\
  delivered (impl_extract true false a [wSu] true) = [].
Proof. exact absent_string_prefix_ignored. Qed.
Print Assumptions C09_absent_string_prefix_ignored.

(* a trailing slash on a target is immaterial; list or set, order and repetition are immaterial *)
Theorem C09_trailing_slash_immaterial : forall stored m a T1 t T2 recursive,
  remove_trailing_slash t = t ->
  impl_extract stored m a (T1 ++ (t ++ [47%Z]) :: T2) recursive = impl_extract stored m a (T1 ++ t :: T2) recursive.
Proof. exact trailing_slash_immaterial. Qed.
Print Assumptions C09_trailing_slash_immaterial.

Theorem C09_targets_as_set : forall stored m a T T' recursive,
  (forall x, In x T <-> In x T') -> impl_extract stored m a T recursive = impl_extract stored m a T' recursive.
Proof. exact targets_as_set. Qed.
Print Assumptions C09_targets_as_set.

(* nothing else is created: the directories made are exactly the selected directory entries,
   their ancestors, and the ancestors of the selected members; none with a WriterFactory *)
Theorem C09_only_parents_created : forall stored a p d,
  ids_consistent stored a ->
  (In d (dirs_created (run stored true a p)) <->
   d <> [] /\ exists e rest, In e a /\ p (ename e) = true /\ comps (ename e) = d ++ rest
                            /\ (is_dir e = true \/ rest <> [])).
Proof. exact only_parents_created. Qed.
Print Assumptions C09_only_parents_created.

Theorem C09_factory_creates_no_directories : forall stored a p, dirs_created (run stored false a p) = [].
Proof. exact factory_creates_no_directories. Qed.

(* documented regression example: with the former offset+index numbering the statement is false
   for multi-folder archives -- an empty-stream entry between two data members of one folder
   shifts the ids of the later members (witness a b | d1 e(directory) d2 d3, T = [d3]) *)
Theorem C09_offset_numbering_regression_refuted :
  exists a T, wf_archive a /\ prefix_free_names a /\ (forall t, In t T -> In t (names a)) /\
    ~ ids_consistent false a /\
    delivered (impl_extract false false a T false)
      <> filter (fun x => spec_sel T false (fst x)) (all_members a) /\
    delivered (impl_extract_all false false a) <> all_members a.
Proof. exact extract_restrict_multifolder_refuted. Qed.
Print Assumptions C09_offset_numbering_regression_refuted.

Theorem C09_offset_numbering_regression_behaviour :
  delivered (impl_extract false false witness_defect [wD3] false) = [] /\
  delivered (impl_extract_all false false witness_defect)
  = [(wA, [1; 1; 1; 1]%Z); (wB, [2; 2]%Z); (wD1, [3; 3; 3; 3]%Z); (wD2, [5; 5; 5]%Z)] /\
  all_members witness_defect
  = [(wA, [1; 1; 1; 1]%Z); (wB, [2; 2]%Z); (wD1, [3; 3; 3; 3]%Z); (wD2, [4; 4; 4; 4; 4; 4]%Z);
     (wD3, [5; 5; 5]%Z)].
Proof. exact multifolder_defect_behaviour. Qed.

(* the same layout with the numbering of the code as it is *)
Example C09_gap_layout_now_correct :
  delivered (impl_extract true false witness_defect [wD3] false) = [(wD3, [5; 5; 5]%Z)] /\
  delivered (impl_extract_all true false witness_defect) = all_members witness_defect.
Proof. split; reflexivity. Qed.

(* non-vacuity *)
Example C09_healthy_multifolder_hypotheses :
  wf_archive witness_healthy /\ prefix_free_names witness_healthy /\ ids_consistent false witness_healthy /\
  numfolders witness_healthy = 2%nat.
Proof. exact healthy_witness_hypotheses. Qed.

Example C09_single_folder_example :
  wf_archive witness_single /\ prefix_free_names witness_single /\ numfolders witness_single = 1%nat /\
  impl_extract true true witness_single [wDir ++ [47%Z]; wB] true
  = mkR [(wNested, [2; 2]%Z); (wB, [3]%Z)] [[wDir]; [wDir; [100%Z]]; []] /\
  dirs_created (impl_extract true true witness_single [wDir ++ [47%Z]; wB] true)
  = [[wDir]; [wDir]; [wDir; [100%Z]]].
Proof. repeat split. Qed.

Example C09_absent_ignored_example :
  ~ In (remove_trailing_slash [113%Z]) (names witness_single) /\
  (forall n, In n (names witness_single) -> startswith n (remove_trailing_slash [113%Z] ++ [47%Z]) = false) /\
  impl_extract true true witness_single [[113%Z]; wB] true = impl_extract true true witness_single [wB] true.
Proof.
  split; [vm_compute; intuition discriminate|]. split; [|reflexivity].
  intros n Hn. vm_compute in Hn. intuition (subst; reflexivity).
Qed.

Example C09_trailing_slash_example :
  remove_trailing_slash wDir = wDir /\
  impl_extract true true witness_single [wDir ++ [47%Z]] true = impl_extract true true witness_single [wDir] true.
Proof. split; reflexivity. Qed.
