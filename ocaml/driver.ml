(* driver.ml -- generic bridge between the Python harness and the extracted
   Gallina dispatcher.  Protocol (one request per line on stdin, one reply per line):
     request:  <fn-number-hex> <tree>
     tree   :  hex integer (optional leading '-')  |  '(' tree* ')'
   Nothing here interprets a case: decoding of arguments and printing of results
   is Gallina (Dispatch.v).  The only conversions are int <-> positive/Z bit by bit. *)
(* no `open Model`: an extracted development may define types named string, list, ... *)
open Model
type str = Stdlib.String.t

(* hex string -> positive, reading bits; s non-empty, not all zero *)
let z_of_hex (s : str) : z =
  let neg = Stdlib.String.length s > 0 && s.[0] = '-' in
  let s = if neg then Stdlib.String.sub s 1 (Stdlib.String.length s - 1) else s in
  (* collect bits, least significant first *)
  let n = Stdlib.String.length s in
  let bits = Buffer.create (4 * n) in
  for i = n - 1 downto 0 do
    let c = s.[i] in
    let d = if c >= '0' && c <= '9' then Char.code c - 48
            else if c >= 'a' && c <= 'f' then Char.code c - 87
            else if c >= 'A' && c <= 'F' then Char.code c - 55
            else failwith "bad hex" in
    for k = 0 to 3 do Buffer.add_char bits (if (d lsr k) land 1 = 1 then '1' else '0') done
  done;
  let b = Buffer.contents bits in
  (* index of most significant set bit *)
  let top = ref (Stdlib.String.length b - 1) in
  while !top >= 0 && b.[!top] = '0' do decr top done;
  if !top < 0 then Z0
  else begin
    let p = ref XH in
    for i = !top - 1 downto 0 do
      p := if b.[i] = '1' then XI !p else XO !p
    done;
    if neg then Zneg !p else Zpos !p
  end

let hex_of_pos (p : positive) : str =
  (* bits least significant first *)
  let buf = Buffer.create 32 in
  let rec go p = match p with
    | XH -> Buffer.add_char buf '1'
    | XO q -> Buffer.add_char buf '0'; go q
    | XI q -> Buffer.add_char buf '1'; go q in
  go p;
  let b = Buffer.contents buf in
  let n = Stdlib.String.length b in
  let nd = (n + 3) / 4 in
  let out = Bytes.create nd in
  for d = 0 to nd - 1 do
    let v = ref 0 in
    for k = 0 to 3 do
      let i = 4 * d + k in
      if i < n && b.[i] = '1' then v := !v lor (1 lsl k)
    done;
    Bytes.set out (nd - 1 - d) "0123456789abcdef".[!v]
  done;
  Bytes.to_string out

let hex_of_z (x : z) : str = match x with
  | Z0 -> "0"
  | Zpos p -> hex_of_pos p
  | Zneg p -> "-" ^ hex_of_pos p

(* tokenizer / parser *)
let parse_tree (s : str) (start : int) : tree * int =
  let n = Stdlib.String.length s in
  let rec skip i = if i < n && (s.[i] = ' ' || s.[i] = '\t') then skip (i + 1) else i in
  let rec tree i =
    let i = skip i in
    if i >= n then failwith "eof"
    else if s.[i] = '(' then
      let rec items i acc =
        let i = skip i in
        if i >= n then failwith "unclosed"
        else if s.[i] = ')' then (TL (Stdlib.List.rev acc), i + 1)
        else let (t, j) = tree i in items j (t :: acc) in
      items (i + 1) []
    else
      let j = ref i in
      while !j < n && s.[!j] <> ' ' && s.[!j] <> '(' && s.[!j] <> ')' do incr j done;
      (TI (z_of_hex (Stdlib.String.sub s i (!j - i))), !j) in
  tree start

let rec print_tree (buf : Buffer.t) (t : tree) : unit = match t with
  | TI x -> Buffer.add_string buf (hex_of_z x)
  | TL l ->
    Buffer.add_char buf '(';
    Stdlib.List.iteri (fun i x -> if i > 0 then Buffer.add_char buf ' '; print_tree buf x) l;
    Buffer.add_char buf ')'

let () =
  try
    while true do
      let line = input_line stdin in
      if Stdlib.String.length line > 0 then begin
        let sp = try Stdlib.String.index line ' ' with Not_found -> Stdlib.String.length line in
        let fn = z_of_hex (Stdlib.String.sub line 0 sp) in
        let (arg, _) = if sp < Stdlib.String.length line then parse_tree line sp else (TL [], 0) in
        let r = (try dispatch fn arg with Stack_overflow -> TL [TI (z_of_hex "-1")]) in
        let buf = Buffer.create 256 in
        print_tree buf r;
        print_string (Buffer.contents buf);
        print_newline ()
      end
    done
  with End_of_file -> ()
